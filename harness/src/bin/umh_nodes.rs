//! C14 — CLUSTER NODES / CLUSTER SLOTS of one proxy vs its metadata, migration phases and routing.
//!
//! Drives the real `ForwardHandler` (→ `MetaManager::gen_cluster_nodes/gen_cluster_slots` →
//! `ClusterBackendMap` → `gen_cluster_*_helper` / `should_ignore_slots` / `gen_node_id`, with the
//! phase map of the real `MigrationMap::get_states`). Metadata is installed through the real
//! `UMCTL SETCLUSTER` parser (textual and compressed form); migration phases are *driven through the
//! real handshake*: importing tasks by `UMCTL PRECHECK / PRESWITCH / FINALSWITCH` sent to the handler,
//! migrating tasks by letting the real `RedisScanMigratingTask::start()` run against a gated fake peer
//! (the peer answers `NOT_READY_FOR_SWITCHING` / fails `SCAN` until the harness opens the gate); the
//! phases actually reached are read back from `UMCTL INFO`. Tokio time is paused (virtual clock).
//!
//! Oracle (independent of the Lean model): every slot 0..16383 of a partition-shaped meta is listed by
//! exactly one NODES token and one SLOTS entry, both at the same address, which is the owner the
//! harness expects from the meta it built and the phases it observed, and which agrees with routing
//! probes (`GET <key of slot>`) for the same slots.
use arc_swap::ArcSwap;
use futures::channel::mpsc;
use serde_json::json;
use std::collections::{BTreeMap, BTreeSet, HashMap, HashSet};
use std::convert::TryFrom;
use std::future::Future;
use std::iter::Peekable;
use std::pin::Pin;
use std::sync::atomic::AtomicBool;
use std::sync::{Arc, Mutex};
use std::time::Duration;
use umharness::route_support::{server_config, upper, Arg, Delivery, Log, ProxyCfg, RecordingConnFactory};
use umharness::util::*;
use undermoon::broker::verif_export::store::MetaStore;
use undermoon::common::cluster::{
    ClusterName, MigrationMeta, MigrationTaskMeta, Proxy, Range, RangeList, Role, SlotRange, SlotRangeTag,
};
use undermoon::common::config::ClusterConfig;
use undermoon::common::proto::{ClusterMapFlags, ProxyClusterMeta};
use undermoon::common::response::{
    ERR_CLUSTER_NOT_FOUND, ERR_MOVED, ERR_TOO_MANY_REDIRECTIONS, NOT_READY_FOR_SWITCHING_REPLY,
};
use undermoon::common::track::TrackedFutureRegistry;
use undermoon::common::utils::{generate_slot, SLOT_NUM};
use undermoon::common::version::UNDERMOON_MIGRATION_VERSION;
use undermoon::migration::task::SwitchArg;
use undermoon::protocol::{
    Array, BinSafeStr, BulkStr, OptionalMulti, RedisClient, RedisClientError, RedisClientFactory, Resp,
    RespPacket, RespVec,
};
use undermoon::proxy::command::{new_command_pair, Command};
use undermoon::proxy::executor::ForwardHandler;
use undermoon::proxy::manager::MetaMap;
use undermoon::proxy::service::ClusterNodesVersion;
use undermoon::proxy::session::{CmdCtx, CmdCtxHandler};
use undermoon::proxy::slowlog::SlowRequestLogger;

type Ranges = Vec<(usize, usize)>;

// ------------------------------------------------------------------------------------------
// the gated fake peer / fake Redis seen by the migration tasks
// ------------------------------------------------------------------------------------------

/// gate levels of one migrating task (keyed by the strings of its task meta, as sent on the wire):
/// 0 nothing answered, 1 PRECHECK ok, 2 PRESWITCH ok, 4 FINALSWITCH ok; `scan_open`: node addresses
/// whose SCAN terminates
#[derive(Default)]
struct Gates {
    levels: Mutex<HashMap<String, u8>>,
    scan_open: Mutex<HashSet<String>>,
    all_open: AtomicBool,
}

struct GateClient {
    addr: String,
    gates: Arc<Gates>,
}

impl GateClient {
    fn reply(&self, cmd: &[BinSafeStr]) -> RespVec {
        let all = self.gates.all_open.load(std::sync::atomic::Ordering::SeqCst);
        let name = cmd.first().map(|b| upper(b)).unwrap_or_default();
        if name == b"UMCTL" {
            let sub = cmd.get(1).map(|b| upper(b)).unwrap_or_default();
            let key = cmd
                .get(3..)
                .unwrap_or(&[])
                .iter()
                .map(|b| String::from_utf8_lossy(b).to_string())
                .collect::<Vec<_>>()
                .join(" ");
            let need = match sub.as_slice() {
                b"PRECHECK" => 1,
                b"PRESWITCH" => 2,
                b"FINALSWITCH" => 4,
                _ => 0,
            };
            let lvl = self.gates.levels.lock().expect("gates").get(&key).copied().unwrap_or(0);
            if all || lvl >= need {
                Resp::Simple(b"OK".to_vec())
            } else {
                Resp::Error(NOT_READY_FOR_SWITCHING_REPLY.as_bytes().to_vec())
            }
        } else if name == b"SCAN" {
            if all || self.gates.scan_open.lock().expect("gates").contains(&self.addr) {
                Resp::Arr(Array::Arr(vec![Resp::Bulk(BulkStr::Str(b"0".to_vec())), Resp::Arr(Array::Arr(vec![]))]))
            } else {
                Resp::Error(b"ERR scan gate closed".to_vec())
            }
        } else {
            Resp::Simple(b"OK".to_vec())
        }
    }
}

impl RedisClient for GateClient {
    fn execute<'s>(
        &'s mut self,
        command: OptionalMulti<Vec<BinSafeStr>>,
    ) -> Pin<Box<dyn Future<Output = Result<OptionalMulti<RespVec>, RedisClientError>> + Send + 's>> {
        let res = command.map(|c| self.reply(&c));
        Box::pin(async { Ok(res) })
    }
}

struct GateClientFactory {
    gates: Arc<Gates>,
}

impl RedisClientFactory for GateClientFactory {
    type Client = GateClient;

    fn create_client<'s>(
        &'s self,
        address: String,
    ) -> Pin<Box<dyn Future<Output = Result<Self::Client, RedisClientError>> + Send + 's>> {
        let c = GateClient { addr: address, gates: self.gates.clone() };
        Box::pin(async { Ok(c) })
    }
}

// ------------------------------------------------------------------------------------------
// one in-process proxy
// ------------------------------------------------------------------------------------------
type Handler = ForwardHandler<GateClientFactory, RecordingConnFactory>;

struct NProxy {
    handler: Handler,
    log: Log,
    gates: Arc<Gates>,
    _stopped: mpsc::UnboundedReceiver<()>,
}

#[derive(Clone, Debug, PartialEq)]
struct Cfg {
    v2: bool,
    ar: bool,
    me: String,
}

fn host_of(addr: &str) -> String {
    addr.split(':').next().unwrap_or("").to_string()
}

impl NProxy {
    fn new(cfg: &Cfg) -> Self {
        let mut sc = server_config(&ProxyCfg {
            active_redirection: cfg.ar,
            max_redirections: None,
            default_redirection_address: None,
        });
        sc.announce_address = cfg.me.clone();
        sc.address = cfg.me.clone();
        sc.announce_host = host_of(&cfg.me);
        sc.command_cluster_nodes_version = if cfg.v2 { ClusterNodesVersion::V2 } else { ClusterNodesVersion::V1 };
        let config = Arc::new(sc);
        let log: Log = Arc::new(Mutex::new(vec![]));
        let gates = Arc::new(Gates::default());
        let conn_factory = Arc::new(RecordingConnFactory { log: log.clone() });
        let meta_map = Arc::new(ArcSwap::new(Arc::new(MetaMap::empty())));
        let future_registry = Arc::new(TrackedFutureRegistry::default());
        let (tx, rx) = mpsc::unbounded();
        let handler = ForwardHandler::new(
            config.clone(),
            Arc::new(GateClientFactory { gates: gates.clone() }),
            Arc::new(SlowRequestLogger::new(config)),
            meta_map,
            conn_factory,
            future_registry,
            tx,
        );
        NProxy { handler, log, gates, _stopped: rx }
    }

    async fn run(&self, args: &[Vec<u8>]) -> (Result<RespVec, String>, Vec<Delivery>) {
        self.log.lock().expect("log").clear();
        let resp = Resp::Arr(Array::Arr(args.iter().map(|b| Resp::Bulk(BulkStr::Str(b.clone()))).collect()));
        let cmd = Command::new(Box::new(RespPacket::Data(resp)));
        let (s, r) = new_command_pair(&cmd);
        let ctx = CmdCtx::new(cmd, s, 1, false);
        let authenticated = AtomicBool::new(false);
        let res = self.handler.handle_cmd_ctx(ctx, r, &authenticated).await;
        let reply = match res {
            Ok(task_reply) => Ok(task_reply.into_resp_vec()),
            Err(e) => Err(format!("{:?}", e)),
        };
        let mut stable = 0;
        let mut last = self.log.lock().expect("log").len();
        for _ in 0..32 {
            tokio::task::yield_now().await;
            let n = self.log.lock().expect("log").len();
            if n == last {
                stable += 1;
                if stable >= 4 {
                    break;
                }
            } else {
                stable = 0;
                last = n;
            }
        }
        let deliveries = self.log.lock().expect("log").clone();
        (reply, deliveries)
    }

    async fn run_strs(&self, args: &[String]) -> Result<RespVec, String> {
        let a: Vec<Vec<u8>> = args.iter().map(|s| s.clone().into_bytes()).collect();
        self.run(&a).await.0
    }
}

// ------------------------------------------------------------------------------------------
// metadata as the harness builds it
// ------------------------------------------------------------------------------------------

/// the installed meta as returned by the real parser, in a canonical order
#[derive(Clone, Debug)]
struct Installed {
    name: String,
    epoch: u64,
    local: Vec<(String, Vec<SlotRange>)>,
    peer: Vec<(String, Vec<SlotRange>)>,
}

fn kind_of(sr: &SlotRange) -> char {
    match sr.tag {
        SlotRangeTag::None => 'N',
        SlotRangeTag::Migrating(_) => 'M',
        SlotRangeTag::Importing(_) => 'I',
    }
}

fn ranges_of(sr: &SlotRange) -> Ranges {
    sr.get_range_list().get_ranges().iter().map(|r| (r.start(), r.end())).collect()
}

fn rl_text(rs: &Ranges) -> String {
    rs.iter().map(|(s, e)| format!("{}-{}", s, e)).collect::<Vec<_>>().join(",")
}

fn sr_text(sr: &SlotRange) -> String {
    let base = format!("{}:{}", kind_of(sr), rl_text(&ranges_of(sr)));
    match sr.tag.get_migration_meta() {
        // the MigrationMeta is part of the task key (a task survives a SETCLUSTER iff it is unchanged)
        Some(m) => format!("{}@{}~{}~{}~{}~{}", base, m.epoch, m.src_proxy_address, m.src_node_address, m.dst_proxy_address, m.dst_node_address),
        None => base,
    }
}

fn nodes_text(m: &[(String, Vec<SlotRange>)]) -> String {
    if m.is_empty() {
        return "-".to_string();
    }
    m.iter()
        .map(|(a, srs)| format!("{}={}", a, srs.iter().map(sr_text).collect::<Vec<_>>().join("/")))
        .collect::<Vec<_>>()
        .join(";")
}

/// a `RangeList` with exactly these ranges (no compaction): through its serde form
fn raw_range_list(rs: &Ranges) -> RangeList {
    let v: Vec<Vec<usize>> = rs.iter().map(|(s, e)| vec![*s, *e]).collect();
    serde_json::from_value(json!(v)).expect("raw range list")
}

fn compact_range_list(rs: &Ranges) -> RangeList {
    RangeList::new(rs.iter().map(|(s, e)| Range(*s, *e)).collect())
}

#[derive(Clone, Debug)]
struct MetaSpec {
    name: String,
    local: HashMap<String, Vec<SlotRange>>,
    peer: HashMap<String, Vec<SlotRange>>,
    compressed: bool,
    /// epoch of the view when it comes from the broker (the installed epoch must not be below the epochs
    /// inside the migration metas, else the switch handlers answer NOT_READY)
    min_epoch: u64,
    /// `CONFIG migration_max_migration_time <seconds>` of the cluster config (None = default, 3 h)
    max_migration_time: Option<u64>,
}

fn sorted_map(m: &HashMap<String, Vec<SlotRange>>) -> Vec<(String, Vec<SlotRange>)> {
    let mut v: Vec<(String, Vec<SlotRange>)> = m.iter().map(|(a, s)| (a.clone(), s.clone())).collect();
    v.sort_by(|a, b| a.0.cmp(&b.0));
    v
}

/// SETCLUSTER arguments (after `UMCTL SETCLUSTER`) and what the real parser makes of them
fn build_args(spec: &MetaSpec, epoch: u64) -> Result<(Vec<String>, Installed), String> {
    let name = ClusterName::try_from(spec.name.as_str()).map_err(|_| "invalid cluster name".to_string())?;
    let flags = ClusterMapFlags { force: false, compress: spec.compressed };
    let mut config = ClusterConfig::default();
    if let Some(t) = spec.max_migration_time {
        config.migration_config.max_migration_time = t;
    }
    let meta = ProxyClusterMeta::new(epoch, flags, name, spec.local.clone(), spec.peer.clone(), config);
    let args = if spec.compressed {
        meta.to_compressed_args().map_err(|e| format!("{:?}", e))?
    } else {
        meta.to_args()
    };
    let mut it: Peekable<_> = args.clone().into_iter().peekable();
    let (parsed, _) = ProxyClusterMeta::parse(&mut it).map_err(|e| format!("{:?}", e))?;
    Ok((
        args,
        Installed {
            name: parsed.get_cluster_name().to_string(),
            epoch: parsed.get_epoch(),
            local: sorted_map(parsed.get_local()),
            peer: sorted_map(parsed.get_peer()),
        },
    ))
}

// ------------------------------------------------------------------------------------------
// the harness' own reading of a meta (for the oracle)
// ------------------------------------------------------------------------------------------
#[derive(Clone, Debug)]
struct Entry {
    /// address under which the entry is advertised: announce address for local nodes, proxy address for peers
    adv: String,
    /// local entries: the node address
    node: String,
    local: bool,
    kind: char,
    ranges: Ranges,
    sr: SlotRange,
}

fn entries(me: &str, im: &Installed) -> Vec<Entry> {
    let mut v = vec![];
    for (node, srs) in &im.local {
        for sr in srs {
            v.push(Entry { adv: me.to_string(), node: node.clone(), local: true, kind: kind_of(sr), ranges: ranges_of(sr), sr: sr.clone() });
        }
    }
    for (a, srs) in &im.peer {
        for sr in srs {
            v.push(Entry { adv: a.clone(), node: String::new(), local: false, kind: kind_of(sr), ranges: ranges_of(sr), sr: sr.clone() });
        }
    }
    v
}

struct Shape {
    /// per slot: index of the unique stable-or-migrating entry covering it
    owner: Vec<usize>,
    /// per slot: index of the unique importing entry covering it (usize::MAX = none)
    importer: Vec<usize>,
}

/// `Ok(shape)` iff the meta satisfies the partition property: every slot covered by exactly one range of a
/// stable-or-migrating entry; a slot of a migrating entry by exactly one range of an importing entry with
/// the same range list; a slot of a stable entry by no importing entry
fn partition_shape(es: &[Entry]) -> Result<Shape, String> {
    let mut own_cnt = vec![0u32; SLOT_NUM];
    let mut owner = vec![usize::MAX; SLOT_NUM];
    let mut imp_cnt = vec![0u32; SLOT_NUM];
    let mut importer = vec![usize::MAX; SLOT_NUM];
    for (i, e) in es.iter().enumerate() {
        for (s, t) in &e.ranges {
            if s > t {
                continue;
            }
            let hi = (*t).min(SLOT_NUM - 1);
            let mut x = *s;
            while x <= hi {
                if e.kind == 'I' {
                    imp_cnt[x] += 1;
                    importer[x] = i;
                } else {
                    own_cnt[x] += 1;
                    owner[x] = i;
                }
                x += 1;
            }
        }
    }
    for s in 0..SLOT_NUM {
        if own_cnt[s] != 1 {
            return Err(format!("slot {} has {} owners", s, own_cnt[s]));
        }
        let o = &es[owner[s]];
        if o.kind == 'M' {
            if imp_cnt[s] != 1 {
                return Err(format!("migrating slot {} has {} importers", s, imp_cnt[s]));
            }
            if es[importer[s]].ranges != o.ranges {
                return Err(format!("slot {}: importing range list differs from the migrating one", s));
            }
        } else if imp_cnt[s] != 0 {
            return Err(format!("stable slot {} has an importer", s));
        }
    }
    Ok(Shape { owner, importer })
}

const STATE_NAMES: [(&str, &str); 6] = [
    ("PRE_CHECK", "PreCheck"),
    ("PRE_BLOCKING", "PreBlocking"),
    ("PRE_SWITCH", "PreSwitch"),
    ("SCANNING", "Scanning"),
    ("FINAL_SWITCH", "FinalSwitch"),
    ("SWITCH_COMMITTED", "SwitchCommitted"),
];

/// `UMCTL INFO` → Migration section → (range list, state variant name) per task
fn parse_info_states(r: &RespVec) -> Result<Vec<(Ranges, String)>, String> {
    let top = match r {
        Resp::Arr(Array::Arr(v)) => v,
        _ => return Err("INFO: not an array".to_string()),
    };
    let mut mig: Option<&RespVec> = None;
    let mut i = 0;
    while i + 1 < top.len() {
        if let Resp::Bulk(BulkStr::Str(s)) = &top[i] {
            if s.as_slice() == b"Migration" {
                mig = Some(&top[i + 1]);
            }
        }
        i += 2;
    }
    let lines = match mig {
        Some(Resp::Arr(Array::Arr(v))) => v,
        _ => return Err("INFO: no Migration section".to_string()),
    };
    let mut out = vec![];
    for (k, l) in lines.iter().enumerate() {
        let s = match l {
            Resp::Bulk(BulkStr::Str(s)) => String::from_utf8_lossy(s).to_string(),
            _ => return Err("INFO: line not bulk".to_string()),
        };
        if k == 0 {
            continue; // "name: .."
        }
        let toks: Vec<&str> = s.split(' ').collect();
        let n: usize = toks.first().and_then(|t| t.parse().ok()).ok_or("INFO: bad count")?;
        let mut rs = vec![];
        for t in toks.get(1..1 + n).ok_or("INFO: short line")? {
            let (a, b) = t.split_once('-').ok_or("INFO: bad range")?;
            rs.push((a.parse().map_err(|_| "INFO: bad start")?, b.parse().map_err(|_| "INFO: bad end")?));
        }
        let st = toks.last().copied().unwrap_or("");
        let name = STATE_NAMES.iter().find(|(d, _)| *d == st).map(|(_, v)| v.to_string()).ok_or(format!("INFO: unknown state {}", st))?;
        out.push((rs, name));
    }
    out.sort();
    Ok(out)
}

fn states_text(sts: &[(Ranges, String)]) -> String {
    if sts.is_empty() {
        return "-".to_string();
    }
    let mut items: Vec<String> = sts.iter().map(|(r, s)| format!("{}={}", rl_text(r), s)).collect();
    items.sort();
    items.join(";")
}

// ------------------------------------------------------------------------------------------
// canonical observables
// ------------------------------------------------------------------------------------------
fn latin1(b: &[u8]) -> String {
    b.iter().map(|x| *x as char).collect()
}

fn canon_nodes(text: &[u8]) -> String {
    let mut pieces: Vec<&[u8]> = text.split(|c| *c == b'\n').collect();
    if pieces.last().map(|p| p.is_empty()).unwrap_or(false) {
        pieces.pop();
    }
    let mut lines: Vec<Vec<u8>> = pieces
        .iter()
        .map(|l| {
            let toks: Vec<&[u8]> = l.split(|c| *c == b' ').collect();
            let mut head: Vec<Vec<u8>> = toks.iter().take(8).map(|t| t.to_vec()).collect();
            let mut tail: Vec<Vec<u8>> = toks.iter().skip(8).map(|t| t.to_vec()).collect();
            tail.sort();
            head.extend(tail);
            head.join(&b' ')
        })
        .collect();
    lines.sort();
    if lines.is_empty() {
        "-".to_string()
    } else {
        lines.iter().map(|l| latin1(l)).collect::<Vec<_>>().join("|")
    }
}

fn canon_slots(r: &RespVec) -> String {
    match r {
        Resp::Error(e) => format!("E:{}", latin1(e)),
        Resp::Arr(Array::Arr(xs)) => {
            let mut ls: Vec<Vec<u8>> = xs
                .iter()
                .map(|x| {
                    if let Resp::Arr(Array::Arr(v)) = x {
                        if let [Resp::Integer(s), Resp::Integer(e), Resp::Arr(Array::Arr(w))] = v.as_slice() {
                            if let [Resp::Bulk(BulkStr::Str(h)), Resp::Integer(p), Resp::Bulk(BulkStr::Str(id))] = w.as_slice() {
                                let mut o = s.clone();
                                o.push(b'-');
                                o.extend_from_slice(e);
                                o.push(b'@');
                                o.extend_from_slice(h);
                                o.push(b':');
                                o.extend_from_slice(p);
                                o.push(b'#');
                                o.extend_from_slice(id);
                                return o;
                            }
                        }
                    }
                    b"?".to_vec()
                })
                .collect();
            ls.sort();
            if ls.is_empty() {
                "-".to_string()
            } else {
                ls.iter().map(|l| latin1(l)).collect::<Vec<_>>().join("|")
            }
        }
        _ => "?".to_string(),
    }
}

/// oracle-side parse of NODES: (address without @cport, flags, ranges) per line
fn oracle_parse_nodes(text: &[u8]) -> Result<Vec<(String, String, Ranges)>, String> {
    let s = std::str::from_utf8(text).map_err(|_| "NODES: not utf-8")?;
    if !s.is_empty() && !s.ends_with('\n') {
        return Err("NODES: last line not terminated".to_string());
    }
    let mut out = vec![];
    for l in s.lines() {
        let f: Vec<&str> = l.split(' ').collect();
        if f.len() < 8 {
            return Err(format!("NODES: short line {:?}", l));
        }
        if f[0].len() != 40 {
            return Err(format!("NODES: node id is not 40 bytes: {:?}", f[0]));
        }
        let addr = f[1].split('@').next().unwrap_or("").to_string();
        let mut rs = vec![];
        for t in &f[8..] {
            let r = match t.split_once('-') {
                Some((a, b)) => (a.parse().map_err(|_| format!("NODES: bad token {}", t))?, b.parse().map_err(|_| format!("NODES: bad token {}", t))?),
                None => {
                    let x: usize = t.parse().map_err(|_| format!("NODES: bad token {}", t))?;
                    (x, x)
                }
            };
            rs.push(r);
        }
        out.push((addr, f[2].to_string(), rs));
    }
    Ok(out)
}

fn oracle_parse_slots(r: &RespVec) -> Result<Vec<(usize, usize, String)>, String> {
    let xs = match r {
        Resp::Arr(Array::Arr(xs)) => xs,
        Resp::Error(e) => return Err(format!("SLOTS: error reply {}", latin1(e))),
        _ => return Err("SLOTS: not an array".to_string()),
    };
    let mut out = vec![];
    for x in xs {
        let v = match x {
            Resp::Arr(Array::Arr(v)) if v.len() == 3 => v,
            _ => return Err("SLOTS: bad entry".to_string()),
        };
        let num = |r: &RespVec| -> Result<usize, String> {
            match r {
                Resp::Integer(b) => std::str::from_utf8(b).ok().and_then(|s| s.parse().ok()).ok_or("SLOTS: bad integer".to_string()),
                _ => Err("SLOTS: not an integer".to_string()),
            }
        };
        let (s, e) = (num(&v[0])?, num(&v[1])?);
        let w = match &v[2] {
            Resp::Arr(Array::Arr(w)) if w.len() == 3 => w,
            _ => return Err("SLOTS: bad node".to_string()),
        };
        let host = match &w[0] {
            Resp::Bulk(BulkStr::Str(h)) => latin1(h),
            _ => return Err("SLOTS: bad host".to_string()),
        };
        let port = match &w[1] {
            Resp::Integer(p) => latin1(p),
            _ => return Err("SLOTS: bad port".to_string()),
        };
        out.push((s, e, format!("{}:{}", host, port)));
    }
    Ok(out)
}

/// per slot: how many tokens list it and the address of the last one
fn owners_by_slot(rs: &[(String, Ranges)]) -> (Vec<u32>, Vec<usize>) {
    let mut cnt = vec![0u32; SLOT_NUM];
    let mut who = vec![usize::MAX; SLOT_NUM];
    for (i, (_, ranges)) in rs.iter().enumerate() {
        for (s, e) in ranges {
            if s > e {
                continue;
            }
            let hi = (*e).min(SLOT_NUM - 1);
            let mut x = *s;
            while x <= hi {
                cnt[x] += 1;
                who[x] = i;
                x += 1;
            }
        }
    }
    (cnt, who)
}

// ------------------------------------------------------------------------------------------
// the run
// ------------------------------------------------------------------------------------------
struct World {
    cfg: Cfg,
    proxy: NProxy,
    epoch: u64,
    im: Installed,
    es: Vec<Entry>,
    shape: Result<Shape, String>,
    /// observed phase map (range list → state variant name)
    states: Vec<(Ranges, String)>,
    /// accepted SETCLUSTERs on this proxy so far
    installs: u64,
    /// importing ranges whose task the last install dropped (their old source may still send switch commands)
    stale: Vec<SlotRange>,
    last_nodes: String,
    last_slots: String,
}

struct Run {
    s: Streams,
    w: World,
    case: u64,
    case_ops: Vec<String>,
    key_for_slot: Vec<Vec<u8>>,
    flags: BTreeMap<String, u64>,
}

fn empty_installed() -> Installed {
    Installed { name: String::new(), epoch: 0, local: vec![], peer: vec![] }
}

impl Run {
    fn flag(&mut self, k: &str) {
        *self.flags.entry(k.to_string()).or_insert(0) += 1;
        self.s.stats.count(k);
    }

    fn op(&mut self, op: &str, obs: &str) {
        self.case_ops.push(op.to_string());
        self.s.op(op, obs);
    }

    fn fail(&mut self, what: &str) {
        let replay = self.case_ops.clone();
        self.s.stats.oracle_failure(self.case, what, "", replay);
    }

    fn new_case(&mut self) {
        self.case = self.s.case();
        self.case_ops.clear();
        self.flags.clear();
    }

    async fn do_cfg(&mut self, cfg: Cfg) {
        // let the tasks of the previous proxy finish
        self.w.proxy.gates.all_open.store(true, std::sync::atomic::Ordering::SeqCst);
        self.w = World {
            cfg: cfg.clone(),
            proxy: NProxy::new(&cfg),
            epoch: 0,
            im: empty_installed(),
            es: vec![],
            shape: Err("nothing installed".to_string()),
            states: vec![],
            installs: 0,
            stale: vec![],
            last_nodes: String::new(),
            last_slots: String::new(),
        };
        let line = format!("cfg v={} ar={} me={}", if cfg.v2 { 2 } else { 1 }, if cfg.ar { 1 } else { 0 }, cfg.me);
        self.op(&line, "ok");
    }

    async fn do_install(&mut self, spec: &MetaSpec) -> bool {
        self.w.epoch = (self.w.epoch + 1).max(spec.min_epoch);
        let epoch = self.w.epoch;
        let (args, im) = match build_args(spec, epoch) {
            Ok(x) => x,
            Err(e) => {
                self.s.stats.count(&format!("harness.build_args_failed.{}", e));
                return false;
            }
        };
        // --- what `update_from_old_task_map` must do with the task map (harness' own reading) ---------
        // key of a task = (cluster name, SlotRange with its MigrationMeta); a tagged local range whose key was
        // there before keeps its task and phase, every other tagged local range gets a task in PreCheck
        let old_keys: Vec<(String, SlotRange)> = self
            .w
            .im
            .local
            .iter()
            .flat_map(|(_, srs)| srs.iter())
            .filter(|sr| kind_of(sr) != 'N')
            .map(|sr| (self.w.im.name.clone(), sr.clone()))
            .collect();
        let new_tagged: Vec<SlotRange> = im.local.iter().flat_map(|(_, srs)| srs.iter()).filter(|sr| kind_of(sr) != 'N').cloned().collect();
        let mut expect_tasks: Vec<(Ranges, String, bool)> = vec![]; // (ranges, state, kept migrating: may have advanced)
        let (mut n_kept, mut n_new) = (0, 0);
        for sr in &new_tagged {
            let kept = old_keys.iter().any(|(n, o)| *n == im.name && o == sr);
            if kept {
                n_kept += 1;
                let st = self.state_of(&ranges_of(sr)).unwrap_or_else(|| "?".to_string());
                expect_tasks.push((ranges_of(sr), st, kind_of(sr) == 'M'));
            } else {
                n_new += 1;
                expect_tasks.push((ranges_of(sr), "PreCheck".to_string(), false));
            }
        }
        let dropped: Vec<SlotRange> = old_keys.iter().filter(|(n, o)| !(*n == im.name && new_tagged.contains(o))).map(|(_, o)| o.clone()).collect();
        let n_dropped = dropped.len();
        // gates of tasks that do not survive are reset (a later task with an equal key starts closed)
        if let Ok(cn) = ClusterName::try_from(im.name.as_str()) {
            let keep: HashSet<String> = new_tagged
                .iter()
                .filter(|sr| old_keys.iter().any(|(n, o)| *n == im.name && o == *sr))
                .map(|sr| MigrationTaskMeta { cluster_name: cn.clone(), slot_range: sr.clone() }.into_strings().join(" "))
                .collect();
            self.w.proxy.gates.levels.lock().expect("gates").retain(|k, _| keep.contains(k));
        }
        let mut cmd = vec!["UMCTL".to_string(), "SETCLUSTER".to_string()];
        cmd.extend(args);
        let r = self.w.proxy.run_strs(&cmd).await;
        let obs = match &r {
            Ok(Resp::Simple(s)) => latin1(s),
            Ok(Resp::Error(e)) => format!("E:{}", latin1(e)).replace(' ', "_"),
            other => format!("?{:?}", other).replace(' ', "_"),
        };
        let line = format!(
            "install {} {} {} {}{}",
            if im.name.is_empty() { "-" } else { im.name.as_str() },
            im.epoch,
            nodes_text(&im.local),
            nodes_text(&im.peer),
            spec.max_migration_time.map(|t| format!(" mmt={}", t)).unwrap_or_default()
        );
        self.op(&line, &obs);
        if obs != "OK" {
            let m = format!("SETCLUSTER refused: {}", obs);
            self.fail(&m);
            return false;
        }
        self.w.es = entries(&self.w.cfg.me, &im);
        // an empty cluster name means "in no cluster" (every command is answered ERR_CLUSTER_NOT_FOUND): the
        // broker sends it only together with slot-less nodes; a hand-built meta with slots under the empty
        // name is outside the property's hypotheses (theorem hypothesis `vw.name ≠ ""`)
        self.w.shape = if im.name.is_empty() { Err("empty cluster name".to_string()) } else { partition_shape(&self.w.es) };
        self.w.im = im;
        self.w.stale = dropped.into_iter().filter(|sr| kind_of(sr) == 'I').collect();
        self.s.stats.count(if self.w.shape.is_ok() { "meta.partition" } else { "meta.not_partition" });
        // --- the task map right after the install ---------------------------------------------------
        let got = match self.read_states().await {
            Ok(g) => g,
            Err(e) => {
                self.fail(&e);
                vec![]
            }
        };
        let t = states_text(&got);
        self.op("tasks", &t);
        self.w.states = got.clone();
        if self.w.installs > 0 {
            self.flag("hist.reinstall");
            if n_kept > 0 {
                self.flag("hist.tasks_kept");
            }
            if n_new > 0 {
                self.flag("hist.tasks_added");
            }
            if n_kept > 0 && n_new > 0 {
                self.flag("hist.tasks_added_next_to_kept");
            }
            if n_dropped > 0 {
                self.flag("hist.tasks_dropped");
            }
        }
        self.w.installs += 1;
        const ORDER: [&str; 6] = ["PreCheck", "PreBlocking", "PreSwitch", "Scanning", "FinalSwitch", "SwitchCommitted"];
        let idx = |s: &str| ORDER.iter().position(|x| *x == s);
        let mut exp_sorted = expect_tasks.clone();
        exp_sorted.sort();
        let mut ok = exp_sorted.len() == got.len();
        if ok {
            for ((er, es, may_advance), (gr, gs)) in exp_sorted.iter().zip(got.iter()) {
                let same = er == gr && (es == gs || (*may_advance && idx(gs) >= idx(es) && idx(es).is_some()));
                if !same {
                    ok = false;
                }
            }
        }
        if !ok {
            let e: Vec<(Ranges, String)> = exp_sorted.iter().map(|(r, s, _)| (r.clone(), s.clone())).collect();
            let m = format!(
                "task map after SETCLUSTER: every tagged local range must have a task (kept ones in their phase, new ones in PreCheck): expected {} got {}",
                states_text(&e),
                t
            );
            self.fail(&m);
        }
        true
    }

    async fn read_states(&mut self) -> Result<Vec<(Ranges, String)>, String> {
        let r = self.w.proxy.run_strs(&["UMCTL".to_string(), "INFO".to_string()]).await?;
        parse_info_states(&r)
    }

    /// drive the local tasks towards `targets` (range list → state variant name) through the real
    /// handshake, read the reached phases back and emit the `states` line
    async fn do_phases(&mut self, targets: &BTreeMap<Ranges, String>) {
        let name = match ClusterName::try_from(self.w.im.name.as_str()) {
            Ok(n) => n,
            Err(_) => return,
        };
        // scan gate per source node: opened as soon as one migrating task of that node is to pass Scanning
        let mut scan_want: BTreeMap<String, bool> = BTreeMap::new();
        let local_es: Vec<Entry> = self.w.es.iter().filter(|e| e.local && e.kind != 'N').cloned().collect();
        for e in &local_es {
            let tgt = targets.get(&e.ranges).cloned().unwrap_or_else(|| "PreCheck".to_string());
            match (&e.sr.tag, e.kind) {
                (SlotRangeTag::Migrating(meta), 'M') => {
                    let key = MigrationTaskMeta { cluster_name: name.clone(), slot_range: e.sr.clone() }.into_strings().join(" ");
                    let (lvl, open) = match tgt.as_str() {
                        "PreCheck" => (0, false),
                        "PreSwitch" => (1, false),
                        "Scanning" => (2, false),
                        "FinalSwitch" => (2, true),
                        "SwitchCommitted" => (4, true),
                        _ => (0, false),
                    };
                    self.w.proxy.gates.levels.lock().expect("gates").insert(key, lvl);
                    let ent = scan_want.entry(meta.src_node_address.clone()).or_insert(false);
                    *ent = *ent || open;
                }
                (SlotRangeTag::Importing(meta), 'I') => {
                    let sub = match tgt.as_str() {
                        "PreCheck" => "PRECHECK",
                        "PreSwitch" => "PRESWITCH",
                        "SwitchCommitted" => "FINALSWITCH",
                        _ => continue,
                    };
                    // the source sends the range with the Migrating tag
                    let arg = SwitchArg {
                        version: UNDERMOON_MIGRATION_VERSION.to_string(),
                        meta: MigrationTaskMeta {
                            cluster_name: name.clone(),
                            slot_range: SlotRange { range_list: e.sr.to_range_list(), tag: SlotRangeTag::Migrating(meta.clone()) },
                        },
                    };
                    let mut cmd = vec!["UMCTL".to_string(), sub.to_string()];
                    cmd.extend(arg.into_strings());
                    let r = self.w.proxy.run_strs(&cmd).await;
                    match r {
                        Ok(Resp::Simple(_)) => self.s.stats.count(&format!("handshake.{}.ok", sub)),
                        other => {
                            let m = format!("UMCTL {} refused: {:?}", sub, other);
                            self.fail(&m);
                        }
                    }
                }
                _ => {}
            }
        }
        {
            let mut so = self.w.proxy.gates.scan_open.lock().expect("gates");
            for (n, open) in scan_want {
                if open {
                    so.insert(n);
                }
            }
        }
        // wait (virtual time) until the observed phases equal the targets
        let want: Vec<(Ranges, String)> = {
            let mut v: Vec<(Ranges, String)> = local_es
                .iter()
                .map(|e| (e.ranges.clone(), targets.get(&e.ranges).cloned().unwrap_or_else(|| "PreCheck".to_string())))
                .collect();
            v.sort();
            v
        };
        let mut got = vec![];
        for _ in 0..400 {
            got = match self.read_states().await {
                Ok(g) => g,
                Err(e) => {
                    self.fail(&e);
                    return;
                }
            };
            if got == want {
                break;
            }
            tokio::time::sleep(Duration::from_millis(5)).await;
        }
        if got != want {
            self.s.stats.count("harness.phase_not_reached");
            let m = format!("phases not reached: want {} got {}", states_text(&want), states_text(&got));
            self.fail(&m);
        }
        self.w.states = got.clone();
        for (_, s) in &got {
            self.s.stats.count(&format!("phase.{}", s));
        }
        let t = states_text(&got);
        self.op(&format!("states {}", t), &t);
    }

    /// one `UMCTL <sub> mgr-0.2 <cluster> MIGRATING <range list> <meta>` exactly as a source proxy sends it, for an
    /// arbitrary (possibly stale or altered) migration meta; then the task map and both replies again.
    /// Oracle: only a command whose meta is exactly the meta of an installed importing task is accepted; any other
    /// is refused and changes neither the task map nor what is advertised.
    async fn do_switch(&mut self, sub: &str, cluster: &str, ranges: &Ranges, meta: &MigrationMeta) {
        let cn = match ClusterName::try_from(cluster) {
            Ok(c) => c,
            Err(_) => return,
        };
        let sr = SlotRange { range_list: raw_range_list(ranges), tag: SlotRangeTag::Migrating(meta.clone()) };
        let exact = cluster == self.w.im.name
            && self.w.im.local.iter().flat_map(|(_, srs)| srs.iter()).any(|x| match &x.tag {
                SlotRangeTag::Importing(m) => m == meta && ranges_of(x) == *ranges,
                _ => false,
            });
        let before = (self.w.states.clone(), self.w.last_nodes.clone(), self.w.last_slots.clone());
        let arg = SwitchArg { version: UNDERMOON_MIGRATION_VERSION.to_string(), meta: MigrationTaskMeta { cluster_name: cn, slot_range: sr.clone() } };
        let mut cmd = vec!["UMCTL".to_string(), sub.to_string()];
        cmd.extend(arg.into_strings());
        let r = self.w.proxy.run_strs(&cmd).await;
        let obs = match &r {
            Ok(Resp::Simple(s)) => latin1(s),
            Ok(Resp::Error(e)) => format!("E:{}", latin1(e)).replace(' ', "_"),
            other => format!("?{:?}", other).replace(' ', "_"),
        };
        self.op(&format!("switch {} {} {}", sub, if cluster.is_empty() { "-" } else { cluster }, sr_text(&sr)), &obs);
        self.s.stats.count(&format!("switch.{}.{}", if exact { "exact" } else { "foreign" }, obs));
        let want = if meta.epoch > self.w.epoch { "E:NOT_READY_FOR_SWITCHING" } else if exact { "OK" } else { "E:TASK_NOT_FOUND" };
        if obs != want {
            let m = format!("UMCTL {} with meta {} answered {}, expected {}", sub, sr_text(&sr), obs, want);
            self.fail(&m);
        }
        let got = match self.read_states().await {
            Ok(g) => g,
            Err(e) => {
                self.fail(&e);
                vec![]
            }
        };
        self.op("tasks", &states_text(&got));
        self.w.states = got.clone();
        self.do_nodes_slots().await;
        if !(exact && obs == "OK") {
            if got != before.0 {
                let m = format!("a refused UMCTL {} ({}) changed the task map: {} -> {}", sub, sr_text(&sr), states_text(&before.0), states_text(&got));
                self.fail(&m);
            }
            if !before.1.is_empty() && (self.w.last_nodes != before.1 || self.w.last_slots != before.2) {
                let m = format!("a refused UMCTL {} ({}) changed the advertised topology", sub, sr_text(&sr));
                self.fail(&m);
            }
            self.flag("switch.refused_changes_nothing");
        }
    }

    /// let virtual time pass with every gate as it is: no switch step is acknowledged meanwhile, so no task may
    /// change its phase (`max_migration_time` / `max_blocking_time` expiring included) and the advert stays
    async fn do_tick(&mut self, ms: u64) {
        let before = (self.w.states.clone(), self.w.last_nodes.clone(), self.w.last_slots.clone());
        tokio::time::sleep(Duration::from_millis(ms)).await;
        self.op(&format!("tick {}", ms), "ok");
        let got = match self.read_states().await {
            Ok(g) => g,
            Err(e) => {
                self.fail(&e);
                vec![]
            }
        };
        self.op("tasks", &states_text(&got));
        self.w.states = got.clone();
        self.do_nodes_slots().await;
        if got != before.0 {
            let m = format!("task phases changed although no switch step was acknowledged ({} ms passed): {} -> {}", ms, states_text(&before.0), states_text(&got));
            self.fail(&m);
        }
        if !before.1.is_empty() && (self.w.last_nodes != before.1 || self.w.last_slots != before.2) {
            self.fail("the advertised topology changed although no switch step was acknowledged");
        }
        self.flag("tick.nothing_changed");
    }

    fn state_of(&self, rs: &Ranges) -> Option<String> {
        // get_states is keyed by range list only; duplicates are never generated with differing states
        self.w.states.iter().rev().find(|(r, _)| r == rs).map(|(_, s)| s.clone())
    }

    /// expected advertised address per slot from the harness' own reading of the meta and the observed phases
    fn expected(&self, sh: &Shape, slot: usize) -> (String, &'static str) {
        let o = &self.w.es[sh.owner[slot]];
        if o.kind == 'N' {
            return (o.adv.clone(), if o.local { "stable.local" } else { "stable.peer" });
        }
        let d = &self.w.es[sh.importer[slot]];
        let st = self.state_of(&o.ranges);
        let role = if o.local { "source" } else if d.local { "destination" } else { "bystander" };
        match (role, st.as_deref()) {
            ("source", Some("PreCheck")) => (o.adv.clone(), "mig.source.precheck"),
            ("source", Some(_)) => (d.adv.clone(), "mig.source.later"),
            ("destination", Some("PreCheck")) => (o.adv.clone(), "mig.destination.precheck"),
            ("destination", Some(_)) => (d.adv.clone(), "mig.destination.later"),
            ("bystander", None) => (d.adv.clone(), "mig.bystander"),
            (_, _) => (String::new(), "mig.inconsistent_task_state"),
        }
    }

    async fn do_nodes_slots(&mut self) {
        let (r1, _) = self.w.proxy.run(&[b"CLUSTER".to_vec(), b"NODES".to_vec()]).await;
        let text: Vec<u8> = match &r1 {
            Ok(Resp::Bulk(BulkStr::Str(s))) => s.clone(),
            other => {
                let m = format!("CLUSTER NODES: unexpected reply {:?}", other);
                self.fail(&m);
                vec![]
            }
        };
        self.w.last_nodes = canon_nodes(&text);
        self.op("nodes", &canon_nodes(&text));
        let (r2, _) = self.w.proxy.run(&[b"cluster".to_vec(), b"slots".to_vec()]).await;
        let slots = match r2 {
            Ok(r) => r,
            Err(e) => {
                self.fail(&format!("CLUSTER SLOTS: {}", e));
                Resp::Arr(Array::Nil)
            }
        };
        self.w.last_slots = canon_slots(&slots);
        self.op("slots", &canon_slots(&slots));
        self.s.stats.count(if self.w.cfg.v2 { "out.nodes.v2" } else { "out.nodes.v1" });
        if matches!(slots, Resp::Error(_)) {
            self.flag("out.slots.error");
        }

        // ---- oracle ------------------------------------------------------------------------
        let sh = match &self.w.shape {
            Ok(sh) => Shape { owner: sh.owner.clone(), importer: sh.importer.clone() },
            Err(_) => return,
        };
        let addrs_ok = std::iter::once(&self.w.cfg.me).chain(self.w.im.peer.iter().map(|p| &p.0)).all(|a| a.matches(':').count() == 1 && !a.contains(' ') && !a.contains('@'));
        if !addrs_ok {
            self.s.stats.count("oracle.skipped_odd_address");
            return;
        }
        let ns = match oracle_parse_nodes(&text) {
            Ok(n) => n,
            Err(e) => {
                self.fail(&e);
                return;
            }
        };
        let myself: Vec<&(String, String, Ranges)> = ns.iter().filter(|n| n.1.split(',').any(|f| f == "myself")).collect();
        if myself.len() != 1 || myself[0].0 != self.w.cfg.me {
            self.fail("NODES: not exactly one `myself` line at the announce address");
        }
        let ss = match oracle_parse_slots(&slots) {
            Ok(s) => s,
            Err(e) => {
                self.fail(&e);
                return;
            }
        };
        let nr: Vec<(String, Ranges)> = ns.iter().map(|n| (n.0.clone(), n.2.clone())).collect();
        let sr: Vec<(String, Ranges)> = ss.iter().map(|e| (e.2.clone(), vec![(e.0, e.1)])).collect();
        let (ncnt, nwho) = owners_by_slot(&nr);
        let (scnt, swho) = owners_by_slot(&sr);
        let mut bad: Option<String> = None;
        let mut classes: BTreeSet<&'static str> = BTreeSet::new();
        for s in 0..SLOT_NUM {
            if ncnt[s] != 1 {
                bad = Some(format!("slot {} is listed {} times in CLUSTER NODES", s, ncnt[s]));
                break;
            }
            if scnt[s] != 1 {
                bad = Some(format!("slot {} is listed {} times in CLUSTER SLOTS", s, scnt[s]));
                break;
            }
            let (na, sa) = (&nr[nwho[s]].0, &sr[swho[s]].0);
            if na != sa {
                bad = Some(format!("slot {}: NODES says {} but SLOTS says {}", s, na, sa));
                break;
            }
            let (exp, class) = self.expected(&sh, s);
            classes.insert(class);
            if *na != exp {
                bad = Some(format!("slot {} ({}): advertised at {} but expected at {:?}", s, class, na, exp));
                break;
            }
        }
        for c in classes {
            self.flag(&format!("adv.{}", c));
        }
        self.s.stats.count("oracle.advertise_checked");
        if let Some(b) = bad {
            self.fail(&b);
        }
    }

    fn listers(&self, slot: usize, local: bool) -> Vec<&Entry> {
        self.w.es.iter().filter(|e| e.local == local && e.ranges.iter().any(|(s, t)| *s <= slot && slot <= *t)).collect()
    }

    /// canonical routing outcome of `GET <key of slot>`
    async fn observe_route(&mut self, slot: usize) -> String {
        let key = self.key_for_slot[slot].clone();
        let (reply, ds) = self.w.proxy.run(&[b"GET".to_vec(), key]).await;
        let local_nodes: Vec<String> = self.w.im.local.iter().map(|n| n.0.clone()).collect();
        if let Some((addr, args)) = ds.first() {
            let a0: Option<Vec<u8>> = args.first().and_then(|a: &Arg| a.as_ref()).map(|b| upper(b));
            // a command handed to a peer proxy (active redirection), wrapped in UMFORWARD or not: the
            // redirection budget is not an observable of this property (C09 / C02), only the target is
            if a0.as_deref() == Some(b"UMFORWARD") || !local_nodes.contains(addr) {
                return format!("forward {} {}", slot, addr);
            }
            return format!("exec {}", addr);
        }
        match reply {
            Ok(Resp::Error(e)) => {
                let t = latin1(&e);
                if let Some(rest) = t.strip_prefix(&format!("{} ", ERR_MOVED)) {
                    return format!("moved {}", rest);
                }
                if let Some(rest) = t.strip_prefix("slot not covered ") {
                    return format!("notcovered {}", rest);
                }
                if t == ERR_CLUSTER_NOT_FOUND {
                    return "clusternotfound".to_string();
                }
                if t == ERR_TOO_MANY_REDIRECTIONS {
                    return "toomany".to_string();
                }
                format!("other:{}", t.replace(' ', "_"))
            }
            other => format!("other:{:?}", other).replace(' ', "_"),
        }
    }

    /// where a routing outcome sends the client: Some(announce) for local execution
    fn target_of(&self, outcome: &str) -> Option<String> {
        let t: Vec<&str> = outcome.split(' ').collect();
        match t.as_slice() {
            ["exec", _] => Some(self.w.cfg.me.clone()),
            ["moved", _, a] => Some(a.to_string()),
            ["forward", _, a] => Some(a.to_string()),
            _ => None,
        }
    }

    async fn do_probes(&mut self, slots: &[usize]) {
        // a source node whose task is in PreBlocking / PreSwitch queues every client command (by design:
        // `BlockingHint::Blocking`) until the switch or `max_blocking_time`; probing it would stall the
        // handshake the harness is steering
        let blocked_nodes: Vec<String> = self
            .w
            .es
            .iter()
            .filter(|e| e.local && e.kind == 'M' && matches!(self.state_of(&e.ranges).as_deref(), Some("PreBlocking") | Some("PreSwitch")))
            .map(|e| e.node.clone())
            .collect();
        for &slot in slots {
            if slot >= SLOT_NUM {
                continue;
            }
            if self.listers(slot, true).iter().any(|e| blocked_nodes.contains(&e.node)) {
                self.s.stats.count("probe.skipped_blocking_node");
                continue;
            }
            let loc = self.listers(slot, true);
            let peer = self.listers(slot, false);
            let in_task = loc.iter().any(|e| e.kind != 'N');
            let unique = loc.len() <= 1 && peer.len() <= 1;
            let task_kind = loc.iter().find(|e| e.kind != 'N').map(|e| (e.kind, e.ranges.clone(), e.sr.clone()));
            let peer_advs: Vec<String> = peer.iter().map(|e| e.adv.clone()).collect();
            let exp = match &self.w.shape {
                Ok(sh) => Some(self.expected(sh, slot)),
                Err(_) => None,
            };
            if in_task {
                // routed by the migration task: not predicted by the routing model; checked against the
                // advertisement where the phase pins the serving side down
                let (kind, ranges, sr) = task_kind.expect("task");
                let st = self.state_of(&ranges).unwrap_or_default();
                let skip = match (kind, st.as_str()) {
                    ('M', "PreCheck") | ('M', "Scanning") | ('M', "FinalSwitch") | ('M', "SwitchCommitted") => false,
                    ('I', "PreCheck") => false,
                    _ => true, // source blocking window / destination import machinery
                };
                if skip || self.w.cfg.ar {
                    self.s.stats.count("probe.task.skipped");
                    continue;
                }
                let out = self.observe_route(slot).await;
                self.s.stats.count(&format!("probe.task.{}.{}", kind, st));
                let meta = sr.tag.get_migration_meta().cloned();
                let want = match (kind, st.as_str(), meta) {
                    ('M', "PreCheck", _) => Some(self.w.cfg.me.clone()),
                    ('M', _, Some(m)) => Some(m.dst_proxy_address),
                    ('I', _, Some(m)) => Some(m.src_proxy_address),
                    _ => None,
                };
                let got = self.target_of(&out);
                if got != want {
                    let m = format!("slot {} in local task ({} {}): routed {:?}, expected {:?}", slot, kind, st, out, want);
                    self.fail(&m);
                }
                if let Some((e, class)) = &exp {
                    if got.as_deref() != Some(e.as_str()) {
                        let m = format!("slot {} ({}): advertised at {} but routed {:?}", slot, class, e, out);
                        self.fail(&m);
                    } else {
                        self.flag("route.task_agrees_with_advertisement");
                    }
                }
                continue;
            }
            let out = self.observe_route(slot).await;
            if unique {
                self.op(&format!("probe {}", slot), &out);
                self.s.stats.count(&format!("probe.{}", out.split(' ').next().unwrap_or("?")));
                if let Some((e, class)) = &exp {
                    let got = self.target_of(&out);
                    let toomany = out == "toomany";
                    if !toomany && got.as_deref() != Some(e.as_str()) {
                        let m = format!("slot {} ({}): advertised at {} but routed {:?}", slot, class, e, out);
                        self.fail(&m);
                    } else {
                        self.flag("route.agrees_with_advertisement");
                    }
                }
            } else {
                // several listers (a bystander sees the migrating and the importing peer): the HashMap order
                // decides; the target must be one of them
                let got = self.target_of(&out);
                let ok = match &got {
                    Some(a) => *a == self.w.cfg.me || peer_advs.contains(a),
                    None => false,
                };
                if !ok {
                    let m = format!("slot {}: routed {:?}, not to a lister {:?}", slot, out, peer_advs);
                    self.fail(&m);
                }
                if let (Some((e, class)), Some(a)) = (&exp, &got) {
                    if class.starts_with("mig.bystander") {
                        self.s.stats.count(if a == e { "obs.bystander_redirects_to_destination" } else { "obs.bystander_redirects_to_source" });
                    }
                }
                self.s.stats.count("probe.ambiguous");
            }
        }
    }
}

// ------------------------------------------------------------------------------------------
// generators
// ------------------------------------------------------------------------------------------
struct Gen {
    rng: Rng,
}

fn mk_meta(epoch: u64, sp: &str, sn: &str, dp: &str, dn: &str) -> MigrationMeta {
    MigrationMeta {
        epoch,
        src_proxy_address: sp.to_string(),
        src_node_address: sn.to_string(),
        dst_proxy_address: dp.to_string(),
        dst_node_address: dn.to_string(),
    }
}

#[derive(Clone)]
struct Owner {
    proxy: usize,
    node: usize,
}

#[derive(Clone)]
struct Group {
    ranges: Ranges,
    owner: Owner,
    /// `Some`: the group migrates to this owner
    dest: Option<Owner>,
    /// an uncompacted stable range list is written in descending order
    rev: bool,
    /// `(k, o2)`: from install `k` on the migration is re-issued — same ranges and destination, new source `o2`
    /// (a failover of the source) and a newer migration epoch; the destination's task is replaced
    reissue: Option<(usize, Owner)>,
}

#[derive(Clone, Copy, PartialEq)]
enum Stage {
    /// the migration is not exposed yet: the range is stable at its source
    Hidden,
    Exposed,
    /// the migration is committed: the range is stable at its destination
    Committed,
}

struct Plan {
    me: String,
    name: String,
    groups: Vec<Group>,
    raw: bool,
    compressed: bool,
}

impl Plan {
    fn proxy_addr(&self, i: usize) -> String {
        if i == 0 {
            self.me.clone()
        } else {
            format!("10.0.{}.{}:{}", i / 200, i % 200 + 1, 5299 + (i % 3))
        }
    }
    fn node_addr(&self, p: usize, n: usize) -> String {
        if p == 0 {
            format!("{}:{}", host_of(&self.me), 7000 + n)
        } else {
            format!("10.0.{}.{}:{}", p / 200, p % 200 + 1, 7000 + n)
        }
    }
    /// `tagged`: a migrating / importing range list is always generated compacted. Uncompacted lists can
    /// only arrive through the compressed (serde) form, which the broker never produces; for a *tagged*
    /// range they break the real system before CLUSTER NODES is reached (observations in notes/C14.md):
    /// a descending list panics in RangeMap::from ("capacity overflow") when the task is created, and any
    /// list that `RangeList::parse` would change never finds its task in the textual UMCTL handshake
    /// (TASK_NOT_FOUND), so no phase can be driven.
    fn mk_rl(&self, g: &Group, tagged: bool) -> RangeList {
        if self.raw && !tagged {
            let mut v = g.ranges.clone();
            // uncompacted: adjacent ranges not merged, possibly descending; reversed bounds are *not*
            // used (they would not cover the slots)
            if g.rev {
                v.reverse();
            }
            raw_range_list(&v)
        } else {
            compact_range_list(&g.ranges)
        }
    }
    fn render(&self, stages: &[Stage], k: usize) -> MetaSpec {
        let mut local: HashMap<String, Vec<SlotRange>> = HashMap::new();
        let mut peer: HashMap<String, Vec<SlotRange>> = HashMap::new();
        let mut put = |o: &Owner, sr: SlotRange| {
            if o.proxy == 0 {
                local.entry(self.node_addr(0, o.node)).or_default().push(sr);
            } else {
                peer.entry(self.proxy_addr(o.proxy)).or_default().push(sr);
            }
        };
        for (g, st) in self.groups.iter().zip(stages.iter()) {
            let (owner, mepoch) = match &g.reissue {
                Some((at, o2)) if k >= *at => (o2, *at as u64 + 1),
                _ => (&g.owner, 1),
            };
            match (&g.dest, st) {
                (None, _) | (Some(_), Stage::Hidden) => put(owner, SlotRange { range_list: self.mk_rl(g, false), tag: SlotRangeTag::None }),
                (Some(d), Stage::Committed) => put(d, SlotRange { range_list: self.mk_rl(g, false), tag: SlotRangeTag::None }),
                (Some(d), Stage::Exposed) => {
                    let o = owner;
                    let meta = mk_meta(mepoch, &self.proxy_addr(o.proxy), &self.node_addr(o.proxy, o.node), &self.proxy_addr(d.proxy), &self.node_addr(d.proxy, d.node));
                    let rl = self.mk_rl(g, true);
                    put(o, SlotRange { range_list: rl.clone(), tag: SlotRangeTag::Migrating(meta.clone()) });
                    put(d, SlotRange { range_list: rl, tag: SlotRangeTag::Importing(meta) });
                }
            }
        }
        MetaSpec { name: self.name.clone(), local, peer, compressed: self.compressed, min_epoch: 0, max_migration_time: None }
    }
}

impl Gen {
    /// cut 0..16383 into `n` non-empty consecutive segments
    fn cuts(&mut self, n: usize, stats: &mut Stats) -> Vec<(usize, usize)> {
        let mut b: BTreeSet<usize> = BTreeSet::new();
        let style = self.rng.below(4);
        while b.len() + 1 < n {
            let x = match style {
                0 => {
                    stats.count("gen.cuts.adjacent");
                    let base = self.rng.below(SLOT_NUM as u64 - 40) as usize + 1;
                    base + self.rng.below(6) as usize
                }
                _ => self.rng.below(SLOT_NUM as u64 - 1) as usize + 1,
            };
            if x > 0 && x < SLOT_NUM {
                b.insert(x);
            }
        }
        let mut segs = vec![];
        let mut start = 0;
        for x in b {
            segs.push((start, x - 1));
            start = x;
        }
        segs.push((start, SLOT_NUM - 1));
        segs
    }

    /// a hand-built layout with the partition property, seen from proxy 0: slot groups with an owner and,
    /// for some, a migration to another proxy. `hist`: the first two groups are migrations in which the same
    /// local node takes part in the forced role (so that one install can add a task next to a kept one).
    fn partition_plan(&mut self, stats: &mut Stats, me: &str, force_role: u64, hist: bool) -> Plan {
        let rng = &mut self.rng;
        let n_proxies = 1 + rng.below(5) as usize + if force_role == 2 { 2 } else { 0 } + if hist { 1 } else { 0 };
        let nodes_per: Vec<usize> = (0..n_proxies).map(|_| 1 + rng.below(2) as usize).collect();
        let owners: Vec<Owner> = (0..n_proxies).flat_map(|p| (0..nodes_per[p]).map(move |n| Owner { proxy: p, node: n })).collect();
        let n_segs = 1 + rng.below(14) as usize + if hist { 3 } else { 0 };
        let segs = {
            let mut g = Gen { rng: rng.fork() };
            g.cuts(n_segs, stats)
        };
        // group segments into range lists: each group has one owner
        let n_groups = (1 + rng.below(segs.len() as u64) as usize).max(if hist { 3 } else { 1 }).min(segs.len());
        let mut granges: Vec<Ranges> = vec![vec![]; n_groups];
        for (i, s) in segs.iter().enumerate() {
            let g = if i < n_groups { i } else { rng.below(n_groups as u64) as usize };
            granges[g].push(*s);
        }
        let raw = rng.chance(1, 6);
        if raw {
            stats.count("gen.meta.raw_range_lists");
        }
        let mut groups = vec![];
        let mut roles: BTreeSet<&'static str> = BTreeSet::new();
        for (gi, g) in granges.iter().enumerate() {
            let forced = gi == 0 || (hist && gi == 1);
            let mut o = rng.pick(&owners).clone();
            let rev = rng.chance(1, 2);
            let migrating = owners.len() > 1 && (rng.chance(2, 5) || (forced && force_role < 3));
            if !migrating {
                groups.push(Group { ranges: g.clone(), owner: o, dest: None, rev, reissue: None });
                continue;
            }
            let mut d = rng.pick(&owners).clone();
            if forced {
                // make sure the wanted role occurs (in a history: twice on the same local node)
                let me0 = Owner { proxy: 0, node: 0 };
                match force_role {
                    0 => o = me0,
                    1 => d = me0,
                    2 => {
                        o = owners.iter().find(|x| x.proxy == 1).cloned().unwrap_or(o);
                        d = owners.iter().find(|x| x.proxy == 2).cloned().unwrap_or(d);
                    }
                    _ => {}
                }
            }
            let mut guard = 0;
            while d.proxy == o.proxy && guard < 20 {
                let c = rng.pick(&owners).clone();
                if forced && force_role == 1 {
                    o = c;
                } else {
                    d = c;
                }
                guard += 1;
            }
            if d.proxy == o.proxy {
                groups.push(Group { ranges: g.clone(), owner: o, dest: None, rev, reissue: None });
                continue;
            }
            roles.insert(if o.proxy == 0 { "source" } else if d.proxy == 0 { "destination" } else { "bystander" });
            groups.push(Group { ranges: g.clone(), owner: o, dest: Some(d), rev, reissue: None });
        }
        for r in roles {
            stats.count(&format!("gen.role.{}", r));
        }
        let name = match rng.below(8) {
            0 => "c".to_string(),
            1 => "a-cluster_name@with-31-chars-xx".to_string(),
            2 => "exactly24characters-name".to_string(),
            3 => "twentyfive-characters-nam".to_string(),
            _ => format!("cluster{}", rng.below(100)),
        };
        let compressed = raw || rng.chance(1, 3);
        stats.count(if compressed { "gen.meta.compressed" } else { "gen.meta.textual" });
        stats.count(&format!("gen.meta.proxies.{}", n_proxies.min(6)));
        Plan { me: me.to_string(), name, groups, raw, compressed }
    }

    fn partition_meta(&mut self, stats: &mut Stats, me: &str, force_role: u64) -> MetaSpec {
        let plan = self.partition_plan(stats, me, force_role, false);
        let stages = vec![Stage::Exposed; plan.groups.len()];
        plan.render(&stages, 0)
    }

    /// 2-4 successive metas of one layout: every migration is hidden (still stable at its source), then
    /// exposed, then committed (stable at its destination) — what the broker's migration limit and the
    /// commits of finished migrations make a proxy see. The first two migrations share a local node: one of
    /// them runs through the whole history, the other is exposed by a later install.
    fn partition_history(&mut self, stats: &mut Stats, me: &str, force_role: u64) -> Vec<MetaSpec> {
        let mut plan = self.partition_plan(stats, me, force_role, true);
        let rng = &mut self.rng;
        let n = 2 + rng.below(3) as usize;
        let mut swap = rng.chance(1, 2);
        // "same range re-issued": the first migration (this proxy is its destination) gets a new source and a newer
        // migration epoch in a later install, before it was committed
        if let Some(g0) = plan.groups.first() {
            if g0.dest.as_ref().map(|d| d.proxy == 0).unwrap_or(false) && rng.chance(1, 2) {
                let src = g0.owner.proxy;
                let others: Vec<usize> = plan.groups.iter().flat_map(|g| std::iter::once(g.owner.proxy).chain(g.dest.iter().map(|d| d.proxy))).filter(|p| *p != 0 && *p != src).collect();
                if let Some(o2) = others.first() {
                    let at = 1 + rng.below(n as u64 - 1) as usize;
                    plan.groups[0].reissue = Some((at, Owner { proxy: *o2, node: 0 }));
                    swap = false; // exposed from the first install on
                    stats.count("gen.hist.reissued_migration");
                }
            }
        }
        let mut windows: Vec<(usize, usize)> = vec![];
        for gi in 0..plan.groups.len() {
            let w = if gi <= 1 {
                // (kept through the history) / (added by a later install), in either order of the node's list
                if (gi == 0) != swap {
                    (0, n + 1)
                } else {
                    let st = 1 + rng.below(n as u64 - 1) as usize;
                    (st, st + 1 + rng.below((n - st + 1) as u64) as usize)
                }
            } else {
                let st = rng.below(n as u64) as usize;
                (st, st + 1 + rng.below((n - st + 1) as u64) as usize)
            };
            windows.push(w);
        }
        stats.count(&format!("gen.hist.len.{}", n));
        (0..n)
            .map(|k| {
                let stages: Vec<Stage> = windows.iter().map(|(st, en)| if k < *st { Stage::Hidden } else if k < *en { Stage::Exposed } else { Stage::Committed }).collect();
                plan.render(&stages, k)
            })
            .collect()
    }

    /// perturb a partition meta so that the partition property (usually) no longer holds
    fn odd_meta(&mut self, stats: &mut Stats, me: &str) -> MetaSpec {
        let mut m = self.partition_meta(stats, me, 3);
        let rng = &mut self.rng;
        let k = rng.below(9);
        let class = match k {
            0 => {
                // drop a slot range somewhere (gap, or a migrating range without its twin)
                let which_local = rng.chance(1, 2);
                let map = if which_local { &mut m.local } else { &mut m.peer };
                let keys: Vec<String> = map.keys().cloned().collect();
                if let Some(kk) = keys.first() {
                    if let Some(v) = map.get_mut(kk) {
                        v.pop();
                    }
                }
                "drop_range"
            }
            1 => {
                // a peer claims a range somebody else owns (overlap)
                let s = rng.below(SLOT_NUM as u64 - 100) as usize;
                m.peer.entry("10.9.9.9:5299".to_string()).or_default().push(SlotRange {
                    range_list: compact_range_list(&vec![(s, s + rng.below(100) as usize)]),
                    tag: SlotRangeTag::None,
                });
                "overlap"
            }
            2 => {
                // importing without migrating
                let s = rng.below(SLOT_NUM as u64 - 100) as usize;
                let meta = mk_meta(1, "10.9.9.8:5299", "10.9.9.8:7000", "10.9.9.9:5299", "10.9.9.9:7000");
                m.peer.entry("10.9.9.9:5299".to_string()).or_default().push(SlotRange {
                    range_list: compact_range_list(&vec![(s, s + 50)]),
                    tag: SlotRangeTag::Importing(meta),
                });
                "orphan_importing"
            }
            3 => {
                m.peer.entry("nocolonpeer".to_string()).or_default().push(SlotRange {
                    range_list: compact_range_list(&vec![(16000, 16001)]),
                    tag: SlotRangeTag::None,
                });
                "peer_without_colon"
            }
            4 => {
                m.peer.entry("a:b:c".to_string()).or_default().push(SlotRange {
                    range_list: compact_range_list(&vec![(16000, 16001)]),
                    tag: SlotRangeTag::None,
                });
                "peer_with_two_colons"
            }
            5 => {
                // ranges beyond the slot space / reversed / single slots, uncompacted
                m.compressed = true;
                m.peer.entry("10.9.9.9:5299".to_string()).or_default().push(SlotRange {
                    range_list: raw_range_list(&vec![(16380, 20000), (9, 3), (5, 5), (5, 6)]),
                    tag: SlotRangeTag::None,
                });
                "odd_ranges"
            }
            6 => {
                // nodes without slot ranges (only the compressed form can carry them)
                m.compressed = true;
                m.peer.insert("10.9.9.7:5299".to_string(), vec![]);
                let h = host_of(me);
                m.local.insert(format!("{}:7009", h), vec![]);
                "nodes_without_slots"
            }
            7 => {
                // the same range list tagged twice among the peers with different tags and owners is the valid
                // shape; here: the same range list migrating at two peers
                let meta = mk_meta(1, "10.9.9.8:5299", "10.9.9.8:7000", "10.9.9.9:5299", "10.9.9.9:7000");
                for a in ["10.9.9.8:5299", "10.9.9.6:5299"] {
                    m.peer.entry(a.to_string()).or_default().push(SlotRange {
                        range_list: compact_range_list(&vec![(100, 200)]),
                        tag: SlotRangeTag::Migrating(meta.clone()),
                    });
                }
                "duplicate_migrating"
            }
            _ => {
                // empty range list
                m.compressed = true;
                m.peer.entry("10.9.9.9:5299".to_string()).or_default().push(SlotRange {
                    range_list: raw_range_list(&vec![]),
                    tag: SlotRangeTag::None,
                });
                "empty_range_list"
            }
        };
        stats.count(&format!("gen.odd.{}", class));
        m
    }

    /// a view served by the real broker for one proxy of a cluster that is (usually) mid-migration;
    /// returns (announce address, meta, epoch of the view)
    /// returns the announce address and 1-4 successive views of that proxy (what a long-lived proxy is sent)
    fn broker_meta(&mut self, stats: &mut Stats) -> Option<(String, Vec<MetaSpec>)> {
        let rng = &mut self.rng;
        let mut st = MetaStore::new(false);
        let n_proxies = 6 + 2 * rng.below(4) as usize;
        for j in 0..n_proxies {
            let r = st.add_proxy(
                format!("127.0.0.1:{}", 6000 + j),
                [format!("127.0.0.1:{}", 7000 + 2 * j), format!("127.0.0.1:{}", 7001 + 2 * j)],
                Some(format!("h{}", j % 3)),
                None,
            );
            if r.is_err() {
                stats.count("gen.broker.add_proxy_failed");
                return None;
            }
        }
        let name = "bk".to_string();
        let start = 4 * (1 + rng.below(2) as usize);
        if st.add_cluster(name.clone(), start, ClusterConfig::default()).is_err() {
            stats.count("gen.broker.add_cluster_failed");
            return None;
        }
        let mut hist = vec![format!("create{}", start)];
        let steps = 1 + rng.below(3);
        for _ in 0..steps {
            match rng.below(6) {
                0 | 1 | 2 => {
                    let k = 4 * (1 + rng.below(2) as usize);
                    if st.auto_add_nodes(name.clone(), k).is_ok() && st.migrate_slots(name.clone()).is_ok() {
                        hist.push(format!("scaleout{}", k));
                    }
                }
                3 => {
                    // commit some of the running migrations
                    if let Some(c) = st.get_cluster_by_name(&name, 100) {
                        let mut tasks = vec![];
                        for n in c.get_nodes() {
                            for sr in n.get_slots() {
                                if matches!(sr.tag, SlotRangeTag::Migrating(_)) {
                                    tasks.push(MigrationTaskMeta { cluster_name: c.get_name().clone(), slot_range: sr.clone() });
                                }
                            }
                        }
                        let mut done = 0;
                        for t in tasks {
                            if rng.chance(1, 2) && st.commit_migration(t, false).is_ok() {
                                done += 1;
                            }
                        }
                        if done > 0 {
                            hist.push("commit".to_string());
                        }
                    }
                }
                4 => {
                    if let Some(c) = st.get_cluster_by_name(&name, 100) {
                        let n = c.get_nodes().len();
                        if n >= 8 && st.migrate_slots_to_scale_down(name.clone(), n - 4).is_ok() {
                            hist.push("scaledown".to_string());
                        }
                    }
                }
                _ => {
                    if let Some(c) = st.get_cluster_by_name(&name, 100) {
                        let addrs: BTreeSet<String> = c.get_nodes().iter().map(|n| n.get_proxy_address().to_string()).collect();
                        let addrs: Vec<String> = addrs.into_iter().collect();
                        let a = rng.pick(&addrs).clone();
                        if st.replace_failed_proxy(a, 100).is_ok() {
                            hist.push("failover".to_string());
                        }
                    }
                }
            }
        }
        let c = st.get_cluster_by_name(&name, 100)?;
        let addrs: BTreeSet<String> = c.get_nodes().iter().map(|n| n.get_proxy_address().to_string()).collect();
        let addrs: Vec<String> = addrs.into_iter().collect();
        let me = rng.pick(&addrs).clone();
        let limit = *rng.pick(&[1u64, 1, 2, 100]);
        let compressed = rng.chance(1, 2);
        // what the coordinator sends (filter_proxy_masters + generate_proxy_meta_cmd_args)
        let view = |st: &MetaStore| -> Option<MetaSpec> {
            let p: Proxy = st.get_proxy_by_address(&me, limit)?;
            if p.get_cluster_name().map(|n| n.to_string()) != Some(name.clone()) {
                return None; // removed from the cluster by a scale-down
            }
            let p_epoch = p.get_epoch();
            let mut peer: HashMap<String, Vec<SlotRange>> = HashMap::new();
            for pp in p.get_peers().iter() {
                peer.insert(pp.proxy_address.clone(), pp.slots.clone());
            }
            let mut local: HashMap<String, Vec<SlotRange>> = HashMap::new();
            for n in p.get_nodes().iter().filter(|n| n.get_role() == Role::Master) {
                local.insert(n.get_address().to_string(), n.get_slots().to_vec());
            }
            Some(MetaSpec { name: name.clone(), local, peer, compressed, min_epoch: p_epoch, max_migration_time: None })
        };
        let migrating = c.get_nodes().iter().any(|n| n.get_slots().iter().any(|s| !matches!(s.tag, SlotRangeTag::None)));
        stats.count(if migrating { "gen.broker.view_migrating" } else { "gen.broker.view_stable" });
        let mut metas = vec![view(&st)?];
        // the rest of the history: commit some of the migrations this limit exposes (the next ones get exposed
        // with a later epoch while the uncommitted ones keep running), fail a proxy over, start the next scaling
        let more = if migrating { rng.below(4) } else { rng.below(2) };
        for _ in 0..more {
            let mut did = None;
            match rng.below(5) {
                0 | 1 | 2 => {
                    if let Some(c) = st.get_cluster_by_name(&name, limit) {
                        let mut tasks = vec![];
                        for n in c.get_nodes() {
                            for sr in n.get_slots() {
                                if matches!(sr.tag, SlotRangeTag::Migrating(_)) {
                                    tasks.push(MigrationTaskMeta { cluster_name: c.get_name().clone(), slot_range: sr.clone() });
                                }
                            }
                        }
                        let mut done = 0;
                        for t in tasks {
                            if rng.chance(1, 2) && st.commit_migration(t, false).is_ok() {
                                done += 1;
                            }
                        }
                        if done > 0 {
                            did = Some("commit");
                        }
                    }
                }
                3 => {
                    if let Some(c) = st.get_cluster_by_name(&name, 100) {
                        let addrs: BTreeSet<String> = c.get_nodes().iter().map(|n| n.get_proxy_address().to_string()).filter(|a| *a != me).collect();
                        let addrs: Vec<String> = addrs.into_iter().collect();
                        if !addrs.is_empty() {
                            let a = rng.pick(&addrs).clone();
                            if st.replace_failed_proxy(a, 100).is_ok() {
                                did = Some("failover");
                            }
                        }
                    }
                }
                _ => {
                    if st.auto_add_nodes(name.clone(), 4).is_ok() && st.migrate_slots(name.clone()).is_ok() {
                        did = Some("scaleout4");
                    }
                }
            }
            if let Some(d) = did {
                match view(&st) {
                    Some(m) => {
                        hist.push(format!(">{}", d));
                        metas.push(m);
                    }
                    None => break,
                }
            }
        }
        stats.count(&format!("gen.broker.hist.{}", hist.join("+")));
        stats.count(&format!("gen.broker.installs.{}", metas.len()));
        Some((me, metas))
    }
}

/// a switch command as a (former / other / confused) source proxy could send it: the meta of an installed or
/// just dropped importing task, exact or with exactly one field changed
fn switch_variant(rng: &mut Rng, im: &Installed, stale: &[SlotRange]) -> Option<(Ranges, MigrationMeta, &'static str)> {
    let cur: Vec<&SlotRange> = im.local.iter().flat_map(|(_, srs)| srs.iter()).filter(|sr| kind_of(sr) == 'I').collect();
    let use_stale = !stale.is_empty() && (cur.is_empty() || rng.chance(1, 2));
    let base: &SlotRange = if use_stale { rng.pick(stale) } else if !cur.is_empty() { *rng.pick(&cur) } else { return None };
    let mut rs = ranges_of(base);
    let mut m = base.tag.get_migration_meta()?.clone();
    let bump = |a: &str| format!("{}9", a);
    let label = match if use_stale { 0 } else { rng.below(9) } {
        0 if use_stale => "stale_exact",
        0 | 1 => "exact",
        2 => {
            m.epoch = m.epoch.saturating_sub(1);
            "epoch_older"
        }
        3 => {
            m.epoch += 1;
            "epoch_newer"
        }
        4 => {
            m.src_proxy_address = bump(&m.src_proxy_address);
            "src_proxy"
        }
        5 => {
            m.src_node_address = bump(&m.src_node_address);
            "src_node"
        }
        6 => {
            m.dst_proxy_address = bump(&m.dst_proxy_address);
            "dst_proxy"
        }
        7 => {
            m.dst_node_address = bump(&m.dst_node_address);
            "dst_node"
        }
        _ => {
            if let Some(l) = rs.last_mut() {
                if l.1 + 1 < SLOT_NUM {
                    l.1 += 1;
                } else if l.1 > l.0 {
                    l.1 -= 1;
                } else {
                    l.0 = l.0.saturating_sub(1);
                }
            }
            "range_shifted"
        }
    };
    Some((rs, m, label))
}

fn parse_sr(sr: &str) -> Option<(char, Ranges, Option<MigrationMeta>)> {
    let (k, rest) = sr.split_once(':')?;
    let (rl, meta) = match rest.split_once('@') {
        Some((rl, m)) => {
            let f: Vec<&str> = m.split('~').collect();
            if f.len() != 5 {
                return None;
            }
            (rl, Some(mk_meta(f[0].parse().ok()?, f[1], f[2], f[3], f[4])))
        }
        None => (rest, None),
    };
    Some((k.chars().next()?, parse_rl(rl)?, meta))
}

fn probe_slots(rng: &mut Rng, es: &[Entry], n_random: usize) -> Vec<usize> {
    let mut b: BTreeSet<usize> = BTreeSet::new();
    b.insert(0);
    b.insert(SLOT_NUM - 1);
    for e in es {
        for (s, t) in &e.ranges {
            for x in [s.wrapping_sub(1), *s, *t, t.wrapping_add(1)] {
                if x < SLOT_NUM {
                    b.insert(x);
                }
            }
        }
    }
    let mut v: Vec<usize> = b.into_iter().collect();
    // keep it bounded: a random subset of the boundaries
    while v.len() > 40 {
        let i = rng.below(v.len() as u64) as usize;
        v.remove(i);
    }
    for _ in 0..n_random {
        v.push(rng.below(SLOT_NUM as u64) as usize);
    }
    v
}

/// phase targets for the local tasks: `step` 0 = everything in PreCheck, later steps move forward.
/// The SCAN gate is per source node and can only be opened: with an open gate no task of the node rests
/// in Scanning, with a closed one none passes it.
fn pick_targets(rng: &mut Rng, es: &[Entry], prev: &BTreeMap<Ranges, String>, step: usize, open_nodes: &HashSet<String>) -> BTreeMap<Ranges, String> {
    const SRC: [&str; 5] = ["PreCheck", "PreSwitch", "Scanning", "FinalSwitch", "SwitchCommitted"];
    const DST: [&str; 3] = ["PreCheck", "PreSwitch", "SwitchCommitted"];
    let cur_idx = |e: &Entry| -> usize {
        let cur = prev.get(&e.ranges).cloned().unwrap_or_else(|| "PreCheck".to_string());
        SRC.iter().position(|s| *s == cur).unwrap_or(0)
    };
    let node_of = |e: &Entry| e.sr.tag.get_migration_meta().map(|m| m.src_node_address.clone()).unwrap_or_default();
    let mut scan_open: BTreeMap<String, bool> = BTreeMap::new();
    for e in es.iter().filter(|e| e.local && e.kind == 'M') {
        // a gate opened for an earlier task of the node (possibly dropped since) stays open
        let ent = scan_open.entry(node_of(e)).or_insert(false);
        *ent = *ent || cur_idx(e) >= 3 || open_nodes.contains(&node_of(e));
    }
    for (_, open) in scan_open.iter_mut() {
        if !*open {
            *open = rng.chance(1, 2);
        }
    }
    let mut out = BTreeMap::new();
    for e in es.iter().filter(|e| e.local && e.kind != 'N') {
        if step == 0 {
            out.insert(e.ranges.clone(), "PreCheck".to_string());
            continue;
        }
        if e.kind == 'M' {
            let ci = cur_idx(e);
            let open = scan_open.get(&node_of(e)).copied().unwrap_or(false);
            let cands: Vec<usize> = (ci..SRC.len()).filter(|i| if open { *i != 2 } else { *i <= 2 }).collect();
            let pick = if cands.is_empty() { ci } else { *rng.pick(&cands) };
            out.insert(e.ranges.clone(), SRC[pick].to_string());
        } else {
            out.insert(e.ranges.clone(), rng.pick(&DST).to_string());
        }
    }
    out
}

fn main() {
    let args = parse_args();
    let rt = tokio::runtime::Builder::new_current_thread().enable_all().build().expect("runtime");
    rt.block_on(async move {
        tokio::time::pause();
        let mut rng = Rng::new(args.seed);
        let mut key_for_slot: Vec<Vec<u8>> = vec![vec![]; SLOT_NUM];
        let mut found = 0;
        let mut i = 0u64;
        while found < SLOT_NUM {
            let k = format!("r{}", i).into_bytes();
            let s = generate_slot(&k);
            if key_for_slot[s].is_empty() {
                key_for_slot[s] = k;
                found += 1;
            }
            i += 1;
        }
        let cfg0 = Cfg { v2: true, ar: false, me: "127.0.0.1:5299".to_string() };
        let mut run = Run {
            s: Streams::new(&args),
            w: World {
                cfg: cfg0.clone(),
                proxy: NProxy::new(&cfg0),
                epoch: 0,
                im: empty_installed(),
                es: vec![],
                shape: Err("nothing installed".to_string()),
                states: vec![],
                installs: 0,
                stale: vec![],
                last_nodes: String::new(),
                last_slots: String::new(),
            },
            case: 0,
            case_ops: vec![],
            key_for_slot,
            flags: BTreeMap::new(),
        };

        if let Some(p) = &args.replay {
            run.new_case();
            for l in read_lines(p) {
                if l.starts_with('#') {
                    continue;
                }
                let toks: Vec<&str> = l.split(' ').collect();
                match toks[0] {
                    "case" => run.new_case(),
                    "cfg" if toks.len() == 4 => {
                        let v = |t: &str| t.split_once('=').map(|x| x.1.to_string()).unwrap_or_default();
                        run.do_cfg(Cfg { v2: v(toks[1]) != "1", ar: v(toks[2]) == "1", me: v(toks[3]) }).await;
                    }
                    "switch" if toks.len() == 4 => {
                        if let Some((_, rs, Some(m))) = parse_sr(toks[3]) {
                            run.do_switch(toks[1], if toks[2] == "-" { "" } else { toks[2] }, &rs, &m).await; // emits switch, tasks, nodes, slots
                        }
                    }
                    "tick" if toks.len() == 2 => {
                        if let Ok(ms) = toks[1].parse() {
                            run.do_tick(ms).await; // emits tick, tasks, nodes, slots
                        }
                    }
                    "install" if toks.len() == 5 || toks.len() == 6 => {
                        if let Some(mut spec) = replay_spec(&run.w.cfg.me, toks[1], toks[3], toks[4]) {
                            spec.max_migration_time = toks.get(5).and_then(|t| t.strip_prefix("mmt=")).and_then(|t| t.parse().ok());
                            // keep the line's epoch when it is usable (the harness never goes backwards)
                            spec.min_epoch = spec.min_epoch.max(toks[2].parse().unwrap_or(0));
                            run.do_install(&spec).await; // emits `install` and `tasks`
                        } else {
                            run.s.stats.count("replay.bad_install_line");
                        }
                    }
                    "states" if toks.len() == 2 => {
                        let mut t: BTreeMap<Ranges, String> = BTreeMap::new();
                        if toks[1] != "-" {
                            for item in toks[1].split(';') {
                                if let Some((rl, st)) = item.split_once('=') {
                                    if let Some(rs) = parse_rl(rl) {
                                        t.insert(rs, st.to_string());
                                    }
                                }
                            }
                        }
                        run.do_phases(&t).await;
                    }
                    "nodes" => run.do_nodes_slots().await, // emits `nodes` and `slots`
                    "slots" | "tasks" => {}
                    "probe" => {
                        if let Some(s) = toks.get(1).and_then(|t| t.parse().ok()) {
                            run.do_probes(&[s]).await;
                        }
                    }
                    _ => {}
                }
            }
            run.s.finish("nodes", "replay");
            return;
        }

        let thorough = args.thorough;
        let mut gen = Gen { rng: rng.fork() };
        let n_cases = if thorough { 2400 } else { 140 };
        for ci in 0..n_cases {
            run.new_case();
            let class = match ci % 10 {
                0 | 1 | 2 | 3 => "partition",
                4 | 5 | 6 => "broker",
                7 | 8 => "odd",
                _ if ci / 10 % 2 == 0 => "fresh",
                _ => "timeout",
            };
            let timeout_family = class == "timeout";
            run.s.stats.count(&format!("gen.class.{}", class));
            let mut me = if rng.chance(1, 5) { format!("127.0.0.{}:{}", 1 + rng.below(3), 5000 + rng.below(1000)) } else { "127.0.0.1:5299".to_string() };
            // 1-4 successive SETCLUSTERs for the same (long-lived) proxy process
            let history = rng.chance(1, 2);
            let specs: Vec<MetaSpec> = match class {
                "partition" if history => gen.partition_history(&mut run.s.stats, &me, ci as u64 / 10 % 4),
                "partition" => vec![gen.partition_meta(&mut run.s.stats, &me, ci as u64 / 10 % 4)],
                "odd" => vec![gen.odd_meta(&mut run.s.stats, &me)],
                "timeout" => {
                    // this proxy is the source; `CONFIG migration_max_migration_time 1`
                    let mut m = gen.partition_meta(&mut run.s.stats, &me, 0);
                    m.max_migration_time = Some(1);
                    vec![m]
                }
                "broker" => match gen.broker_meta(&mut run.s.stats) {
                    Some((a, m)) => {
                        me = a;
                        m
                    }
                    None => vec![],
                },
                _ => vec![],
            };
            let cfg = Cfg { v2: rng.chance(1, 2), ar: class != "odd" && class != "timeout" && rng.chance(1, 6), me: me.clone() };
            run.do_cfg(cfg).await;
            // before anything is installed
            if class == "fresh" || rng.chance(1, 8) {
                run.do_nodes_slots().await;
                run.do_probes(&[0, 77]).await;
            }
            if specs.len() > 1 {
                run.s.stats.count("gen.history");
            }
            let n_specs = specs.len();
            let mut last_spec: Option<MetaSpec> = None;
            for (k, spec) in specs.iter().enumerate() {
                if !run.do_install(spec).await {
                    break;
                }
                last_spec = Some(spec.clone());
                // the advertisement right after the install: kept tasks in their phase, new ones in PreCheck
                run.do_nodes_slots().await;
                let ps = probe_slots(&mut rng, &run.w.es, if thorough { 8 } else { 4 });
                run.do_probes(&ps).await;
                // switch commands of former / other sources between the installs
                if rng.chance(1, 2) {
                    for _ in 0..(1 + rng.below(2)) {
                        if let Some((rs, m, label)) = switch_variant(&mut rng, &run.w.im, &run.w.stale) {
                            run.s.stats.count(&format!("gen.switch.{}", label));
                            let sub = *rng.pick(&["PRECHECK", "PRESWITCH", "FINALSWITCH"]);
                            let cluster = if rng.chance(1, 12) { "othercluster".to_string() } else { run.w.im.name.clone() };
                            run.do_switch(sub, &cluster, &rs, &m).await;
                        }
                    }
                }
                let has_tasks = run.w.es.iter().any(|e| e.local && e.kind != 'N');
                if !has_tasks {
                    continue;
                }
                if timeout_family {
                    // the peer acknowledges nothing while `max_migration_time` (1 s) expires: nothing may move; then the
                    // destination acknowledges FINALSWITCH ("force to commit"): only now the range changes sides
                    run.do_tick(3000).await;
                    let mut targets: BTreeMap<Ranges, String> = run.w.states.iter().cloned().collect();
                    for e in run.w.es.iter().filter(|e| e.local && e.kind == 'M') {
                        targets.insert(e.ranges.clone(), "SwitchCommitted".to_string());
                    }
                    run.do_phases(&targets).await;
                    run.do_nodes_slots().await;
                    continue;
                }
                // then move the tasks on through the real handshake (fewer phase points inside a history)
                let steps = if n_specs > 1 && k + 1 < n_specs { rng.below(3) as usize } else { 1 + rng.below(3) as usize };
                for step in 0..steps {
                    let prev: BTreeMap<Ranges, String> = run.w.states.iter().cloned().collect();
                    let open_nodes: HashSet<String> = run.w.proxy.gates.scan_open.lock().expect("gates").clone();
                    let targets = pick_targets(&mut rng, &run.w.es, &prev, step + 1, &open_nodes);
                    run.do_phases(&targets).await;
                    run.do_nodes_slots().await;
                    let ps = probe_slots(&mut rng, &run.w.es, if thorough { 12 } else { 6 });
                    run.do_probes(&ps).await;
                }
            }
            // re-install the same meta under a new epoch: running tasks and their phases are kept
            if let Some(spec) = last_spec {
                let has_tasks = run.w.es.iter().any(|e| e.local && e.kind != 'N');
                if has_tasks && rng.chance(1, 3) {
                    run.s.stats.count("gen.reinstall_same_meta");
                    if run.do_install(&spec).await {
                        run.do_nodes_slots().await;
                    }
                }
            }
            let f = &run.flags;
            let has = |k: &str| f.get(k).copied().unwrap_or(0) > 0;
            let mig = has("adv.mig.source.precheck") || has("adv.mig.source.later") || has("adv.mig.destination.precheck") || has("adv.mig.destination.later") || has("adv.mig.bystander");
            if mig && (has("adv.stable.local") || has("adv.stable.peer")) && has("route.agrees_with_advertisement") {
                let text = format!("{:?}|{}|{}|{}", run.w.cfg, nodes_text(&run.w.im.local), nodes_text(&run.w.im.peer), states_text(&run.w.states));
                run.s.stats.nontrivial_case(&text);
            }
            if run.s.cases % 40 == 0 {
                run.s.stats.sample(json!({"cfg": format!("{:?}", run.w.cfg), "local": nodes_text(&run.w.im.local), "peer": nodes_text(&run.w.im.peer), "states": states_text(&run.w.states)}));
            }
        }
        run.w.proxy.gates.all_open.store(true, std::sync::atomic::Ordering::SeqCst);
        run.s.finish("nodes", "cases = proxy config (NODES format V1/V2, active redirection, announce address) x meta (hand-built partitions with 1-8 proxies seen as source / destination / bystander, views served by the real broker MetaStore after scale-out / partial commits / scale-down / failover, perturbed metas: gaps, overlaps, orphan or duplicate tags, malformed addresses, uncompacted / out-of-space / empty range lists, slot-less nodes; textual and compressed SETCLUSTER) x install histories on the same proxy process (1-4 successive SETCLUSTERs: migrations hidden by the migration limit, exposed later next to running ones, committed; the task map after every install is checked: kept tasks in their phase, new ones in PreCheck, none missing) x 0-3 phase points per install driven through the real handshake (source: PreCheck, PreSwitch, Scanning, FinalSwitch, SwitchCommitted; destination: PreCheck, PreSwitch, SwitchCommitted) x NODES + SLOTS + routing probes at every range boundary; non-trivial case = a partition-shaped meta with a migrating range and a stable range whose advertisement was checked for all 16384 slots and confirmed by routing probes; distinct = distinct (config, last installed meta, final phase map)");
    });
}

fn parse_rl(s: &str) -> Option<Ranges> {
    if s.is_empty() {
        return Some(vec![]);
    }
    s.split(',')
        .map(|t| {
            let (a, b) = t.split_once('-')?;
            Some((a.parse().ok()?, b.parse().ok()?))
        })
        .collect()
}

/// rebuild a meta from an `install` op line; a tagged range without `@meta` (old corpus lines) gets a
/// synthesised migration meta: a migrating range points at the holder of the importing range with the same
/// range list (and vice versa)
fn replay_spec(me: &str, name: &str, local: &str, peer: &str) -> Option<MetaSpec> {
    type Raw = Vec<(String, Vec<(char, Ranges, Option<MigrationMeta>)>)>;
    let parse = |s: &str| -> Option<Raw> {
        if s == "-" {
            return Some(vec![]);
        }
        let mut v = vec![];
        for n in s.split(';') {
            let (a, srs) = n.split_once('=')?;
            let mut l = vec![];
            if !srs.is_empty() {
                for sr in srs.split('/') {
                    let (k, rest) = sr.split_once(':')?;
                    let (rl, meta) = match rest.split_once('@') {
                        Some((rl, m)) => {
                            let f: Vec<&str> = m.split('~').collect();
                            if f.len() != 5 {
                                return None;
                            }
                            (rl, Some(mk_meta(f[0].parse().ok()?, f[1], f[2], f[3], f[4])))
                        }
                        None => (rest, None),
                    };
                    l.push((k.chars().next()?, parse_rl(rl)?, meta));
                }
            }
            v.push((a.to_string(), l));
        }
        Some(v)
    };
    let lo = parse(local)?;
    let pe = parse(peer)?;
    // (proxy address, node address) of the holder of a tagged range list
    let holder = |kind: char, rs: &Ranges| -> (String, String) {
        for (a, l) in &lo {
            if l.iter().any(|(k, r, _)| *k == kind && r == rs) {
                return (me.to_string(), a.clone());
            }
        }
        for (a, l) in &pe {
            if l.iter().any(|(k, r, _)| *k == kind && r == rs) {
                return (a.clone(), format!("{}:7000", host_of(a)));
            }
        }
        ("10.255.255.254:5299".to_string(), "10.255.255.254:7000".to_string())
    };
    let mut min_epoch = 0;
    let mut build = |m: &Raw| -> HashMap<String, Vec<SlotRange>> {
        let mut out = HashMap::new();
        for (a, l) in m {
            let mut v = vec![];
            for (k, rs, meta) in l {
                let meta = meta.clone().unwrap_or_else(|| {
                    let (sp, sn) = holder('M', rs);
                    let (dp, dn) = holder('I', rs);
                    mk_meta(1, &sp, &sn, &dp, &dn)
                });
                if *k != 'N' {
                    min_epoch = min_epoch.max(meta.epoch);
                }
                let tag = match k {
                    'M' => SlotRangeTag::Migrating(meta),
                    'I' => SlotRangeTag::Importing(meta),
                    _ => SlotRangeTag::None,
                };
                v.push(SlotRange { range_list: raw_range_list(rs), tag });
            }
            out.insert(a.clone(), v);
        }
        out
    };
    let (l, p) = (build(&lo), build(&pe));
    Some(MetaSpec { name: if name == "-" { String::new() } else { name.to_string() }, local: l, peer: p, compressed: true, min_epoch, max_migration_time: None })
}
