//! C03: live slot migration between two *real* proxies (`SharedForwardHandler` = executor +
//! `MetaManager` + migration tasks of /repo) over two storing fake Redis nodes, with every backend
//! command and every proxy-to-proxy command stopped at a gate.  A seeded scheduler decides which
//! pending command runs next (tokio current-thread runtime, paused clock), so the implementation
//! is driven at the atomic steps of `lean/UmModel/Migration.lean`.
//!
//! Line protocol (ops.txt; impl.txt carries `ok` for every line, the Lean driver answers `ok` or
//! `REFUSED <why>` = trace inclusion):
//!   cfg conn=<n> active=<0|1> scan=<n> in=<k,..> out=<k,..> init=<k:v,..>   start of a case
//!   inv <id> <S|D> <CMD> <key> [<val>]          client invocation at proxy S / D        (action)
//!   exe <conn> <rs|rd|ps|pd> <CMD> <args..> => <reply|?>  pending head of <conn> runs   (action)
//!   commit <S|D>                                SETCLUSTER with the committed metadata  (action)
//!   tick                                        only lets (virtual) time pass           (action)
//!   (replay files only) try <conn>              exe <conn> if it has a pending command, else nothing
//!   flt <conn> <rs|rd> <CMD> <args..>           FAULT: the connection <conn> (a Redis client of the migrating task)
//!                                               is reset at its pending head command: nothing is executed (action)
//!   ret <id> <reply>                            client response                         (observation)
//!   st <S|D> <STATE>                            migration state of the local task       (observation)
//!   fin <key> <src|-> <dst|->                   store contents at the end of the case   (observation)
//! `--replay FILE` re-executes the action lines of FILE and records the observations afresh.
//!
//! Oracle (implementation only): per key, the history of acknowledged client operations must be
//! linearizable as a register with delete w.r.t. real-time order; after the commit and at
//! quiescence the source holds no key of the range and the destination holds the register value.
use arc_swap::ArcSwap;
use futures::channel::mpsc;
use serde_json::json;
use std::collections::BTreeMap;
use std::num::NonZeroUsize;
use std::sync::atomic::{AtomicBool, AtomicI64, AtomicU64};
use std::sync::{Arc, Mutex};
use std::time::Duration;
use umharness::migration_support::*;
use umharness::util::*;
use undermoon::common::batch::BatchStrategy;
use undermoon::common::proto::SET_CLUSTER_API_VERSION;
use undermoon::common::track::TrackedFutureRegistry;
use undermoon::common::utils::{generate_lock_slot, generate_slot};
use undermoon::protocol::{Array, BulkStr, Resp, RespPacket, RespVec};
use undermoon::proxy::command::{new_command_pair, Command};
use undermoon::proxy::executor::SharedForwardHandler;
use undermoon::proxy::manager::MetaMap;
use undermoon::proxy::service::{ClusterNodesVersion, ServerProxyConfig};
use undermoon::proxy::session::{CmdCtx, CmdCtxHandler};
use undermoon::proxy::slowlog::SlowRequestLogger;

type Handler = SharedForwardHandler<GateClientFactory, GateConnFactory>;

const EPOCH: u64 = 233;

fn gen_config(address: &str, conn_num: usize, active: bool) -> ServerProxyConfig {
    ServerProxyConfig {
        address: address.to_string(),
        announce_address: address.to_string(),
        announce_host: "127.0.0.1".to_string(),
        slowlog_len: NonZeroUsize::new(16).expect("nz"),
        slowlog_log_slower_than: AtomicI64::new(1_000_000_000),
        slowlog_sample_rate: AtomicU64::new(1_000_000),
        thread_number: NonZeroUsize::new(1).expect("nz"),
        backend_conn_num: NonZeroUsize::new(conn_num.max(1)).expect("nz"),
        active_redirection: active,
        max_redirections: None,
        default_redirection_address: None,
        backend_batch_strategy: BatchStrategy::Disabled,
        backend_flush_size: NonZeroUsize::new(1).expect("nz"),
        backend_low_flush_interval: Duration::from_nanos(200_000),
        backend_high_flush_interval: Duration::from_nanos(800_000),
        session_timeout: None,
        // never fires within a case: the timeouts that abandon the protocol are outside C03
        backend_timeout: Duration::from_secs(100_000_000),
        password: None,
        command_cluster_nodes_version: ClusterNodesVersion::V2,
    }
}

fn make_proxy(world: &Shared, owner: char, address: &str, conn_num: usize, active: bool) -> Arc<Handler> {
    let config = Arc::new(gen_config(address, conn_num, active));
    let client_factory = Arc::new(GateClientFactory { world: world.clone(), owner });
    let conn_factory = Arc::new(GateConnFactory { world: world.clone(), owner });
    let meta_map = Arc::new(ArcSwap::new(Arc::new(MetaMap::empty())));
    let future_registry = Arc::new(TrackedFutureRegistry::default());
    let slow = Arc::new(SlowRequestLogger::new(config.clone()));
    let (stopped, _rx) = mpsc::unbounded();
    std::mem::forget(_rx);
    Arc::new(SharedForwardHandler::new(
        config,
        client_factory,
        slow,
        meta_map,
        conn_factory,
        future_registry,
        stopped,
    ))
}

fn to_args(words: &[&str]) -> Vec<Vec<u8>> {
    words.iter().map(|w| w.as_bytes().to_vec()).collect()
}

/// hand one command to the real executor of a proxy; the future resolves with the client reply
fn submit(handler: &Arc<Handler>, args: Vec<Vec<u8>>, session: usize) -> impl std::future::Future<Output = RespVec> + Send + 'static {
    let h = handler.clone();
    async move {
        let resp = Resp::Arr(Array::Arr(args.into_iter().map(|a| Resp::Bulk(BulkStr::Str(a))).collect()));
        let cmd = Command::new(Box::new(RespPacket::Data(resp)));
        let (tx, rx) = new_command_pair(&cmd);
        let ctx = CmdCtx::new(cmd, tx, session, false);
        let auth = AtomicBool::new(true);
        match h.handle_cmd_ctx(ctx, rx, &auth).await {
            Ok(reply) => reply.into_resp_vec(),
            Err(e) => Resp::Error(format!("ERRCMD_{:?}", e).into_bytes()),
        }
    }
}

fn setcluster_words(for_src: bool, committed: bool, scan_count: u64) -> Vec<String> {
    let epoch = if committed { EPOCH + 1 } else { EPOCH };
    let mig = |tag: &str| {
        format!("{} 1 8001-16383 {} {} {} {} {}", tag, EPOCH, SRC_PROXY, SRC_REDIS, DST_PROXY, DST_REDIS)
    };
    let body = match (for_src, committed) {
        (true, false) => format!(
            "{r} 1 0-8000 {r} {m} PEER {dp} {i}",
            r = SRC_REDIS, m = mig("migrating"), dp = DST_PROXY, i = mig("importing")),
        (false, false) => format!(
            "{r} {i} PEER {sp} 1 0-8000 {sp} {m}",
            r = DST_REDIS, i = mig("importing"), sp = SRC_PROXY, m = mig("migrating")),
        (true, true) => format!("{} 1 0-8000 PEER {} 1 8001-16383", SRC_REDIS, DST_PROXY),
        (false, true) => format!("{} 1 8001-16383 PEER {} 1 0-8000", DST_REDIS, SRC_PROXY),
    };
    let s = format!(
        "UMCTL SETCLUSTER {} {} NOFLAGS test_cluster {} CONFIG migration_scan_count {} migration_scan_interval 0 \
         migration_max_blocking_time 100000000000 migration_max_migration_time 100000000",
        SET_CLUSTER_API_VERSION, epoch, body, scan_count
    );
    s.split(' ').filter(|w| !w.is_empty()).map(|w| w.to_string()).collect()
}

/// migration state of the (single) local task as printed by `UMCTL INFO`, or NONE
fn state_of(info: &RespVec) -> String {
    fn walk(r: &RespVec, out: &mut Vec<String>) {
        match r {
            Resp::Arr(Array::Arr(items)) => items.iter().for_each(|i| walk(i, out)),
            Resp::Bulk(BulkStr::Str(s)) => out.push(String::from_utf8_lossy(s).to_string()),
            _ => {}
        }
    }
    let mut lines = vec![];
    walk(info, &mut lines);
    for l in lines {
        if l.contains(" -> ") {
            if let Some(st) = l.split(' ').last() {
                return st.to_string();
            }
        }
    }
    "NONE".to_string()
}

#[derive(Clone)]
struct Cfg {
    conn: usize,
    active: bool,
    scan: u64,
    keys_in: Vec<String>,
    keys_out: Vec<String>,
    init: Vec<(String, String)>,
}

impl Cfg {
    fn line(&self) -> String {
        let init: Vec<String> = self.init.iter().map(|(k, v)| format!("{}:{}", k, v)).collect();
        format!(
            "cfg conn={} active={} scan={} in={} out={} init={}",
            self.conn,
            self.active as u8,
            self.scan,
            self.keys_in.join(","),
            if self.keys_out.is_empty() { "-".to_string() } else { self.keys_out.join(",") },
            if init.is_empty() { "-".to_string() } else { init.join(",") }
        )
    }
    fn parse(l: &str) -> Option<Cfg> {
        let mut c = Cfg { conn: 1, active: false, scan: 2, keys_in: vec![], keys_out: vec![], init: vec![] };
        for w in l.split(' ').skip(1) {
            let (k, v) = w.split_once('=')?;
            let list = |v: &str| -> Vec<String> {
                if v == "-" { vec![] } else { v.split(',').map(|s| s.to_string()).collect() }
            };
            match k {
                "conn" => c.conn = v.parse().ok()?,
                "active" => c.active = v == "1",
                "scan" => c.scan = v.parse().ok()?,
                "in" => c.keys_in = list(v),
                "out" => c.keys_out = list(v),
                "init" => {
                    for kv in list(v) {
                        let (a, b) = kv.split_once(':')?;
                        c.init.push((a.to_string(), b.to_string()));
                    }
                }
                _ => {}
            }
        }
        Some(c)
    }
}

#[derive(Clone, Debug)]
enum Action {
    Inv { id: u64, proxy: char, cmd: String, key: String, val: Option<String> },
    Exe { conn: String },
    Fault { conn: String },
    Commit { proxy: char },
    Tick,
}

struct ClientOp {
    id: u64,
    key: String,
    cmd: HCmd,
    inv: u64,
    ret: Option<(u64, String)>,
    text: String,
}

struct Case {
    world: Shared,
    s: Arc<Handler>,
    d: Arc<Handler>,
    cfg: Cfg,
    clock: u64,
    ops: Vec<ClientOp>,
    st: [String; 2],
    committed: [bool; 2],
    lines: Vec<String>,
    /// every line of the case (for replays attached to oracle failures)
    all_lines: Vec<String>,
    /// per key: DUMPs that returned data and whose RESTORE has not been executed yet
    dump_out: BTreeMap<String, i64>,
    /// per connection: the last PTTL answered -2 (the following DUMP of a scan / fast-path batch is ignored)
    pttl_missing: BTreeMap<String, bool>,
    /// per connection: key of the last counted DUMP (a following PTTL -2 on a pull connection cancels it)
    last_dump: BTreeMap<String, String>,
    /// (key, time) of RESTOREs waiting at a gate when a deleting command ran directly at dst after the commit
    f03b_window: std::collections::BTreeSet<String>,
    faults: u64,
    /// in-range keys found on the source when the scan declared itself finished
    left_at_scan_end: Vec<String>,
}

async fn settle(world: &Shared) {
    let mut stable = 0;
    for _ in 0..200 {
        let before = world.lock().map(|w| w.events).unwrap_or(0);
        tokio::time::sleep(Duration::from_millis(1)).await;
        for _ in 0..4 {
            tokio::task::yield_now().await;
        }
        let after = world.lock().map(|w| w.events).unwrap_or(0);
        if after == before {
            stable += 1;
            if stable >= 2 {
                return;
            }
        } else {
            stable = 0;
        }
    }
}

impl Case {
    fn log(&mut self, l: String) {
        self.all_lines.push(l.clone());
        self.lines.push(l);
    }

    async fn new(cfg: Cfg) -> Case {
        let world: Shared = Arc::new(Mutex::new(World::default()));
        {
            let mut w = world.lock().expect("world");
            let mut uni: Vec<Vec<u8>> = cfg.keys_in.iter().chain(cfg.keys_out.iter()).map(|k| k.as_bytes().to_vec()).collect();
            uni.sort();
            w.universe = uni;
            for (k, v) in &cfg.init {
                w.store[0].insert(k.as_bytes().to_vec(), v.as_bytes().to_vec());
            }
        }
        let s = make_proxy(&world, 'S', SRC_PROXY, cfg.conn, cfg.active);
        let d = make_proxy(&world, 'D', DST_PROXY, cfg.conn, cfg.active);
        let mut c = Case {
            world, s, d, cfg: cfg.clone(), clock: 0, ops: vec![],
            st: ["PRE_CHECK".to_string(), "PRE_CHECK".to_string()],
            committed: [false, false], lines: vec![], all_lines: vec![], dump_out: Default::default(),
            pttl_missing: Default::default(), last_dump: Default::default(), f03b_window: Default::default(), faults: 0, left_at_scan_end: vec![],
        };
        // the coordinator sets the destination first
        let rd = submit(&c.d, setcluster_words(false, false, cfg.scan).iter().map(|w| w.as_bytes().to_vec()).collect(), 1).await;
        let rs = submit(&c.s, setcluster_words(true, false, cfg.scan).iter().map(|w| w.as_bytes().to_vec()).collect(), 1).await;
        if show_resp(&rd) != "+OK" || show_resp(&rs) != "+OK" {
            c.log(format!("tick # SETCLUSTER failed: {} {}", show_resp(&rd), show_resp(&rs)));
        }
        c.observe().await;
        c
    }

    fn proxy(&self, p: char) -> &Arc<Handler> {
        if p == 'S' { &self.s } else { &self.d }
    }

    /// settle, then record client responses and state changes
    async fn observe(&mut self) {
        settle(&self.world).await;
        let done: Vec<(u64, RespVec)> = self.world.lock().map(|mut w| std::mem::take(&mut w.done)).unwrap_or_default();
        for (id, r) in done {
            self.clock += 1;
            let shown = show_resp(&r);
            if let Some(op) = self.ops.iter_mut().find(|o| o.id == id) {
                op.ret = Some((self.clock, shown.clone()));
            }
            self.log(format!("ret {} {}", id, shown));
        }
        for (i, p) in ['S', 'D'].iter().enumerate() {
            let info = submit(self.proxy(*p), to_args(&["UMCTL", "INFO"]), 2).await;
            let st = state_of(&info);
            if st != self.st[i] {
                if i == 0 && st == "FINAL_SWITCH" {
                    // the scan is over: no key of the range may be left on the source (it would be unreachable
                    // after the commit)
                    if let Ok(w) = self.world.lock() {
                        for k in &self.cfg.keys_in {
                            if w.store[0].contains_key(k.as_bytes()) {
                                self.left_at_scan_end.push(k.clone());
                            }
                        }
                    }
                }
                self.st[i] = st.clone();
                self.log(format!("st {} {}", p, st));
            }
        }
    }

    /// connections whose head command is a RESTORE that is not the first command of its pipeline: an earlier
    /// RESTORE of the same pipeline has been executed, a reset would make the task re-send it (at-least-once
    /// RESTORE, answered BUSYKEY) — not part of the fault plan / model
    fn resend_heads(&self) -> Vec<String> {
        self.world
            .lock()
            .map(|w| {
                w.conns
                    .iter()
                    .filter(|c| c.pending.front().map(|p| p.pos > 0 && p.args.first().map(|a| a.eq_ignore_ascii_case(b"RESTORE")).unwrap_or(false)).unwrap_or(false))
                    .map(|c| c.label.clone())
                    .collect()
            })
            .unwrap_or_default()
    }

    /// (label, upper-cased name of the head command) of every connection with a pending command
    fn pending_heads(&self) -> Vec<(String, String)> {
        self.world
            .lock()
            .map(|w| {
                w.conns
                    .iter()
                    .filter_map(|c| c.pending.front().map(|p| {
                        (c.label.clone(), p.args.first().map(|a| String::from_utf8_lossy(a).to_uppercase()).unwrap_or_default())
                    }))
                    .collect()
            })
            .unwrap_or_default()
    }

    fn pending_conns(&self) -> Vec<String> {
        self.world
            .lock()
            .map(|w| w.conns.iter().filter(|c| !c.pending.is_empty()).map(|c| c.label.clone()).collect())
            .unwrap_or_default()
    }

    async fn act(&mut self, a: &Action) -> bool {
        match a {
            Action::Inv { id, proxy, cmd, key, val } => {
                self.clock += 1;
                let mut words: Vec<&str> = vec![cmd.as_str(), key.as_str()];
                if let Some(v) = val {
                    words.push(v.as_str());
                }
                if cmd == "SINTERSTORE" {
                    words.push("zz-missing");
                }
                let hc = match cmd.as_str() {
                    "GET" => HCmd::Get,
                    "SET" => HCmd::Set(val.clone().unwrap_or_default()),
                    "GETSET" => HCmd::GetSet(val.clone().unwrap_or_default()),
                    "DEL" => HCmd::Del,
                    "SINTERSTORE" => HCmd::DelStore,
                    _ => return false,
                };
                let text = format!("inv {} {} {} {}{}", id, proxy, cmd, key, val.as_ref().map(|v| format!(" {}", v)).unwrap_or_default());
                self.ops.push(ClientOp { id: *id, key: key.clone(), cmd: hc, inv: self.clock, ret: None, text: text.clone() });
                self.log(text);
                let fut = submit(self.proxy(*proxy), to_args(&words), 100 + *id as usize);
                let world = self.world.clone();
                let id = *id;
                tokio::spawn(async move {
                    let r = fut.await;
                    if let Ok(mut w) = world.lock() {
                        w.events += 1;
                        w.done.push((id, r));
                    }
                });
            }
            Action::Exe { conn } => {
                let taken = {
                    let mut w = match self.world.lock() { Ok(w) => w, Err(_) => return false };
                    let idx = match w.conn_by_label(conn) { Some(i) => i, None => return false };
                    let target = w.conns[idx].target;
                    match w.conns[idx].pending.pop_front() {
                        Some(p) => Some((target, p)),
                        None => None,
                    }
                };
                let (target, p) = match taken { Some(t) => t, None => return false };
                let words: Vec<String> = p.args.iter().map(|a| String::from_utf8_lossy(a).to_string()).collect();
                let shown_cmd = words.join(" ");
                if target.is_redis() {
                    let n = if target == Target::RedisSrc { 0 } else { 1 };
                    let reply = self.world.lock().expect("world").redis_exec(n, &p.args);
                    // bookkeeping for the F03b predicate: which keys have a DUMP taken whose RESTORE is still to come
                    {
                        let name = words.first().map(|s| s.to_uppercase()).unwrap_or_default();
                        let key = words.get(1).cloned().unwrap_or_default();
                        let shown = show_resp(&reply);
                        match name.as_str() {
                            "PTTL" => {
                                let missing = shown == ":-2";
                                if conn.starts_with("Sx") {
                                    self.pttl_missing.insert(conn.clone(), missing);
                                } else if missing && self.last_dump.get(conn) == Some(&key) {
                                    *self.dump_out.entry(key.clone()).or_insert(0) -= 1;
                                    self.last_dump.remove(conn);
                                }
                            }
                            "DUMP" if shown != "nil" => {
                                let ignored = conn.starts_with("Sx") && self.pttl_missing.get(conn).copied().unwrap_or(false);
                                if !ignored {
                                    *self.dump_out.entry(key.clone()).or_insert(0) += 1;
                                    self.last_dump.insert(conn.clone(), key.clone());
                                }
                            }
                            "RESTORE" => {
                                *self.dump_out.entry(key.clone()).or_insert(0) -= 1;
                            }
                            _ => {}
                        }
                    }
                    // payloads travel as words; RESTORE shows `RESTORE key ttl payload`
                    self.log(format!("exe {} {} {} => {}", conn, target.code(), shown_cmd, show_resp(&reply)));
                    let _ = p.reply.send(reply);
                } else {
                    let h = if target == Target::ProxyS { self.s.clone() } else { self.d.clone() };
                    let fut = submit(&h, p.args.clone(), 50);
                    let world = self.world.clone();
                    let reply_tx = p.reply;
                    let shown = Arc::new(Mutex::new(None::<String>));
                    let shown2 = shown.clone();
                    tokio::spawn(async move {
                        let r = fut.await;
                        if let Ok(mut s) = shown2.lock() {
                            *s = Some(show_resp(&r));
                        }
                        if let Ok(mut w) = world.lock() {
                            w.events += 1;
                        }
                        let _ = reply_tx.send(r);
                    });
                    settle(&self.world).await;
                    let rep = shown.lock().ok().and_then(|s| s.clone()).unwrap_or_else(|| "?".to_string());
                    // UMCTL handshake commands carry the whole task description: keep the sub-command only
                    let short = if words.first().map(|w| w.eq_ignore_ascii_case("UMCTL")).unwrap_or(false) {
                        format!("UMCTL {}", words.get(1).cloned().unwrap_or_default())
                    } else {
                        shown_cmd
                    };
                    self.log(format!("exe {} {} {} => {}", conn, target.code(), short, rep));
                }
            }
            Action::Fault { conn } => {
                // the connection is reset before its head command is executed: every command waiting on it fails
                let dropped = {
                    let mut w = match self.world.lock() { Ok(w) => w, Err(_) => return false };
                    let idx = match w.conn_by_label(conn) { Some(i) => i, None => return false };
                    if w.conns[idx].kind != 'x' || !w.conns[idx].target.is_redis() || w.conns[idx].pending.is_empty() {
                        return false;
                    }
                    let target = w.conns[idx].target;
                    let all: Vec<Pending> = w.conns[idx].pending.drain(..).collect();
                    w.events += 1;
                    (target, all)
                };
                let (target, all) = dropped;
                let words: Vec<String> = all[0].args.iter().map(|a| String::from_utf8_lossy(a).to_string()).collect();
                self.log(format!("flt {} {} {}", conn, target.code(), words.join(" ")));
                self.faults += 1;
                drop(all); // dropping the reply senders = connection error at the client
            }
            Action::Commit { proxy } => {
                let i = if *proxy == 'S' { 0 } else { 1 };
                let words = setcluster_words(*proxy == 'S', true, self.cfg.scan);
                let r = submit(self.proxy(*proxy), words.iter().map(|w| w.as_bytes().to_vec()).collect(), 1).await;
                if show_resp(&r) != "+OK" {
                    return false;
                }
                self.committed[i] = true;
                if *proxy == 'D' {
                    // F03b predicate (= the hypothesis of C03_register_partial): the destination commits while a
                    // DUMP of the key has been taken whose RESTORE is still to come
                    for (k, n) in self.dump_out.iter() {
                        if *n > 0 {
                            self.f03b_window.insert(k.clone());
                        }
                    }
                }
                self.log(format!("commit {}", proxy));
            }
            Action::Tick => {
                self.log("tick".to_string());
            }
        }
        self.observe().await;
        true
    }

    fn fin_lines(&mut self) {
        let w = self.world.lock().expect("world");
        let show = |m: &BTreeMap<Vec<u8>, Vec<u8>>, k: &str| m.get(k.as_bytes()).map(|v| String::from_utf8_lossy(v).to_string()).unwrap_or_else(|| "-".to_string());
        let mut out = vec![];
        for k in self.cfg.keys_in.iter().chain(self.cfg.keys_out.iter()) {
            out.push(format!("fin {} {} {}", k, show(&w.store[0], k), show(&w.store[1], k)));
        }
        drop(w);
        for l in out { self.log(l); }
    }
}

fn pick_keys() -> (Vec<String>, Vec<String>) {
    let mut ins = vec![];
    let mut outs = vec![];
    let mut lock_slots = std::collections::HashSet::new();
    for i in 0..400 {
        let k = format!("k{}", i);
        let slot = generate_slot(k.as_bytes());
        let ls = generate_lock_slot(k.as_bytes());
        if (8001..=16383).contains(&slot) {
            if ins.len() < 6 && lock_slots.insert(ls) {
                ins.push(k);
            }
        } else if outs.len() < 2 {
            outs.push(k);
        }
    }
    (ins, outs)
}

struct Gen {
    rng: Rng,
    next_id: u64,
    budget: usize,
}

fn gen_cfg(rng: &mut Rng, ins: &[String], outs: &[String]) -> Cfg {
    let nk = 1 + rng.below(3) as usize;
    let mut keys_in: Vec<String> = vec![];
    while keys_in.len() < nk {
        let k = rng.pick(ins).clone();
        if !keys_in.contains(&k) {
            keys_in.push(k);
        }
    }
    let keys_out = if rng.chance(1, 3) { vec![outs[0].clone()] } else { vec![] };
    let mut init = vec![];
    for (i, k) in keys_in.iter().chain(keys_out.iter()).enumerate() {
        if rng.chance(2, 3) {
            init.push((k.clone(), format!("i{}", i)));
        }
    }
    Cfg {
        conn: *rng.pick(&[1usize, 1, 2, 2, 3]),
        active: rng.chance(1, 3),
        scan: 1 + rng.below(4),
        keys_in,
        keys_out,
        init,
    }
}

fn check_case(c: &Case, complete: bool, st: &mut Stats, case_no: u64) {
    let w = c.world.lock().expect("world");
    let val = |n: usize, k: &str| w.store[n].get(k.as_bytes()).map(|v| String::from_utf8_lossy(v).to_string());
    let init_of = |k: &str| c.cfg.init.iter().find(|(a, _)| a == k).map(|(_, v)| v.clone());
    let replay: Vec<String> = std::iter::once(c.cfg.line()).chain(c.all_lines.iter().cloned()).collect();
    for k in c.cfg.keys_in.iter().chain(c.cfg.keys_out.iter()) {
        let inside = c.cfg.keys_in.contains(k);
        let ops: Vec<HOp> = c.ops.iter().filter(|o| &o.key == k).map(|o| {
            let ret = match &o.ret {
                // MOVED / error replies: the command was not executed (checked by the model too)
                Some((_, r)) if r.starts_with('-') => return HOp { id: o.id, cmd: o.cmd.clone(), inv: u64::MAX - 1, ret: None },
                Some((t, r)) => Some((*t, r.clone())),
                None => None,
            };
            HOp { id: o.id, cmd: o.cmd.clone(), inv: o.inv, ret }
        }).filter(|o| o.inv != u64::MAX - 1).collect();
        let fin: Option<Option<String>> = if complete {
            Some(if inside { val(1, k) } else { val(0, k) })
        } else {
            None
        };
        // F03a (deleting `*STORE` commands on the pull path) is fixed in /repo ddfb301: a failure on a key with a
        // SINTERSTORE in its history is a plain violation now
        let finding = if c.f03b_window.contains(k) { "F03b" } else { "" };
        if !linearizable(&ops, &init_of(k), fin.as_ref()) {
            st.count("oracle.not_linearizable");
            st.oracle_failure(case_no, &format!("key {}: acknowledged history is not a linearizable register{}", k,
                if complete { " ending in the final store content" } else { "" }), finding, replay.clone());
        }
        if complete && inside {
            if val(0, k).is_some() {
                st.count("oracle.left_on_source");
                st.oracle_failure(case_no, &format!("key {}: still on the source after the commit", k), finding, replay.clone());
            }
        }
        if inside && c.left_at_scan_end.contains(k) {
            st.count("oracle.scan_finished_with_key_on_source");
            st.oracle_failure(case_no, &format!("key {}: the scan finished (FINAL_SWITCH) while the key was still on the source", k), "", replay.clone());
        }
        if !inside && val(1, k).is_some() {
            st.oracle_failure(case_no, &format!("key {} outside the range appeared on the destination", k), "", replay.clone());
        }
    }
}

async fn run_generated(seed_rng: &mut Rng, s: &mut Streams, ins: &[String], outs: &[String], max_steps: usize) {
    let mut g = Gen { rng: seed_rng.fork(), next_id: 1, budget: 0 };
    let cfg = gen_cfg(&mut g.rng, ins, outs);
    g.budget = 2 + g.rng.below(11) as usize;
    let case_no = s.case();
    s.op(&cfg.line(), "ok");
    s.stats.count(&format!("gen.conn{}", cfg.conn));
    s.stats.count(if cfg.active { "gen.active_redirection" } else { "gen.moved_redirection" });
    s.stats.count(&format!("gen.keys{}", cfg.keys_in.len()));
    let mut c = Case::new(cfg.clone()).await;
    let all_keys: Vec<String> = cfg.keys_in.iter().chain(cfg.keys_out.iter()).cloned().collect();
    // schedule flavour: how eager the scheduler is to inject client ops early / to starve a connection
    let inject_w = *g.rng.pick(&[1u64, 2, 4, 8]);
    // adversarial flavours: keep RESTOREs (resp. DELs at the source) of the importing proxy in flight as long as
    // anything else can run
    let hold_restore = g.rng.chance(1, 4);
    let hold_srcdel = g.rng.chance(1, 6);
    // fault plan: up to two resets of a Redis connection of the migrating task (scan loop / UMSYNC fast path)
    let mut fault_budget: u64 = if g.rng.chance(1, 3) { 1 + g.rng.below(2) } else { 0 };
    if fault_budget > 0 { s.stats.count("gen.flavour.faults"); }
    if hold_restore { s.stats.count("gen.flavour.hold_restore"); }
    if hold_srcdel { s.stats.count("gen.flavour.hold_srcdel"); }
    let mut starve: Option<String> = None;
    let mut steps = 0;
    let mut complete = false;
    let mut pending_redirects: Vec<(char, String, String, Option<String>)> = vec![];
    loop {
        for l in c.lines.drain(..) {
            s.op(&l, "ok");
        }
        steps += 1;
        if steps > max_steps {
            s.stats.count("out.step_limit");
            break;
        }
        let pend = c.pending_conns();
        let outstanding = c.ops.iter().filter(|o| o.ret.is_none()).count();
        let s_ready = c.st[0] == "SWITCH_COMMITTED" || c.committed[0];
        let d_ready = c.st[1] == "SWITCH_COMMITTED" || c.committed[1];
        let mut can_commit: Vec<char> = vec![];
        if s_ready && d_ready {
            if !c.committed[1] { can_commit.push('D'); }
            if !c.committed[0] { can_commit.push('S'); }
        }
        if g.budget == 0 && pend.is_empty() && outstanding == 0 && c.committed[0] && c.committed[1] {
            complete = true;
            break;
        }
        let mut choices: Vec<(u64, Action)> = vec![];
        if g.budget > 0 && outstanding < 6 {
            choices.push((inject_w, Action::Tick)); // placeholder replaced below
        }
        let heads = c.pending_heads();
        let mut held: Vec<String> = vec![];
        for p in &pend {
            let head = heads.iter().find(|h| &h.0 == p).map(|h| h.1.clone()).unwrap_or_default();
            let holdable = (hold_restore && p.starts_with("Dc-rd") && head == "RESTORE")
                || (hold_srcdel && p.starts_with("Dc-rs") && head == "DEL");
            if holdable {
                held.push(p.clone());
                continue;
            }
            let w = if starve.as_ref() == Some(p) { 0 } else { 4 };
            if w > 0 {
                choices.push((w, Action::Exe { conn: p.clone() }));
            }
        }
        // held commands run only when nothing else is left (or rarely, to vary)
        if !held.is_empty() && (choices.iter().all(|c| matches!(c.1, Action::Tick)) || g.rng.chance(1, 40)) {
            for p in &held {
                choices.push((4, Action::Exe { conn: p.clone() }));
            }
        }
        for p in &can_commit {
            choices.push((3, Action::Commit { proxy: *p }));
        }
        if fault_budget > 0 {
            let resend = c.resend_heads();
            for (label, head) in &heads {
                if resend.contains(label) {
                    continue;
                }
                // UMSYNC fast-path clients are the pooled ones (index >= 1); the scan loop's own are index 0
                let w = if !label.starts_with("Sx-r") { 0 } else if label.ends_with("-0") { 1 } else { 3 };
                if w > 0 && ["PTTL", "DUMP", "RESTORE", "DEL"].contains(&head.as_str()) {
                    choices.push((w, Action::Fault { conn: label.clone() }));
                }
            }
        }
        if choices.is_empty() {
            if starve.is_some() {
                starve = None;
                continue;
            }
            choices.push((1, Action::Tick));
        }
        let total: u64 = choices.iter().map(|c| c.0).sum();
        let mut r = g.rng.below(total);
        let mut chosen = choices[0].1.clone();
        let mut was_inject = false;
        for (i, (w, a)) in choices.iter().enumerate() {
            if r < *w {
                chosen = a.clone();
                was_inject = i == 0 && g.budget > 0 && outstanding < 6;
                break;
            }
            r -= *w;
        }
        if was_inject {
            g.budget -= 1;
            let id = g.next_id;
            g.next_id += 1;
            let (proxy, cmd, key, val) = if !pending_redirects.is_empty() && g.rng.chance(2, 3) {
                pending_redirects.remove(0)
            } else {
                let key = g.rng.pick(&all_keys).clone();
                let proxy = if g.rng.chance(1, 2) { 'S' } else { 'D' };
                let cmd = match g.rng.below(20) {
                    0..=5 => "GET",
                    6..=10 => "SET",
                    11..=13 => "GETSET",
                    14..=18 => "DEL",
                    _ => "SINTERSTORE",
                };
                (proxy, cmd.to_string(), key, None)
            };
            let val = if cmd == "SET" || cmd == "GETSET" { Some(format!("v{}", id)) } else { val };
            s.stats.count(&format!("gen.op.{}", cmd));
            s.stats.count(&format!("gen.at.{}", proxy));
            chosen = Action::Inv { id, proxy, cmd, key, val };
        }
        if g.rng.chance(1, 12) {
            starve = if starve.is_some() { None } else { pend.first().cloned() };
            if starve.is_some() { s.stats.count("gen.starve_conn"); }
        }
        if let Action::Fault { .. } = &chosen {
            fault_budget -= 1;
            s.stats.count("gen.fault");
        }
        let before_rets = c.ops.iter().filter(|o| o.ret.is_some()).count();
        if !c.act(&chosen).await {
            s.stats.count("out.action_refused");
        }
        // collect MOVED replies observed in this step for a later follow-up at the other proxy
        if c.ops.iter().filter(|o| o.ret.is_some()).count() > before_rets {
            for o in c.ops.iter() {
                if let Some((t, r)) = &o.ret {
                    if r.starts_with('-') && r != "-MOVED" && *t + 3 > c.clock {
                        // the command failed: the client retries it at the same proxy
                        let words: Vec<&str> = o.text.split(' ').collect();
                        let same = words.get(2).and_then(|p| p.chars().next()).unwrap_or('D');
                        let entry = (same, words.get(3).unwrap_or(&"GET").to_string(), o.key.clone(), None);
                        if pending_redirects.len() < 4 && !pending_redirects.iter().any(|e| e.2 == entry.2 && e.1 == entry.1) {
                            pending_redirects.push(entry);
                            s.stats.count("gen.retry_after_error");
                        }
                    }
                    if r == "-MOVED" && *t == c.clock || (r == "-MOVED" && *t + 3 > c.clock) {
                        let words: Vec<&str> = o.text.split(' ').collect();
                        let other = if words.get(2) == Some(&"S") { 'D' } else { 'S' };
                        let entry = (other, words.get(3).unwrap_or(&"GET").to_string(), o.key.clone(), None);
                        if pending_redirects.len() < 4 && !pending_redirects.iter().any(|e| e.2 == entry.2 && e.1 == entry.1) {
                            pending_redirects.push(entry);
                        }
                    }
                }
            }
        }
    }
    c.fin_lines();
    for l in c.lines.drain(..) {
        s.op(&l, "ok");
    }
    s.stats.count(if complete { "out.complete" } else { "out.incomplete" });
    let kinds: std::collections::BTreeSet<String> = c.ops.iter().filter_map(|o| o.ret.as_ref().map(|r| {
        if r.1.starts_with("-MOVED") { "moved".to_string() } else if r.1.starts_with('-') { format!("err{}", &r.1[..r.1.len().min(12)]) } else { "ok".to_string() }
    })).collect();
    for k in kinds {
        s.stats.count(&format!("out.reply.{}", k));
    }
    let migstats_d = submit(&c.d, to_args(&["UMCTL", "STATS"]), 3).await;
    let migstats_s = submit(&c.s, to_args(&["UMCTL", "STATS"]), 3).await;
    let mut nontrivial = false;
    for (who, r) in [("D", &migstats_d), ("S", &migstats_s)] {
        if let Resp::Arr(Array::Arr(items)) = r {
            for it in items {
                if let Resp::Bulk(BulkStr::Str(s2)) = it {
                    let l = String::from_utf8_lossy(s2).to_string();
                    if let Some((k, v)) = l.split_once(": ") {
                        let n: u64 = v.trim().parse().unwrap_or(0);
                        if n > 0 && (k.starts_with("importing") && who == "D" || k.starts_with("migrating") && who == "S") {
                            s.stats.add(&format!("impl.{}", k), n);
                            if k == "importing_src_key_existed" || k == "migrating_active_sync_lock_failed" || k == "importing_lock_failed" || k == "importing_umsync_lock_failed" {
                                nontrivial = true;
                            }
                        }
                    }
                }
            }
        }
    }
    check_case(&c, complete, &mut s.stats, case_no);
    if nontrivial {
        let sig: Vec<String> = c.ops.iter().map(|o| o.text.clone()).collect();
        s.stats.nontrivial_case(&format!("{} {}", cfg.line(), sig.join("|")));
    }
    s.stats.sample(json!({"cfg": cfg.line(), "ops": c.ops.iter().map(|o| format!("{} -> {}", o.text, o.ret.as_ref().map(|r| r.1.clone()).unwrap_or_else(|| "?".into()))).collect::<Vec<_>>(), "complete": complete}));
}

async fn run_replay(lines: &[String], s: &mut Streams) {
    let mut i = 0;
    while i < lines.len() {
        let l = &lines[i];
        if l.starts_with('#') || l.starts_with("case ") {
            i += 1;
            continue;
        }
        if !l.starts_with("cfg ") {
            i += 1;
            continue;
        }
        let cfg = match Cfg::parse(l) { Some(c) => c, None => { i += 1; continue; } };
        let case_no = s.case();
        s.op(&cfg.line(), "ok");
        let mut c = Case::new(cfg.clone()).await;
        i += 1;
        let mut complete = false;
        while i < lines.len() && !lines[i].starts_with("cfg ") && !lines[i].starts_with("case ") {
            let w: Vec<&str> = lines[i].split(' ').collect();
            let a = match w.first().copied() {
                Some("inv") if w.len() >= 5 => Some(Action::Inv {
                    id: w[1].parse().unwrap_or(0),
                    proxy: w[2].chars().next().unwrap_or('S'),
                    cmd: w[3].to_string(),
                    key: w[4].to_string(),
                    val: w.get(5).map(|v| v.to_string()),
                }),
                Some("exe") if w.len() >= 2 => Some(Action::Exe { conn: w[1].to_string() }),
                Some("flt") if w.len() >= 2 => Some(Action::Fault { conn: w[1].to_string() }),
                // `try <conn>`: like exe, but silently nothing when the connection has no pending command
                Some("try") if w.len() >= 2 => {
                    if c.pending_conns().contains(&w[1].to_string()) { Some(Action::Exe { conn: w[1].to_string() }) } else { None }
                }
                Some("commit") if w.len() >= 2 => Some(Action::Commit { proxy: w[1].chars().next().unwrap_or('S') }),
                Some("tick") => Some(Action::Tick),
                Some("drain") => {
                    // run a fixed fair schedule to the end: the pending connection served least recently first
                    let mut last_used: BTreeMap<String, u64> = BTreeMap::new();
                    for round in 0..400u64 {
                        let mut pend = c.pending_conns();
                        pend.sort_by_key(|p| (last_used.get(p).copied().unwrap_or(0), p.clone()));
                        if let Some(p) = pend.first() {
                            last_used.insert(p.clone(), round + 1);
                        }
                        let s_ready = c.st[0] == "SWITCH_COMMITTED" || c.committed[0];
                        let d_ready = c.st[1] == "SWITCH_COMMITTED" || c.committed[1];
                        let a = if let Some(p) = pend.first() {
                            Action::Exe { conn: p.clone() }
                        } else if s_ready && d_ready && !c.committed[1] {
                            Action::Commit { proxy: 'D' }
                        } else if s_ready && d_ready && !c.committed[0] {
                            Action::Commit { proxy: 'S' }
                        } else if c.ops.iter().any(|o| o.ret.is_none()) {
                            Action::Tick
                        } else {
                            break;
                        };
                        c.act(&a).await;
                        for l in c.lines.drain(..) {
                            s.op(&l, "ok");
                        }
                    }
                    complete = c.committed[0] && c.committed[1];
                    None
                }
                Some("fin") => { complete = c.committed[0] && c.committed[1]; None }
                _ => None,
            };
            if let Some(a) = a {
                if !c.act(&a).await {
                    c.log(format!("tick # replay diverged at: {}", lines[i]));
                }
                for l in c.lines.drain(..) {
                    s.op(&l, "ok");
                }
            }
            i += 1;
        }
        let outstanding = c.ops.iter().filter(|o| o.ret.is_none()).count();
        let complete = complete && outstanding == 0 && c.pending_conns().is_empty();
        c.fin_lines();
        for l in c.lines.drain(..) {
            s.op(&l, "ok");
        }
        check_case(&c, complete, &mut s.stats, case_no);
        s.stats.count(if complete { "out.complete" } else { "out.incomplete" });
    }
}

fn main() {
    let args = parse_args();
    let mut rng = Rng::new(args.seed);
    let mut s = Streams::new(&args);
    let rt = tokio::runtime::Builder::new_current_thread()
        .enable_time()
        .start_paused(true)
        .build()
        .expect("runtime");
    let (ins, outs) = pick_keys();
    if let Some(p) = &args.replay {
        let lines = read_lines(p);
        rt.block_on(run_replay(&lines, &mut s));
    } else {
        let cases = args.extra.get("cases").and_then(|c| c.parse().ok()).unwrap_or(if args.thorough { 5000 } else { 150 });
        for _ in 0..cases {
            rt.block_on(run_generated(&mut rng, &mut s, &ins, &outs, 600));
        }
    }
    s.finish("migration", "schedules: random gate scheduler over two real proxies + fake Redis; non-trivial = a pull found the key on the source, or a key/slot lock was contended; distinct = distinct (cfg, client op list)");
}
