//! C05 (replication metadata): the real `ReplicatorManager::update_replicators` with a client
//! factory whose clients never connect.
//!
//! * sequential stream — `call MSG`: one caller at a time, all flag/epoch/host classes;
//! * concurrent stream — `spawn MSG` / `step <i>`: every caller is an OS thread; a deterministic
//!   scheduler (installed with `undermoon::common::verif_hook::set_point_hook`, thread-local ids)
//!   parks each thread at the four scheduling points of the function (`repl.updating_load`,
//!   `repl.updating_store`, `repl.read_lock`, `repl.write_lock`) and lets exactly one thread run
//!   from one point to the next per `step`.  quick = seeded random schedules, thorough additionally
//!   enumerates *all* interleavings of three callers for a set of message triples.
//!
//! The schedule is logged as op lines and replayed by the Lean driver `setrepl` with the
//! executable step function of `Um.ReplEpoch`.  Observables per op: which point the thread reached
//! or its reply, and the installed replicator metadata (`get_metadata`, sorted).
//!
//! Oracle (independent of the model), on replies + installed metadata:
//!   sequential: the property's own state machine;
//!   concurrent: the installed roles are always those of one delivered message; they change only in a
//!   step whose caller returns OK, and then force ∨ its epoch > the epoch installed before; without
//!   forced callers the installed epoch never decreases and at quiescence equals the maximum over all
//!   callers whose hosts match (so every OLD_EPOCH is justified); NOT_MY_META ⇔ foreign host; and a
//!   follow-up message with epoch installed+1 must be applied — also after a forced caller raced with
//!   another one (finding F05a, fixed in be85753; corpus/C05/setrepl.f05a.ops is its regression case).
use serde_json::json;
use std::cell::{Cell, RefCell};
use std::collections::BTreeMap;
use std::convert::TryFrom;
use std::future::Future;
use std::panic::{catch_unwind, AssertUnwindSafe};
use std::pin::Pin;
use std::sync::mpsc::{channel, Receiver, Sender};
use std::sync::Arc;
use std::thread::JoinHandle;
use std::time::Duration;
use umharness::util::*;
use undermoon::common::cluster::{ClusterName, ReplPeer};
use undermoon::common::proto::ClusterMapFlags;
use undermoon::common::track::TrackedFutureRegistry;
use undermoon::common::verif_hook::set_point_hook;
use undermoon::protocol::{
    BinSafeStr, OptionalMulti, RedisClient, RedisClientError, RedisClientFactory, RespVec,
};
use undermoon::proxy::cluster::ClusterMetaError;
use undermoon::replication::manager::ReplicatorManager;
use undermoon::replication::replicator::{MasterMeta, ReplicaMeta, ReplicatorMeta};

const ANNOUNCE_HOST: &str = "127.0.0.1";

// ------------------------------------------------------------------------------------------
// a client factory whose clients never connect (the replicator tasks park in `create_client`)
// ------------------------------------------------------------------------------------------
struct NeverClient;

impl RedisClient for NeverClient {
    fn execute<'s>(
        &'s mut self,
        _command: OptionalMulti<Vec<BinSafeStr>>,
    ) -> Pin<Box<dyn Future<Output = Result<OptionalMulti<RespVec>, RedisClientError>> + Send + 's>> {
        Box::pin(async { Err(RedisClientError::Closed) })
    }
}

struct NeverClientFactory;

impl RedisClientFactory for NeverClientFactory {
    type Client = NeverClient;

    fn create_client<'s>(
        &'s self,
        _address: String,
    ) -> Pin<Box<dyn Future<Output = Result<Self::Client, RedisClientError>> + Send + 's>> {
        Box::pin(futures::future::pending())
    }
}

type Manager = ReplicatorManager<NeverClientFactory>;

// ------------------------------------------------------------------------------------------
// messages
// ------------------------------------------------------------------------------------------
#[derive(Clone, Debug, PartialEq)]
struct Entry {
    cluster: String,
    node: String,
    peers: Vec<(String, String)>,
}

#[derive(Clone, Debug, PartialEq)]
struct Msg {
    epoch: u64,
    force: bool,
    masters: Vec<Entry>,
    replicas: Vec<Entry>,
}

impl Msg {
    fn to_op(&self) -> String {
        let mut v = vec![self.epoch.to_string(), (self.force as u8).to_string()];
        for list in [&self.masters, &self.replicas] {
            v.push(list.len().to_string());
            for e in list.iter() {
                v.push(hex(e.cluster.as_bytes()));
                v.push(hex(e.node.as_bytes()));
                v.push(e.peers.len().to_string());
                for (n, p) in &e.peers {
                    v.push(hex(n.as_bytes()));
                    v.push(hex(p.as_bytes()));
                }
            }
        }
        v.join(" ")
    }

    fn from_toks(toks: &[&str]) -> Option<Msg> {
        let mut it = toks.iter();
        let epoch: u64 = it.next()?.parse().ok()?;
        let force = match *it.next()? {
            "0" => false,
            "1" => true,
            _ => return None,
        };
        let mut lists: Vec<Vec<Entry>> = vec![];
        for _ in 0..2 {
            let n: usize = it.next()?.parse().ok()?;
            let mut l = vec![];
            for _ in 0..n {
                let cluster = String::from_utf8(unhex(it.next()?)?).ok()?;
                let node = String::from_utf8(unhex(it.next()?)?).ok()?;
                let k: usize = it.next()?.parse().ok()?;
                let mut peers = vec![];
                for _ in 0..k {
                    let a = String::from_utf8(unhex(it.next()?)?).ok()?;
                    let b = String::from_utf8(unhex(it.next()?)?).ok()?;
                    peers.push((a, b));
                }
                l.push(Entry { cluster, node, peers });
            }
            lists.push(l);
        }
        if it.next().is_some() {
            return None;
        }
        let replicas = lists.pop()?;
        let masters = lists.pop()?;
        Some(Msg { epoch, force, masters, replicas })
    }

    /// `None` when a cluster name is not a valid `ClusterName` (cannot be expressed as a
    /// `ReplicatorMeta` at all)
    fn to_meta(&self) -> Option<ReplicatorMeta> {
        let peers = |ps: &Vec<(String, String)>| -> Vec<ReplPeer> {
            ps.iter().map(|(n, p)| ReplPeer { node_address: n.clone(), proxy_address: p.clone() }).collect()
        };
        let mut masters = vec![];
        for e in &self.masters {
            masters.push(MasterMeta {
                cluster_name: ClusterName::try_from(e.cluster.as_str()).ok()?,
                master_node_address: e.node.clone(),
                replicas: peers(&e.peers),
            });
        }
        let mut replicas = vec![];
        for e in &self.replicas {
            replicas.push(ReplicaMeta {
                cluster_name: ClusterName::try_from(e.cluster.as_str()).ok()?,
                replica_node_address: e.node.clone(),
                masters: peers(&e.peers),
            });
        }
        Some(ReplicatorMeta {
            epoch: self.epoch,
            flags: ClusterMapFlags { force: self.force, compress: false },
            masters,
            replicas,
        })
    }

    /// the property's host rule, written independently of the code
    fn hosts_ok(&self) -> bool {
        self.masters.iter().chain(self.replicas.iter()).all(|e| match e.node.find(':') {
            Some(i) => &e.node[..i] == ANNOUNCE_HOST,
            None => false,
        })
    }

    /// a node listed both as master and as replica (roles of such a message are ill-defined)
    fn dual_key(&self) -> bool {
        self.masters.iter().any(|m| self.replicas.iter().any(|r| r.cluster == m.cluster && r.node == m.node))
    }

    /// the roles the message asks for: per (cluster, node) the last entry
    fn canon(&self) -> String {
        let mut by_key: BTreeMap<(String, String), String> = BTreeMap::new();
        for e in &self.masters {
            by_key.insert((e.cluster.clone(), e.node.clone()), render_rec(true, e));
        }
        for e in &self.replicas {
            by_key.insert((e.cluster.clone(), e.node.clone()), render_rec(false, e));
        }
        let mut v: Vec<String> = by_key.into_values().collect();
        v.sort();
        if v.is_empty() {
            "-".to_string()
        } else {
            v.join(";")
        }
    }
}

fn render_rec(master: bool, e: &Entry) -> String {
    let peers: Vec<String> = e.peers.iter().map(|(n, p)| format!("{}@{}", hex(n.as_bytes()), hex(p.as_bytes()))).collect();
    format!("{}:{}:{}:{}", if master { "M" } else { "R" }, hex(e.cluster.as_bytes()), hex(e.node.as_bytes()), peers.join(","))
}

fn render_installed(mgr: &Manager) -> String {
    let (ms, rs) = mgr.get_metadata();
    let mut v: Vec<String> = vec![];
    for m in ms {
        let e = Entry {
            cluster: m.cluster_name.to_string(),
            node: m.master_node_address.clone(),
            peers: m.replicas.iter().map(|p| (p.node_address.clone(), p.proxy_address.clone())).collect(),
        };
        v.push(render_rec(true, &e));
    }
    for r in rs {
        let e = Entry {
            cluster: r.cluster_name.to_string(),
            node: r.replica_node_address.clone(),
            peers: r.masters.iter().map(|p| (p.node_address.clone(), p.proxy_address.clone())).collect(),
        };
        v.push(render_rec(false, &e));
    }
    v.sort();
    if v.is_empty() {
        "-".to_string()
    } else {
        v.join(";")
    }
}

// ------------------------------------------------------------------------------------------
// deterministic scheduler
// ------------------------------------------------------------------------------------------
#[derive(Debug, Clone, PartialEq)]
enum Ev {
    At(&'static str),
    Done(String),
}

thread_local! {
    static TID: Cell<Option<usize>> = Cell::new(None);
    static GO: RefCell<Option<Receiver<()>>> = RefCell::new(None);
    static EVTX: RefCell<Option<Sender<(usize, Ev)>>> = RefCell::new(None);
}

fn install_hook() {
    set_point_hook(Some(Arc::new(|name: &'static str| {
        let tid = TID.with(|t| t.get());
        if let Some(tid) = tid {
            EVTX.with(|e| {
                if let Some(tx) = e.borrow().as_ref() {
                    let _ = tx.send((tid, Ev::At(name)));
                }
            });
            GO.with(|g| {
                if let Some(rx) = g.borrow().as_ref() {
                    let _ = rx.recv();
                }
            });
        }
    })));
}

fn reply_text(r: &Result<(), ClusterMetaError>) -> String {
    match r {
        Ok(()) => "OK".to_string(),
        Err(ClusterMetaError::OldEpoch) => undermoon::common::response::OLD_EPOCH_REPLY.to_string(),
        Err(ClusterMetaError::NotMyMeta) => undermoon::common::response::ERR_NOT_MY_META.to_string(),
        Err(ClusterMetaError::TryAgain) => undermoon::common::response::TRY_AGAIN_REPLY.to_string(),
    }
}

struct ThreadRec {
    /// pool worker running this caller (`None` = executed inline on the controller thread)
    worker: Option<usize>,
    state: Ev,
    msg: Msg,
}

struct Job {
    tid: usize,
    mgr: Arc<Manager>,
    meta: Option<ReplicatorMeta>,
    ev_tx: Sender<(usize, Ev)>,
}

struct Worker {
    job_tx: Sender<Job>,
    go_tx: Sender<()>,
    busy: bool,
    _join: JoinHandle<()>,
}

/// OS threads that play the callers; a worker runs one `update_replicators` call at a time and is
/// reused by later callers / cases (creating and destroying ~10^5 threads dominated the run time)
#[derive(Default)]
struct Pool {
    workers: Vec<Worker>,
}

impl Pool {
    fn acquire(&mut self, handle: &tokio::runtime::Handle) -> usize {
        if let Some(i) = self.workers.iter().position(|w| !w.busy) {
            self.workers[i].busy = true;
            return i;
        }
        let (job_tx, job_rx) = channel::<Job>();
        let (go_tx, go_rx) = channel::<()>();
        let handle = handle.clone();
        let join = std::thread::spawn(move || {
            GO.with(|g| *g.borrow_mut() = Some(go_rx));
            let _guard = handle.enter();
            while let Ok(job) = job_rx.recv() {
                let Job { tid, mgr, meta, ev_tx } = job;
                EVTX.with(|e| *e.borrow_mut() = Some(ev_tx.clone()));
                TID.with(|t| t.set(Some(tid)));
                let out = match meta {
                    None => "INVALID-CLUSTER-NAME".to_string(),
                    Some(meta) => {
                        match catch_unwind(AssertUnwindSafe(|| mgr.update_replicators(meta, ANNOUNCE_HOST.to_string()))) {
                            Ok(r) => reply_text(&r),
                            Err(_) => "PANIC".to_string(),
                        }
                    }
                };
                TID.with(|t| t.set(None));
                EVTX.with(|e| *e.borrow_mut() = None);
                drop(mgr);
                let _ = ev_tx.send((tid, Ev::Done(out)));
            }
        });
        self.workers.push(Worker { job_tx, go_tx, busy: true, _join: join });
        self.workers.len() - 1
    }
}

struct World {
    handle: tokio::runtime::Handle,
    mgr: Arc<Manager>,
    ev_tx: Sender<(usize, Ev)>,
    ev_rx: Receiver<(usize, Ev)>,
    threads: Vec<ThreadRec>,
    pool: Pool,
}

impl World {
    fn new(handle: tokio::runtime::Handle, pool: Pool) -> Self {
        let (ev_tx, ev_rx) = channel();
        let mgr = Arc::new(ReplicatorManager::new(Arc::new(NeverClientFactory), Arc::new(TrackedFutureRegistry::default())));
        World { handle, mgr, ev_tx, ev_rx, threads: vec![], pool }
    }

    fn wait_for(&mut self, tid: usize) -> Ev {
        // spin briefly (the running thread usually reaches its next point within microseconds)
        for _ in 0..2_000 {
            if let Ok((t, ev)) = self.ev_rx.try_recv() {
                return if t == tid { ev } else { Ev::Done(format!("SCHEDULER-ERROR event from t{} {:?}", t, ev)) };
            }
            std::hint::spin_loop();
        }
        match self.ev_rx.recv_timeout(Duration::from_secs(60)) {
            Ok((t, ev)) if t == tid => ev,
            Ok((t, ev)) => Ev::Done(format!("SCHEDULER-ERROR event from t{} {:?}", t, ev)),
            Err(_) => Ev::Done("HANG".to_string()),
        }
    }

    fn record(&mut self, tid: usize, ev: Ev) {
        if matches!(ev, Ev::Done(_)) {
            if let Some(w) = self.threads[tid].worker {
                if ev != Ev::Done("HANG".to_string()) {
                    self.pool.workers[w].busy = false;
                }
            }
        }
        self.threads[tid].state = ev;
    }

    /// a thread enters `update_replicators`; returns when it is parked at its first point or has returned
    fn spawn(&mut self, msg: &Msg) -> usize {
        let tid = self.threads.len();
        let w = self.pool.acquire(&self.handle);
        let job = Job { tid, mgr: self.mgr.clone(), meta: msg.to_meta(), ev_tx: self.ev_tx.clone() };
        let _ = self.pool.workers[w].job_tx.send(job);
        self.threads.push(ThreadRec { worker: Some(w), state: Ev::At("?"), msg: msg.clone() });
        let ev = self.wait_for(tid);
        self.record(tid, ev);
        tid
    }

    /// a sequential call, executed on the controller thread itself (the hook ignores threads without
    /// an id): nothing else can move in between
    fn call_inline(&mut self, msg: &Msg) -> usize {
        let tid = self.threads.len();
        let _guard = self.handle.enter();
        let out = match msg.to_meta() {
            None => "INVALID-CLUSTER-NAME".to_string(),
            Some(meta) => {
                let mgr = self.mgr.clone();
                match catch_unwind(AssertUnwindSafe(|| mgr.update_replicators(meta, ANNOUNCE_HOST.to_string()))) {
                    Ok(r) => reply_text(&r),
                    Err(_) => "PANIC".to_string(),
                }
            }
        };
        self.threads.push(ThreadRec { worker: None, state: Ev::Done(out), msg: msg.clone() });
        tid
    }

    /// let thread `tid` run from its point to the next one (or to its return)
    fn step(&mut self, tid: usize) -> bool {
        match self.threads.get(tid) {
            Some(t) if matches!(t.state, Ev::At(_)) => {}
            _ => return false,
        }
        let w = match self.threads[tid].worker {
            Some(w) => w,
            None => return false,
        };
        let _ = self.pool.workers[w].go_tx.send(());
        let ev = self.wait_for(tid);
        self.record(tid, ev);
        true
    }

    fn parked(&self) -> Vec<usize> {
        (0..self.threads.len()).filter(|i| matches!(self.threads[*i].state, Ev::At(_))).collect()
    }

    fn observe(&self, tid: usize) -> String {
        let st = match &self.threads[tid].state {
            Ev::At(p) => format!("at {}", p),
            Ev::Done(r) => format!("done {}", r),
        };
        format!("t{} {} {}", tid, st, render_installed(&self.mgr))
    }

    /// release whatever is still parked (replay files may stop anywhere)
    fn finish(&mut self) {
        for tid in 0..self.threads.len() {
            let mut guard = 0;
            while matches!(self.threads[tid].state, Ev::At(_)) && guard < 8 {
                self.step(tid);
                guard += 1;
            }
        }
    }
}

// ------------------------------------------------------------------------------------------
// runner + oracle
// ------------------------------------------------------------------------------------------
struct Case {
    w: World,
    ops: Vec<String>,
    /// oracle: messages delivered so far, by thread id
    msgs: Vec<Msg>,
    /// oracle, sequential state machine: installed epoch / roles (`None` = not comparable: dual key)
    exp_epoch: u64,
    exp_roles: Option<String>,
    /// oracle, concurrent episode bookkeeping
    ep_start: usize,
    ep_base_epoch: u64,
    ep_forced_overlap: bool,
    ep_has_force: bool,
    ep_comparable: bool,
    in_episode: bool,
    /// a forced caller has been in flight together with another caller (the situation of the fixed
    /// finding F05a; only counted now)
    tainted: bool,
    failed: bool,
}

struct Runner {
    s: Streams,
    rt: tokio::runtime::Runtime,
    pool: Pool,
}

impl Runner {
    fn new_case(&mut self) -> Case {
        self.s.case();
        let op = format!("host {}", hex(ANNOUNCE_HOST.as_bytes()));
        self.s.op(&op, "ok");
        Case {
            w: World::new(self.rt.handle().clone(), std::mem::take(&mut self.pool)),
            ops: vec![op],
            msgs: vec![],
            exp_epoch: 0,
            exp_roles: Some("-".to_string()),
            ep_start: 0,
            ep_base_epoch: 0,
            ep_forced_overlap: false,
            ep_has_force: false,
            ep_comparable: true,
            in_episode: false,
            tainted: false,
            failed: false,
        }
    }

    fn fail(&mut self, c: &mut Case, what: String, finding: &str) {
        let n = self.s.cases;
        c.failed = true;
        self.s.stats.oracle_failure(n, &what, finding, c.ops.clone());
    }

    /// installed epoch as the oracle reads it off the installed roles (concurrent episodes use
    /// messages with pairwise distinct roles)
    fn epoch_of_roles(c: &Case, roles: &str) -> Option<(u64, Option<usize>)> {
        if Some(roles.to_string()) == c.exp_roles_at_ep_start() {
            // still (or again) the roles installed before the episode: only distinguishable when no
            // episode message has the same roles — guaranteed by the generator's unique tags
            return Some((c.ep_base_epoch, None));
        }
        for i in c.ep_start..c.msgs.len() {
            if c.msgs[i].canon() == roles {
                return Some((c.msgs[i].epoch, Some(i)));
            }
        }
        None
    }

    /// sequential call (a caller that runs from entry to return with nobody else moving)
    fn call(&mut self, c: &mut Case, m: &Msg, class: &str) {
        if c.in_episode {
            if c.w.parked().is_empty() {
                self.episode_quiescent(c);
            } else {
                // other callers are parked: this one is a member of the episode that happens to
                // perform all its steps at once
                self.call_in_episode(c, m, class);
                return;
            }
        }
        let op = format!("call {}", m.to_op());
        let tid = c.w.call_inline(m);
        let obs = c.w.observe(tid);
        self.s.op(&op, &obs);
        c.ops.push(op);
        c.msgs.push(m.clone());
        self.s.stats.count(&format!("gen.seq.{}", class));
        // ---- oracle: the property's own state machine ----
        let reply = match &c.w.threads[tid].state {
            Ev::Done(r) => r.clone(),
            Ev::At(p) => format!("STUCK at {}", p),
        };
        let roles = render_installed(&c.w.mgr);
        let epoch_before = c.exp_epoch;
        let expect = if !m.hosts_ok() {
            "ERR_NOT_MY_META"
        } else if m.force || m.epoch > c.exp_epoch {
            "OK"
        } else {
            "OLD_EPOCH"
        };
        self.s.stats.count(&format!("out.seq.{}", expect));
        if expect == "OK" {
            if m.force && m.epoch <= c.exp_epoch {
                self.s.stats.count("out.seq.forced_not_newer");
            }
            c.exp_epoch = m.epoch;
            c.exp_roles = if m.dual_key() { None } else { Some(m.canon()) };
        }
        if reply != expect {
            let finding = "";
            let what = format!(
                "sequential SETREPL epoch {} (force={}) answered `{}`, the property prescribes `{}` (epoch {} was installed)",
                m.epoch, m.force, reply, expect, epoch_before
            );
            // the property's state machine has advanced; the implementation did not: resynchronise the
            // oracle on what is observably installed so that one defect is reported once
            self.fail(c, what, finding);
            if expect == "OK" {
                // not applied: fall back to what was installed before
                c.exp_roles = Some(roles.clone());
                c.exp_epoch = Self::epoch_of_roles_any(c, &roles).unwrap_or(c.exp_epoch);
            }
        } else if let Some(r) = &c.exp_roles {
            if *r != roles {
                let what = format!("installed roles `{}` are not those of the accepted message carrying epoch {} (`{}`)", roles, c.exp_epoch, r);
                self.fail(c, what, "");
            }
        }
    }

    fn epoch_of_roles_any(c: &Case, roles: &str) -> Option<u64> {
        for i in (0..c.msgs.len()).rev() {
            if c.msgs[i].canon() == roles {
                return Some(c.msgs[i].epoch);
            }
        }
        None
    }

    fn begin_episode(&mut self, c: &mut Case) {
        c.in_episode = true;
        c.ep_start = c.msgs.len();
        c.ep_base_epoch = c.exp_epoch;
        c.ep_forced_overlap = false;
        c.ep_has_force = false;
        c.ep_comparable = c.exp_roles.is_some();
    }

    fn spawn(&mut self, c: &mut Case, m: &Msg, class: &str) -> usize {
        if !c.in_episode {
            self.begin_episode(c);
        }
        let op = format!("spawn {}", m.to_op());
        let tid = c.w.spawn(m);
        let obs = c.w.observe(tid);
        self.s.op(&op, &obs);
        c.ops.push(op);
        c.msgs.push(m.clone());
        self.s.stats.count(&format!("gen.conc.{}", class));
        if m.force {
            c.ep_has_force = true;
        }
        if m.dual_key() {
            c.ep_comparable = false;
        }
        self.note_overlap(c);
        // a caller that returns before its first point must have been refused for its hosts
        if let Ev::Done(r) = &c.w.threads[tid].state {
            if r != "ERR_NOT_MY_META" || m.hosts_ok() {
                let what = format!("caller t{} returned `{}` before its first shared access (hosts_ok={})", tid, r, m.hosts_ok());
                self.fail(c, what, "");
            }
        } else if !m.hosts_ok() {
            let what = format!("caller t{} with a foreign host passed validation", tid);
            self.fail(c, what, "");
        }
        tid
    }

    fn note_overlap(&mut self, c: &mut Case) {
        let live: Vec<usize> = c.w.parked();
        if live.len() >= 2 && live.iter().any(|i| c.w.threads[*i].msg.force) {
            c.ep_forced_overlap = true;
            c.tainted = true;
        }
    }

    fn step(&mut self, c: &mut Case, tid: usize) {
        let op = format!("step {}", tid);
        let before_roles = render_installed(&c.w.mgr);
        let ok = c.w.step(tid);
        if !ok {
            self.s.op(&op, "bad-step");
            c.ops.push(op);
            return;
        }
        let obs = c.w.observe(tid);
        self.s.op(&op, &obs);
        c.ops.push(op);
        self.s.stats.count("steps");
        self.check_step(c, tid, &before_roles);
    }

    fn call_in_episode(&mut self, c: &mut Case, m: &Msg, class: &str) {
        let op = format!("call {}", m.to_op());
        let before_roles = render_installed(&c.w.mgr);
        if m.force || c.w.parked().iter().any(|i| c.w.threads[*i].msg.force) {
            c.ep_forced_overlap = true;
            c.tainted = true;
        }
        let tid = c.w.call_inline(m);
        let obs = c.w.observe(tid);
        self.s.op(&op, &obs);
        c.ops.push(op);
        c.msgs.push(m.clone());
        self.s.stats.count(&format!("gen.conc.inline.{}", class));
        if m.force {
            c.ep_has_force = true;
        }
        if m.dual_key() {
            c.ep_comparable = false;
        }
        self.check_step(c, tid, &before_roles);
    }

    /// oracle, per atomic step (or per inline call inside an episode)
    fn check_step(&mut self, c: &mut Case, tid: usize, before_roles: &str) {
        let after_roles = render_installed(&c.w.mgr);
        let m = c.w.threads[tid].msg.clone();
        let done = match &c.w.threads[tid].state {
            Ev::Done(r) => Some(r.clone()),
            _ => None,
        };
        if let Some(r) = &done {
            self.s.stats.count(&format!("out.conc.{}", r));
        }
        if !c.ep_comparable {
            return;
        }
        let before = Self::epoch_of_roles(c, before_roles);
        let after = Self::epoch_of_roles(c, &after_roles);
        let (be, ae) = match (before, after) {
            (Some(b), Some(a)) => (b, a),
            _ => {
                let what = format!("installed roles `{}` correspond to no delivered message", after_roles);
                self.fail(c, what, "");
                return;
            }
        };
        if done.as_deref() == Some("OK") {
            if ae.1 != Some(tid) && after_roles != m.canon() {
                let what = format!("t{} answered OK but the installed roles are `{}`", tid, after_roles);
                self.fail(c, what, "");
            }
            if !(m.force || m.epoch > be.0) {
                let what = format!("t{} (epoch {}, not forced) was applied over installed epoch {}", tid, m.epoch, be.0);
                self.fail(c, what, "");
            }
        } else if before_roles != after_roles {
            let what = format!("installed roles changed in a step of t{} that did not return OK", tid);
            self.fail(c, what, "");
        }
        if ae.0 < be.0 && !(m.force && done.as_deref() == Some("OK")) {
            let what = format!("installed epoch decreased {} -> {} without a forced message", be.0, ae.0);
            self.fail(c, what, "");
        }
        if let Some(r) = &done {
            if r == "OLD_EPOCH" && m.force {
                let what = format!("forced caller t{} answered OLD_EPOCH", tid);
                self.fail(c, what, "");
            }
            if r == "ERR_NOT_MY_META" && m.hosts_ok() || r != "ERR_NOT_MY_META" && !m.hosts_ok() {
                let what = format!("caller t{} returned `{}` (hosts_ok={})", tid, r, m.hosts_ok());
                self.fail(c, what, "");
            }
        }
    }

    /// generation mode: run whatever is still parked to its end (logged), evaluate the
    /// end-of-episode clauses, then send two probes
    fn finish_episode(&mut self, c: &mut Case) {
        loop {
            let p = c.w.parked();
            match p.first() {
                Some(t) => self.step(c, *t),
                None => break,
            }
        }
        if !c.in_episode {
            return;
        }
        self.episode_quiescent(c);
        let installed = c.exp_epoch;
        if c.exp_roles.is_some() && installed < u64::MAX - 1 {
            // installed+1 must be applied, the same epoch again must be refused
            let tag = format!("probe{}", c.msgs.len());
            let probe = Msg {
                epoch: installed + 1,
                force: false,
                masters: vec![Entry { cluster: "c1".to_string(), node: format!("{}:6000", ANNOUNCE_HOST), peers: vec![(tag.clone(), tag)] }],
                replicas: vec![],
            };
            self.call(c, &probe, "probe_next_epoch");
            let mut again = probe.clone();
            again.masters[0].peers[0].0.push('x');
            self.call(c, &again, "probe_same_epoch");
        }
    }

    /// quiescence of a concurrent episode (every caller has returned): the oracle's end-of-episode
    /// clauses; hands the installed pair over to the sequential oracle
    fn episode_quiescent(&mut self, c: &mut Case) {
        c.in_episode = false;
        let roles = render_installed(&c.w.mgr);
        if !c.ep_comparable {
            c.exp_roles = None;
            // the installed epoch is not observable here; keep the sequential oracle out of it
            c.exp_epoch = c.msgs[c.ep_start..].iter().map(|m| m.epoch).chain(std::iter::once(c.exp_epoch)).max().unwrap_or(0);
            return;
        }
        let installed = match Self::epoch_of_roles(c, &roles) {
            Some((e, _)) => e,
            None => {
                let what = format!("installed roles `{}` correspond to no delivered message", roles);
                self.fail(c, what, "");
                return;
            }
        };
        if !c.ep_has_force {
            let want = c.msgs[c.ep_start..]
                .iter()
                .filter(|m| m.hosts_ok())
                .map(|m| m.epoch)
                .chain(std::iter::once(c.ep_base_epoch))
                .max()
                .unwrap_or(0);
            if installed != want {
                let what = format!("at quiescence epoch {} is installed, the maximum delivered epoch is {}", installed, want);
                self.fail(c, what, "");
            }
            for i in c.ep_start..c.msgs.len() {
                let m = &c.msgs[i];
                if let Ev::Done(r) = &c.w.threads[i].state {
                    if r == "OLD_EPOCH" && m.epoch > installed {
                        let what = format!("t{} (epoch {}) answered OLD_EPOCH but only epoch {} is installed at quiescence", i, m.epoch, installed);
                        self.fail(c, what, "");
                    }
                }
            }
        }
        c.exp_epoch = installed;
        c.exp_roles = Some(roles);
        self.s.stats.count(if c.ep_has_force { "episodes.with_force" } else { "episodes.non_forced" });
        if c.ep_forced_overlap {
            self.s.stats.count("episodes.forced_overlap");
        }
    }

    fn close_case(&mut self, mut c: Case, nontrivial: bool) {
        if c.in_episode && c.w.parked().is_empty() {
            self.episode_quiescent(&mut c);
        }
        c.w.finish();
        self.pool = std::mem::take(&mut c.w.pool);
        if nontrivial && !c.failed {
            let text = c.ops.join("\n");
            self.s.stats.nontrivial_case(&text);
        }
        if self.s.stats.samples.len() < 4 && c.ops.len() > 6 {
            self.s.stats.sample(json!({"case": self.s.cases, "ops": c.ops.iter().take(12).collect::<Vec<_>>()}));
        }
    }
}

// ------------------------------------------------------------------------------------------
// generators
// ------------------------------------------------------------------------------------------
fn entry(rng: &mut Rng, tag: &str, host_class: u64, node_port: u64) -> Entry {
    let host = match host_class {
        0 => "10.0.0.9".to_string(),
        1 => "127.0.0.10".to_string(),
        2 => "nocolon".to_string(),
        _ => ANNOUNCE_HOST.to_string(),
    };
    let node = if host_class == 2 { host } else { format!("{}:{}", host, node_port) };
    let npeers = rng.below(3) as usize;
    let mut peers = vec![(format!("tag-{}", tag), format!("10.0.1.1:{}", 5299))];
    for i in 0..npeers {
        peers.push((format!("10.0.1.{}:{}", i + 2, 7000 + i), format!("10.0.1.{}:5299", i + 2)));
    }
    Entry { cluster: (*rng.pick(&["c1", "c1", "c2"])).to_string(), node, peers }
}

/// a message with a unique tag in its peers (its roles identify it)
fn gen_msg(rng: &mut Rng, tag: &str, epoch: u64, force: bool, allow_foreign: bool) -> (Msg, &'static str) {
    let hc = if allow_foreign && rng.chance(1, 10) { rng.below(3) } else { 9 };
    let mut masters = vec![];
    let mut replicas = vec![];
    let n = 1 + rng.below(2);
    for i in 0..n {
        let e = entry(rng, &format!("{}-{}", tag, i), if i == 0 { hc } else { 9 }, 6000 + i);
        if rng.chance(1, 2) {
            masters.push(e);
        } else {
            replicas.push(e);
        }
    }
    let class = match hc {
        0 => "foreign_host",
        1 => "host_prefix_only",
        2 => "bad_address",
        _ => "own_host",
    };
    (Msg { epoch, force, masters, replicas }, class)
}

fn gen_epoch(rng: &mut Rng, cur: u64) -> (u64, &'static str) {
    match rng.below(16) {
        0..=6 => (cur.saturating_add(1 + rng.below(3)), "higher"),
        7..=9 => (cur, "equal"),
        10 | 11 => (cur.saturating_sub(1 + rng.below(3)), "lower"),
        12 => (0, "zero"),
        13 => (rng.below(10), "small_random"),
        14 => (cur.saturating_add(1000), "jump"),
        _ => (u64::MAX - rng.below(2), "max"),
    }
}

fn sequential_case(r: &mut Runner, rng: &mut Rng, len: usize) {
    let mut c = r.new_case();
    let mut sent: Vec<Msg> = vec![];
    for i in 0..len {
        if !sent.is_empty() && rng.chance(1, 8) {
            let m = rng.pick(&sent).clone();
            r.call(&mut c, &m, "replayed_duplicate");
            continue;
        }
        let (epoch, ec) = gen_epoch(rng, c.exp_epoch);
        let epoch = if ec == "max" && !rng.chance(1, 4) { c.exp_epoch.saturating_add(1) } else { epoch };
        let force = rng.chance(1, 6);
        let (mut m, hc) = gen_msg(rng, &format!("s{}", i), epoch, force, true);
        let mut class = format!("{}.{}{}", hc, ec, if force { ".force" } else { "" });
        match rng.below(14) {
            0 => {
                m.masters.clear();
                m.replicas.clear();
                class = format!("empty.{}", ec);
            }
            1 => {
                // the same node as master and as replica
                if let Some(e) = m.masters.first().cloned().or_else(|| m.replicas.first().cloned()) {
                    let mut e2 = e.clone();
                    e2.peers.push(("dual".to_string(), "dual".to_string()));
                    m.masters = vec![e];
                    m.replicas = vec![e2];
                    class = format!("dual_key.{}", ec);
                }
            }
            2 => {
                // the same key twice in one role: the last one wins
                if let Some(e) = m.masters.first().cloned() {
                    let mut e2 = e.clone();
                    e2.peers.push(("second".to_string(), "second".to_string()));
                    m.masters.push(e2);
                    class = format!("repeated_key.{}", ec);
                }
            }
            3 => {
                // same roles as what is installed, new epoch (reuse path)
                if let Some(prev) = sent.last() {
                    m.masters = prev.masters.clone();
                    m.replicas = prev.replicas.clone();
                    class = format!("same_roles.{}", ec);
                }
            }
            _ => {}
        }
        r.call(&mut c, &m, &class);
        sent.push(m);
    }
    let nt = c.msgs.len() >= 4;
    r.close_case(c, nt);
}

/// one concurrent episode with a random schedule
fn concurrent_case(r: &mut Runner, rng: &mut Rng) {
    let mut c = r.new_case();
    // optional sequential prefix to move the base epoch
    let pre = rng.below(3);
    for i in 0..pre {
        let e = c.exp_epoch + 1 + rng.below(3);
        let (m, hc) = gen_msg(rng, &format!("p{}", i), e, false, false);
        r.call(&mut c, &m, &format!("prefix.{}", hc));
    }
    let episodes = 1 + rng.below(2);
    for ep in 0..episodes {
        let k = 2 + rng.below(3) as usize; // 2..4 callers
        let base = c.exp_epoch;
        let with_force = rng.chance(1, 4);
        let mut pending: Vec<(Msg, String)> = vec![];
        for i in 0..k {
            let epoch = match rng.below(8) {
                0 => base.saturating_sub(1),
                1 => base,
                2 | 3 => base + 1,
                4 | 5 => base + 2,
                6 => base + 3,
                _ => base + 1 + rng.below(4),
            };
            let force = with_force && rng.chance(1, 2);
            let (m, hc) = gen_msg(rng, &format!("e{}c{}", ep, i), epoch, force, true);
            let class = format!("{}{}", hc, if force { ".force" } else { "" });
            pending.push((m, class));
        }
        pending.reverse();
        loop {
            let parked = c.w.parked();
            let can_spawn = !pending.is_empty();
            if parked.is_empty() && !can_spawn {
                break;
            }
            let do_spawn = can_spawn && (parked.is_empty() || rng.chance(1, 3));
            if do_spawn {
                let (m, class) = pending.pop().expect("pending");
                r.spawn(&mut c, &m, &class);
            } else {
                let t = *rng.pick(&parked);
                r.step(&mut c, t);
                r.note_overlap(&mut c);
            }
        }
        r.finish_episode(&mut c);
    }
    r.close_case(c, true);
}

/// all interleavings of the given callers (stateless depth-first enumeration: every schedule is
/// executed from scratch against a fresh manager)
fn exhaustive(r: &mut Runner, base_calls: &[Msg], callers: &[Msg], label: &str) -> u64 {
    let mut stack: Vec<(Vec<usize>, usize)> = vec![];
    let mut schedules = 0u64;
    loop {
        let mut c = r.new_case();
        for m in base_calls {
            r.call(&mut c, m, "exh.base");
        }
        for m in callers {
            r.spawn(&mut c, m, &format!("exh.{}", label));
        }
        let mut depth = 0;
        loop {
            let parked = c.w.parked();
            if parked.is_empty() {
                break;
            }
            let choice = if depth < stack.len() {
                stack[depth].1
            } else {
                stack.push((parked.clone(), 0));
                0
            };
            let t = parked[choice.min(parked.len() - 1)];
            r.step(&mut c, t);
            r.note_overlap(&mut c);
            depth += 1;
        }
        stack.truncate(depth);
        r.finish_episode(&mut c);
        r.close_case(c, true);
        schedules += 1;
        // next schedule in depth-first order
        loop {
            match stack.pop() {
                None => return schedules,
                Some((en, ch)) => {
                    if ch + 1 < en.len() {
                        stack.push((en, ch + 1));
                        break;
                    }
                }
            }
        }
    }
}

fn simple_msg(tag: &str, epoch: u64, force: bool, master: bool) -> Msg {
    let e = Entry {
        cluster: "c1".to_string(),
        node: format!("{}:6000", ANNOUNCE_HOST),
        peers: vec![(format!("tag-{}", tag), "10.0.1.1:5299".to_string())],
    };
    if master {
        Msg { epoch, force, masters: vec![e], replicas: vec![] }
    } else {
        Msg { epoch, force, masters: vec![], replicas: vec![e] }
    }
}

fn replay(r: &mut Runner, lines: &[String]) {
    let mut cur: Option<Case> = None;
    for l in lines {
        if l.starts_with('#') {
            continue;
        }
        let toks: Vec<&str> = l.split(' ').collect();
        match toks[0] {
            "case" => {
                if let Some(c) = cur.take() {
                    r.close_case(c, false);
                }
                cur = Some(r.new_case());
            }
            "host" => {
                if cur.is_none() {
                    cur = Some(r.new_case());
                }
            }
            "spawn" | "call" | "step" => {
                if cur.is_none() {
                    cur = Some(r.new_case());
                }
                let c = cur.as_mut().expect("case");
                match toks[0] {
                    "spawn" => {
                        if let Some(m) = Msg::from_toks(&toks[1..]) {
                            r.spawn(c, &m, "replay");
                        }
                    }
                    "call" => {
                        if let Some(m) = Msg::from_toks(&toks[1..]) {
                            r.call(c, &m, "replay");
                        }
                    }
                    _ => {
                        if let Some(t) = toks.get(1).and_then(|t| t.parse::<usize>().ok()) {
                            r.step(c, t);
                            r.note_overlap(c);
                        }
                    }
                }
            }
            _ => {}
        }
    }
    if let Some(c) = cur.take() {
        r.close_case(c, false);
    }
}

impl Case {
    fn exp_roles_at_ep_start(&self) -> Option<String> {
        // roles installed when the episode began = roles of the last sequentially accepted message;
        // recorded in `exp_roles` until `end_episode` overwrites it
        self.exp_roles.clone()
    }
}

fn main() {
    let args = parse_args();
    install_hook();
    let mut rng = Rng::new(args.seed);
    let rt = tokio::runtime::Builder::new_multi_thread().worker_threads(1).enable_all().build().expect("runtime");
    let mut r = Runner { s: Streams::new(&args), rt, pool: Pool::default() };
    if let Some(p) = &args.replay {
        let lines = read_lines(p);
        replay(&mut r, &lines);
    } else {
        let (seq_cases, seq_len, conc_cases) = if args.thorough { (400, 40, 6000) } else { (30, 25, 250) };
        for _ in 0..seq_cases {
            let l = seq_len / 2 + rng.below(seq_len as u64) as usize;
            sequential_case(&mut r, &mut rng, l);
        }
        for _ in 0..conc_cases {
            concurrent_case(&mut r, &mut rng);
        }
        // exhaustive interleavings: two callers always, three callers in the thorough tier
        let base = vec![simple_msg("base", 5, false, true)];
        let pairs: Vec<(u64, bool, u64, bool)> = vec![(6, false, 7, false), (7, false, 7, false), (5, false, 6, false), (3, true, 6, false)];
        let mut total = 0;
        for (i, (e1, f1, e2, f2)) in pairs.iter().enumerate() {
            let callers = vec![simple_msg(&format!("x{}a", i), *e1, *f1, true), simple_msg(&format!("x{}b", i), *e2, *f2, false)];
            total += exhaustive(&mut r, &base, &callers, "pair");
        }
        if args.thorough {
            let triples: Vec<[(u64, bool); 3]> = vec![
                [(6, false), (7, false), (8, false)],
                [(8, false), (7, false), (6, false)],
                [(6, false), (6, false), (7, false)],
                [(5, false), (6, false), (4, false)],
                [(3, true), (6, false), (7, false)],
            ];
            for (i, t) in triples.iter().enumerate() {
                let callers: Vec<Msg> = t.iter().enumerate().map(|(j, (e, f))| simple_msg(&format!("y{}{}", i, j), *e, *f, j != 1)).collect();
                total += exhaustive(&mut r, &base, &callers, "triple");
            }
        }
        r.s.stats.add("exhaustive.schedules", total);
    }
    r.s.finish(
        "setrepl",
        "sequential: SETREPL streams (epoch class x force x own/foreign/prefix/malformed host x empty/dual-key/repeated-key/same-roles/duplicates); concurrent: 2-4 OS threads per episode parked at the four scheduling points, seeded random schedules, plus all interleavings of fixed pairs (thorough: triples); non-trivial = every concurrent schedule, and sequential cases with >= 4 messages; distinct = distinct op sequences (schedules)",
    );
}
