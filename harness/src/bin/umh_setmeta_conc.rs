//! C05 (cluster metadata, concurrent): several OS threads send `UMCTL SETCLUSTER` to one real proxy
//! (`ForwardHandler` → `MetaManager::set_meta`) at the same time.  A deterministic scheduler (installed
//! with `verif_hook::set_point_hook`, thread-local ids) parks every thread at the six scheduling
//! points of `set_meta` (hook H4: `setmeta.check_hosts`, `setmeta.lock`, `setmeta.epoch_test`,
//! `setmeta.map_store`, `setmeta.epoch_store`, `setmeta.unlock`) and lets exactly one thread run from
//! one point to the next per `step`.  A thread waiting at `setmeta.lock` while another thread is
//! inside the locked section is not released (it would block in the mutex): `bad-step`.
//!
//! After every op the controller reads `UMCTL GETEPOCH` and the routing fingerprint of the proxy
//! (both lock-free), so the intermediate states of a critical section are observed too.  The
//! schedule is replayed by the Lean driver `setmeta_conc` with `Um.SetMetaConc.step?`.
//! quick = seeded random schedules of 2-3 callers + all interleavings of two callers for
//! {lo<hi, hi<lo, equal, forced lower, foreign host}; thorough adds all interleavings of three callers.
//!
//! Oracle (independent of the model): linearizability at lock acquisition — replay the property's own
//! sequential state machine over the callers in the order in which they took the lock; every reply,
//! the final `GETEPOCH` and the final routing fingerprint must be those of that sequential run; no `OK`
//! for a message that was neither forced nor newer than the epoch installed when it took the lock;
//! the reported epoch decreases only in a step of a forced caller.
use arc_swap::ArcSwap;
use futures::channel::mpsc;
use futures::{Future, SinkExt, StreamExt, TryStreamExt};
use serde_json::json;
use std::cell::{Cell, RefCell};
use std::panic::{catch_unwind, AssertUnwindSafe};
use std::sync::mpsc::{channel, Receiver, Sender};
use std::thread::JoinHandle;
use undermoon::common::verif_hook::set_point_hook;
use std::collections::BTreeMap;
use std::net::SocketAddr;
use std::num::NonZeroUsize;
use std::pin::Pin;
use std::sync::atomic::{AtomicBool, AtomicI64, AtomicU64};
use std::sync::{Arc, Mutex};
use std::time::Duration;
use umharness::util::*;
use undermoon::common::batch::BatchStrategy;
use undermoon::common::proto::{ProxyClusterMeta, SET_CLUSTER_API_VERSION};
use undermoon::common::track::TrackedFutureRegistry;
use undermoon::common::utils::{generate_slot, SLOT_NUM};
use undermoon::protocol::{
    Array, BinSafeStr, BulkStr, OptionalMulti, RedisClient, RedisClientError, RedisClientFactory, Resp,
    RespPacket, RespVec,
};
use undermoon::proxy::backend::{BackendError, ConnFactory, ConnSink, ConnStream, CreateConnResult};
use undermoon::proxy::command::{new_command_pair, Command};
use undermoon::proxy::executor::ForwardHandler;
use undermoon::proxy::manager::MetaMap;
use undermoon::proxy::service::{ClusterNodesVersion, ServerProxyConfig};
use undermoon::proxy::session::{CmdCtx, CmdCtxHandler};
use undermoon::proxy::slowlog::SlowRequestLogger;

const ANNOUNCE_HOST: &str = "127.0.0.1";

// ------------------------------------------------------------------------------------------
// in-process proxy: the real command handler over fakes (pattern of tests/proxy_manager_test.rs)
// ------------------------------------------------------------------------------------------
type Log = Arc<Mutex<Vec<String>>>;

/// fake Redis: answers every command with its own address as a bulk string and records the address
struct EchoAddrConnFactory {
    log: Log,
}

impl ConnFactory for EchoAddrConnFactory {
    type Pkt = RespPacket;

    fn create_conn(&self, addr: SocketAddr) -> Pin<Box<dyn Future<Output = CreateConnResult<Self::Pkt>> + Send>> {
        let (sender, receiver) = mpsc::unbounded();
        let log = self.log.clone();
        let addr = addr.to_string();
        let receiver = receiver.map(move |_packet: RespPacket| {
            log.lock().expect("log").push(addr.clone());
            Ok::<_, ()>(RespPacket::Data(Resp::Bulk(BulkStr::Str(addr.as_bytes().to_vec()))))
        });
        let sink: ConnSink<RespPacket> = Box::pin(sender.sink_map_err(|_| BackendError::Canceled));
        let stream: ConnStream<RespPacket> = Box::pin(receiver.map_err(|_| BackendError::Canceled));
        Box::pin(async { Ok((sink, stream)) })
    }
}

struct OkClient;

impl RedisClient for OkClient {
    fn execute<'s>(
        &'s mut self,
        command: OptionalMulti<Vec<BinSafeStr>>,
    ) -> Pin<Box<dyn Future<Output = Result<OptionalMulti<RespVec>, RedisClientError>> + Send + 's>> {
        let res = command.map(|_| Resp::Simple(b"OK".to_vec()));
        Box::pin(async { Ok(res) })
    }
}

struct OkClientFactory;

impl RedisClientFactory for OkClientFactory {
    type Client = OkClient;

    fn create_client<'s>(
        &'s self,
        _address: String,
    ) -> Pin<Box<dyn Future<Output = Result<Self::Client, RedisClientError>> + Send + 's>> {
        Box::pin(async { Ok(OkClient) })
    }
}

fn server_config() -> ServerProxyConfig {
    ServerProxyConfig {
        address: "127.0.0.1:5299".to_string(),
        announce_address: "127.0.0.1:5299".to_string(),
        announce_host: ANNOUNCE_HOST.to_string(),
        slowlog_len: NonZeroUsize::new(16).expect("nz"),
        slowlog_log_slower_than: AtomicI64::new(1_000_000_000),
        slowlog_sample_rate: AtomicU64::new(1_000_000),
        thread_number: NonZeroUsize::new(1).expect("nz"),
        backend_conn_num: NonZeroUsize::new(1).expect("nz"),
        active_redirection: false,
        max_redirections: None,
        default_redirection_address: None,
        backend_batch_strategy: BatchStrategy::Fixed,
        backend_flush_size: NonZeroUsize::new(1024).expect("nz"),
        backend_low_flush_interval: Duration::from_nanos(2_000),
        backend_high_flush_interval: Duration::from_nanos(8_000),
        session_timeout: None,
        backend_timeout: Duration::from_secs(30),
        password: None,
        command_cluster_nodes_version: ClusterNodesVersion::V2,
    }
}

struct Proxy {
    handler: ForwardHandler<OkClientFactory, EchoAddrConnFactory>,
    log: Log,
    _stopped: Mutex<mpsc::UnboundedReceiver<()>>,
}

impl Proxy {
    fn new() -> Self {
        let config = Arc::new(server_config());
        let log: Log = Arc::new(Mutex::new(vec![]));
        let conn_factory = Arc::new(EchoAddrConnFactory { log: log.clone() });
        let meta_map = Arc::new(ArcSwap::new(Arc::new(MetaMap::empty())));
        let future_registry = Arc::new(TrackedFutureRegistry::default());
        let (tx, rx) = mpsc::unbounded();
        let handler = ForwardHandler::new(
            config.clone(),
            Arc::new(OkClientFactory),
            Arc::new(SlowRequestLogger::new(config)),
            meta_map,
            conn_factory,
            future_registry,
            tx,
        );
        Proxy { handler, log, _stopped: Mutex::new(rx) }
    }

    /// one command through `ForwardHandler::handle_cmd_ctx`
    async fn run(&self, args: &[Vec<u8>]) -> Result<RespVec, String> {
        let resp = Resp::Arr(Array::Arr(args.iter().map(|b| Resp::Bulk(BulkStr::Str(b.clone()))).collect()));
        let cmd = Command::new(Box::new(RespPacket::Data(resp)));
        let (s, r) = new_command_pair(&cmd);
        let ctx = CmdCtx::new(cmd, s, 1, false);
        let authenticated = AtomicBool::new(false);
        use futures::FutureExt;
        let fut = std::panic::AssertUnwindSafe(self.handler.handle_cmd_ctx(ctx, r, &authenticated)).catch_unwind();
        match fut.await {
            Ok(Ok(task_reply)) => Ok(task_reply.into_resp_vec()),
            Ok(Err(e)) => Err(format!("{:?}", e)),
            Err(_) => Err("PANIC".to_string()),
        }
    }
}

fn render_resp(r: &Result<RespVec, String>) -> String {
    match r {
        Err(e) => format!("X:{}", e),
        Ok(Resp::Error(b)) => format!("E:{}", String::from_utf8_lossy(b)),
        Ok(Resp::Simple(b)) => format!("S:{}", String::from_utf8_lossy(b)),
        Ok(Resp::Integer(b)) => format!("I:{}", String::from_utf8_lossy(b)),
        Ok(Resp::Bulk(BulkStr::Str(b))) => format!("B:{}", String::from_utf8_lossy(b)),
        Ok(Resp::Bulk(BulkStr::Nil)) => "N".to_string(),
        Ok(Resp::Arr(Array::Nil)) => "NA".to_string(),
        Ok(Resp::Arr(Array::Arr(xs))) => {
            format!("A[{}]", xs.iter().map(|x| render_resp(&Ok(x.clone()))).collect::<Vec<_>>().join(","))
        }
    }
}

const PROBE_SLOTS: [usize; 7] = [0, 4000, 4096, 8191, 8192, 12288, 16383];

struct Ctx {
    probe_keys: Vec<Vec<u8>>,
}

impl Ctx {
    /// routing fingerprint of a proxy: where the probe keys go + the cluster name it reports
    async fn fingerprint(&self, p: &Proxy) -> (String, String) {
        let mut text = String::new();
        let lc = p.run(&[b"UMCTL".to_vec(), b"LISTCLUSTER".to_vec()]).await;
        text.push_str(&render_resp(&lc));
        for k in &self.probe_keys {
            p.log.lock().expect("log").clear();
            let r = p.run(&[b"GET".to_vec(), k.clone()]).await;
            let got = p.log.lock().expect("log").join(",");
            text.push_str(&format!("|{}>{}", render_resp(&r), got));
        }
        (format!("{:016x}", fnv(text.as_bytes())), text)
    }
}

// ------------------------------------------------------------------------------------------
// messages
// ------------------------------------------------------------------------------------------
#[derive(Clone, Debug)]
struct Parsed {
    epoch: u64,
    force: bool,
    compress: bool,
    cfg_ok: bool,
    locals: Vec<String>,
}

/// the real parser on the same command
fn parse(args: &[Vec<u8>]) -> Option<Parsed> {
    let resp: RespVec = Resp::Arr(Array::Arr(args.iter().map(|b| Resp::Bulk(BulkStr::Str(b.clone()))).collect()));
    match ProxyClusterMeta::from_resp(&resp) {
        Err(_) => None,
        Ok((meta, ext)) => {
            let mut locals: Vec<String> = meta.get_local().keys().cloned().collect();
            locals.sort();
            Some(Parsed {
                epoch: meta.get_epoch(),
                force: meta.get_flags().force,
                compress: meta.get_flags().compress,
                cfg_ok: ext.is_ok(),
                locals,
            })
        }
    }
}

/// the property's host rule, written independently of the code: every local address must be
/// `<announce host>:<something>`
fn oracle_hosts_ok(locals: &[String]) -> bool {
    locals.iter().all(|a| match a.find(':') {
        Some(i) => &a[..i] == ANNOUNCE_HOST,
        None => false,
    })
}

#[derive(Clone, Debug)]
struct Content {
    /// tokens after the flags word of a plain (uncompressed) command: cluster name, local groups,
    /// PEER section, CONFIG section
    body: Vec<String>,
    class: &'static str,
}

fn gen_content(rng: &mut Rng, idx: usize) -> Content {
    let cuts = [4096usize, 8192, 12288];
    let cut = *rng.pick(&cuts);
    let cut2 = if rng.chance(1, 3) { Some(cut + 1024) } else { None };
    let (host, class): (&str, &'static str) = match rng.below(20) {
        0 | 1 => ("10.0.0.9", "foreign_host"),
        2 => ("127.0.0.10", "host_prefix_only"),
        _ => (ANNOUNCE_HOST, "own_host"),
    };
    let mut body = vec![];
    let name = match rng.below(8) {
        0 => String::new(),
        1 => "other".to_string(),
        _ => "c1".to_string(),
    };
    body.push(name);
    let local_lo = rng.chance(1, 2);
    let l1 = format!("{}:{}", host, 7000 + idx);
    let l2 = if rng.chance(1, 12) { "nocolon".to_string() } else { format!("{}:{}", ANNOUNCE_HOST, 7100 + idx) };
    let mut class = class;
    let p1 = format!("10.0.1.{}:{}", 1 + idx, 5299);
    let (loc_range, peer_range) = if local_lo { ((0, cut - 1), (cut, SLOT_NUM - 1)) } else { ((cut, SLOT_NUM - 1), (0, cut - 1)) };
    match rng.below(20) {
        0 | 1 => {
            class = "no_local";
        }
        2 => {
            // an address without a colon among the locals
            body.extend(["nocolon".to_string(), "1".to_string(), format!("{}-{}", loc_range.0, loc_range.1)]);
            class = "bad_address";
        }
        _ => {
            match cut2 {
                Some(c2) if local_lo && c2 < SLOT_NUM => {
                    body.extend([l1.clone(), "1".to_string(), format!("{}-{}", loc_range.0, loc_range.1)]);
                    body.extend([l2.clone(), "1".to_string(), format!("{}-{}", c2, c2 + 100)]);
                    if l2.starts_with("nocolon") {
                        class = "bad_address";
                    }
                }
                _ => {
                    body.extend([l1.clone(), "1".to_string(), format!("{}-{}", loc_range.0, loc_range.1)]);
                }
            }
        }
    }
    if !rng.chance(1, 6) {
        body.push(if rng.chance(1, 4) { "peer".to_string() } else { "PEER".to_string() });
        // peers are never host-checked: one of them may well sit on the announce host
        let ph = if rng.chance(1, 5) { format!("{}:{}", "10.0.0.9", 5299) } else { p1 };
        body.extend([ph, "1".to_string(), format!("{}-{}", peer_range.0, peer_range.1)]);
    }
    match rng.below(8) {
        0 => body.extend(["CONFIG".to_string(), "compression_strategy".to_string(), "set_get_only".to_string()]),
        1 => body.extend(["CONFIG".to_string(), "compression_strategy".to_string(), "bogus".to_string()]),
        2 => body.extend(["CONFIG".to_string(), "migration_scan_count".to_string(), "0".to_string()]),
        3 => body.extend(["config".to_string(), "migration_max_blocking_time".to_string(), "77".to_string()]),
        _ => {}
    }
    Content { body, class }
}

fn plain_args(epoch: &str, flags: &str, c: &Content) -> Vec<Vec<u8>> {
    let mut v: Vec<Vec<u8>> = vec![
        b"UMCTL".to_vec(),
        b"SETCLUSTER".to_vec(),
        SET_CLUSTER_API_VERSION.as_bytes().to_vec(),
        epoch.as_bytes().to_vec(),
        flags.as_bytes().to_vec(),
    ];
    v.extend(c.body.iter().map(|s| s.clone().into_bytes()));
    v
}

/// the compressed form of a plain command, produced by the real encoder (None if the plain form
/// does not parse)
fn compressed_args(epoch: &str, force: bool, c: &Content) -> Option<Vec<Vec<u8>>> {
    let plain = plain_args("1", "NOFLAGS", c);
    let resp: RespVec = Resp::Arr(Array::Arr(plain.iter().map(|b| Resp::Bulk(BulkStr::Str(b.clone()))).collect()));
    let (meta, _) = ProxyClusterMeta::from_resp(&resp).ok()?;
    let cargs = meta.to_compressed_args().ok()?;
    let blob = cargs.get(3)?.clone();
    Some(vec![
        b"UMCTL".to_vec(),
        b"SETCLUSTER".to_vec(),
        SET_CLUSTER_API_VERSION.as_bytes().to_vec(),
        epoch.as_bytes().to_vec(),
        if force { b"FORCE,COMPRESS".to_vec() } else { b"COMPRESS".to_vec() },
        blob.into_bytes(),
    ])
}


// ------------------------------------------------------------------------------------------
// deterministic scheduler (same design as umh_setrepl: pool of OS threads, one runs at a time)
// ------------------------------------------------------------------------------------------
#[derive(Debug, Clone, PartialEq)]
enum Ev {
    At(&'static str),
    Done(String),
}

thread_local! {
    static TID: Cell<Option<usize>> = Cell::new(None);
    static GO: RefCell<Option<Receiver<()>>> = RefCell::new(None);
    static EVTX: RefCell<Option<Sender<(usize, Ev)>>> = RefCell::new(None);
}

fn install_hook() {
    set_point_hook(Some(Arc::new(|name: &'static str| {
        if !name.starts_with("setmeta.") {
            return;
        }
        let tid = TID.with(|t| t.get());
        if let Some(tid) = tid {
            EVTX.with(|e| {
                if let Some(tx) = e.borrow().as_ref() {
                    let _ = tx.send((tid, Ev::At(name)));
                }
            });
            GO.with(|g| {
                if let Some(rx) = g.borrow().as_ref() {
                    let _ = rx.recv();
                }
            });
        }
    })));
}

struct Job {
    tid: usize,
    proxy: Arc<Proxy>,
    args: Vec<Vec<u8>>,
    ev_tx: Sender<(usize, Ev)>,
}

struct Worker {
    job_tx: Sender<Job>,
    go_tx: Sender<()>,
    busy: bool,
    _join: JoinHandle<()>,
}

#[derive(Default)]
struct Pool {
    workers: Vec<Worker>,
}

impl Pool {
    fn acquire(&mut self, handle: &tokio::runtime::Handle) -> usize {
        if let Some(i) = self.workers.iter().position(|w| !w.busy) {
            self.workers[i].busy = true;
            return i;
        }
        let (job_tx, job_rx) = channel::<Job>();
        let (go_tx, go_rx) = channel::<()>();
        let handle = handle.clone();
        let join = std::thread::spawn(move || {
            GO.with(|g| *g.borrow_mut() = Some(go_rx));
            while let Ok(job) = job_rx.recv() {
                let Job { tid, proxy, args, ev_tx } = job;
                EVTX.with(|e| *e.borrow_mut() = Some(ev_tx.clone()));
                TID.with(|t| t.set(Some(tid)));
                // the command is executed synchronously inside `handle_cmd_ctx`, on this thread
                let out = match catch_unwind(AssertUnwindSafe(|| handle.block_on(proxy.run(&args)))) {
                    Ok(r) => shown_reply(&r),
                    Err(_) => "X:PANIC".to_string(),
                };
                TID.with(|t| t.set(None));
                EVTX.with(|e| *e.borrow_mut() = None);
                drop(proxy);
                let _ = ev_tx.send((tid, Ev::Done(out)));
            }
        });
        self.workers.push(Worker { job_tx, go_tx, busy: true, _join: join });
        self.workers.len() - 1
    }
}

fn shown_reply(r: &Result<RespVec, String>) -> String {
    let s = render_resp(r);
    if s.starts_with("E:Failed to parse args") {
        "E:Failed to parse args".to_string()
    } else {
        s
    }
}

struct ThreadRec {
    worker: usize,
    state: Ev,
    args: Vec<Vec<u8>>,
    parsed: Parsed,
    content_fp: String,
    /// `UMCTL GETEPOCH` right before this thread was released from `setmeta.lock`
    acq_epoch: Option<u64>,
}

// ------------------------------------------------------------------------------------------
// one case
// ------------------------------------------------------------------------------------------
struct Case {
    proxy: Arc<Proxy>,
    ev_tx: Sender<(usize, Ev)>,
    ev_rx: Receiver<(usize, Ev)>,
    threads: Vec<ThreadRec>,
    /// the thread inside the locked section (released from `setmeta.lock`, not yet returned)
    holder: Option<usize>,
    /// linearization order: lock acquisitions (threads that return without the lock: at their return)
    order: Vec<usize>,
    ops: Vec<String>,
    last_epoch: u64,
    failed: bool,
}

struct Runner {
    s: Streams,
    rt: tokio::runtime::Runtime,
    pool: Pool,
    ctx: Ctx,
    fp_cache: BTreeMap<Vec<Vec<u8>>, String>,
    empty_fp: String,
}

impl Runner {
    fn content_fp(&mut self, args: &[Vec<u8>], p: &Parsed) -> String {
        let mut key: Vec<Vec<u8>> = args.to_vec();
        if key.len() > 4 {
            key[3] = vec![];
            key[4] = if p.compress { b"C".to_vec() } else { b"P".to_vec() };
        }
        if let Some(fp) = self.fp_cache.get(&key) {
            return fp.clone();
        }
        let mut forced = args.to_vec();
        forced[4] = if p.compress { b"FORCE,COMPRESS".to_vec() } else { b"FORCE".to_vec() };
        let ctx = &self.ctx;
        let fp = self.rt.block_on(async {
            let scratch = Proxy::new();
            match scratch.run(&forced).await {
                Ok(Resp::Simple(_)) => ctx.fingerprint(&scratch).await.0,
                _ => "-".to_string(),
            }
        });
        self.s.stats.count("scratch.installs");
        self.fp_cache.insert(key, fp.clone());
        fp
    }

    fn new_case(&mut self) -> Case {
        self.s.case();
        let proxy = {
            let _g = self.rt.enter();
            Arc::new(Proxy::new())
        };
        let op = format!("host {} {}", hex(ANNOUNCE_HOST.as_bytes()), self.empty_fp);
        self.s.op(&op, "ok");
        let (ev_tx, ev_rx) = channel();
        Case { proxy, ev_tx, ev_rx, threads: vec![], holder: None, order: vec![], ops: vec![op], last_epoch: 0, failed: false }
    }

    fn wait_for(&mut self, c: &mut Case, tid: usize) -> Ev {
        for _ in 0..2_000 {
            if let Ok((t, ev)) = c.ev_rx.try_recv() {
                return if t == tid { ev } else { Ev::Done(format!("SCHEDULER-ERROR event from t{} {:?}", t, ev)) };
            }
            std::hint::spin_loop();
        }
        match c.ev_rx.recv_timeout(Duration::from_secs(60)) {
            Ok((t, ev)) if t == tid => ev,
            Ok((t, ev)) => Ev::Done(format!("SCHEDULER-ERROR event from t{} {:?}", t, ev)),
            Err(_) => Ev::Done("HANG".to_string()),
        }
    }

    fn record(&mut self, c: &mut Case, tid: usize, ev: Ev) {
        if let Ev::Done(r) = &ev {
            if r != "HANG" {
                let w = c.threads[tid].worker;
                self.pool.workers[w].busy = false;
            }
            if c.holder == Some(tid) {
                c.holder = None;
            }
            if !c.order.contains(&tid) {
                c.order.push(tid);
            }
        }
        c.threads[tid].state = ev;
    }

    /// `UMCTL GETEPOCH` and the routing fingerprint, read by the controller (lock-free in the proxy)
    fn observe(&mut self, c: &Case) -> (String, String, String) {
        let ctx = &self.ctx;
        let proxy = c.proxy.clone();
        self.rt.block_on(async move {
            let ge = proxy.run(&[b"UMCTL".to_vec(), b"GETEPOCH".to_vec()]).await;
            let epoch_txt = match &ge {
                Ok(Resp::Integer(b)) => String::from_utf8_lossy(b).to_string(),
                other => format!("?{}", render_resp(other)),
            };
            let (fp, text) = ctx.fingerprint(&proxy).await;
            (epoch_txt, fp, text)
        })
    }

    fn line(&mut self, c: &mut Case, op: String, tid: usize) -> (u64, String) {
        let st = match &c.threads[tid].state {
            Ev::At(p) => format!("at {}", p),
            Ev::Done(r) => format!("done {}", r),
        };
        let (epoch_txt, fp, _) = self.observe(c);
        let obs = format!("t{} {} {} {}", tid, st, epoch_txt, fp);
        self.s.op(&op, &obs);
        c.ops.push(op);
        (epoch_txt.parse().unwrap_or(u64::MAX), fp)
    }

    fn fail(&mut self, c: &mut Case, what: String) {
        let n = self.s.cases;
        c.failed = true;
        self.s.stats.oracle_failure(n, &what, "", c.ops.clone());
    }

    /// a thread sends the command; returns when it is parked at its first point or has returned
    fn spawn(&mut self, c: &mut Case, args: &[Vec<u8>], class: &str) -> Option<usize> {
        let parsed = match parse(args) {
            Some(p) => p,
            None => {
                let mut op = format!("spawn {}", args.len());
                for a in args {
                    op.push(' ');
                    op.push_str(&hex(a));
                }
                op.push_str(" P");
                self.s.op(&op, "bad-op");
                c.ops.push(op);
                return None;
            }
        };
        let content_fp = self.content_fp(args, &parsed);
        let mut op = format!("spawn {}", args.len());
        for a in args {
            op.push(' ');
            op.push_str(&hex(a));
        }
        op.push_str(&format!(" M {} {} {} {} {}", parsed.epoch, parsed.force as u8, parsed.cfg_ok as u8, content_fp, parsed.locals.len()));
        for a in &parsed.locals {
            op.push(' ');
            op.push_str(&hex(a.as_bytes()));
        }
        let tid = c.threads.len();
        let w = self.pool.acquire(self.rt.handle());
        let job = Job { tid, proxy: c.proxy.clone(), args: args.to_vec(), ev_tx: c.ev_tx.clone() };
        let _ = self.pool.workers[w].job_tx.send(job);
        c.threads.push(ThreadRec { worker: w, state: Ev::At("?"), args: args.to_vec(), parsed, content_fp, acq_epoch: None });
        let ev = self.wait_for(c, tid);
        self.record(c, tid, ev);
        self.s.stats.count(&format!("gen.{}", class));
        let (e, _) = self.line(c, op, tid);
        self.after_step(c, tid, e);
        Some(tid)
    }

    fn enabled(&self, c: &Case) -> Vec<usize> {
        (0..c.threads.len())
            .filter(|i| match &c.threads[*i].state {
                Ev::At(p) => !(*p == "setmeta.lock" && c.holder.is_some()),
                Ev::Done(_) => false,
            })
            .collect()
    }

    fn step(&mut self, c: &mut Case, tid: usize) {
        let op = format!("step {}", tid);
        if !self.enabled(c).contains(&tid) {
            self.s.op(&op, "bad-step");
            c.ops.push(op);
            return;
        }
        let at_lock = c.threads[tid].state == Ev::At("setmeta.lock");
        if at_lock {
            c.threads[tid].acq_epoch = Some(c.last_epoch);
        }
        let w = c.threads[tid].worker;
        let _ = self.pool.workers[w].go_tx.send(());
        let ev = self.wait_for(c, tid);
        if at_lock {
            c.order.push(tid);
            if matches!(ev, Ev::At(_)) {
                c.holder = Some(tid);
            }
        }
        self.record(c, tid, ev);
        self.s.stats.count("steps");
        let (e, _) = self.line(c, op, tid);
        self.after_step(c, tid, e);
    }

    /// oracle, per step
    fn after_step(&mut self, c: &mut Case, tid: usize, epoch_now: u64) {
        let p = c.threads[tid].parsed.clone();
        if epoch_now < c.last_epoch && !p.force {
            let what = format!("GETEPOCH decreased {} -> {} in a step of t{} whose message is not forced", c.last_epoch, epoch_now, tid);
            self.fail(c, what);
        }
        if let Ev::Done(r) = c.threads[tid].state.clone() {
            self.s.stats.count(&format!("out.{}", r.split(' ').next().unwrap_or("")));
            let hosts = oracle_hosts_ok(&p.locals);
            let at = c.threads[tid].acq_epoch.unwrap_or(c.last_epoch);
            let accepted = r.starts_with("S:");
            if accepted && !(hosts && (p.force || p.epoch > at)) {
                let what = format!(
                    "t{} (epoch {}, force={}) answered `{}` although it was not newer than the epoch {} installed when it took the lock",
                    tid, p.epoch, p.force, r, at
                );
                self.fail(c, what);
            }
            if r == "E:OLD_EPOCH" && (p.force || (c.threads[tid].acq_epoch.is_some() && p.epoch > at)) {
                let what = format!("t{} (epoch {}, force={}) answered OLD_EPOCH with epoch {} installed at its lock acquisition", tid, p.epoch, p.force, at);
                self.fail(c, what);
            }
            if (r == "E:ERR_NOT_MY_META") == hosts {
                let what = format!("t{} answered `{}` (hosts_ok={})", tid, r, hosts);
                self.fail(c, what);
            }
        }
        c.last_epoch = epoch_now;
    }

    /// oracle at quiescence: the sequential state machine over the linearization order
    fn quiescent(&mut self, c: &mut Case) {
        if c.threads.iter().any(|t| matches!(t.state, Ev::At(_))) {
            return;
        }
        let mut exp_epoch = 0u64;
        let mut exp_fp = self.empty_fp.clone();
        let order = c.order.clone();
        for tid in order {
            let t = &c.threads[tid];
            let p = t.parsed.clone();
            let hosts = oracle_hosts_ok(&p.locals);
            let expect = if !hosts {
                "E:ERR_NOT_MY_META".to_string()
            } else if p.force || p.epoch > exp_epoch {
                exp_epoch = p.epoch;
                exp_fp = t.content_fp.clone();
                if p.cfg_ok { "S:OK".to_string() } else { "S:WARNING: ignored invalid config".to_string() }
            } else {
                "E:OLD_EPOCH".to_string()
            };
            let got = match &t.state {
                Ev::Done(r) => r.clone(),
                Ev::At(p) => format!("at {}", p),
            };
            if got != expect {
                let what = format!(
                    "not linearizable at lock acquisition: t{} (epoch {}, force={}) answered `{}`, the sequential order {:?} prescribes `{}`",
                    tid, p.epoch, p.force, got, c.order, expect
                );
                self.fail(c, what);
            }
        }
        let (epoch_txt, fp, text) = self.observe(c);
        if epoch_txt != exp_epoch.to_string() {
            let what = format!(
                "final GETEPOCH {} but the sequential order {:?} of the same messages leaves epoch {} installed",
                epoch_txt, c.order, exp_epoch
            );
            self.fail(c, what);
        }
        if fp != exp_fp {
            let what = format!("final routing does not correspond to the message installed by the sequential order {:?}: {}", c.order, text);
            self.fail(c, what);
        }
    }

    fn close_case(&mut self, mut c: Case, nontrivial: bool) {
        self.quiescent(&mut c);
        // release whatever is still parked (replay files may stop anywhere), lock holder first
        for _ in 0..64 {
            let en = self.enabled(&c);
            let next = c.holder.filter(|h| en.contains(h)).or_else(|| en.first().copied());
            match next {
                Some(t) => {
                    let w = c.threads[t].worker;
                    let at_lock = c.threads[t].state == Ev::At("setmeta.lock");
                    let _ = self.pool.workers[w].go_tx.send(());
                    let ev = self.wait_for(&mut c, t);
                    if at_lock && matches!(ev, Ev::At(_)) {
                        c.holder = Some(t);
                    }
                    self.record(&mut c, t, ev);
                }
                None => break,
            }
        }
        if nontrivial && !c.failed {
            let text = c.ops.join("\n");
            self.s.stats.nontrivial_case(&text);
        }
        if self.s.stats.samples.len() < 3 && c.ops.len() > 8 {
            self.s.stats.sample(json!({"case": self.s.cases, "ops": c.ops.iter().map(|o| o.chars().take(120).collect::<String>()).take(14).collect::<Vec<_>>()}));
        }
    }
}

// ------------------------------------------------------------------------------------------
// generators
// ------------------------------------------------------------------------------------------
fn simple_content(idx: usize, host: &str) -> Content {
    let cut = 4096 * (1 + idx % 3);
    Content {
        body: vec![
            "c1".to_string(),
            format!("{}:{}", host, 7000 + idx),
            "1".to_string(),
            format!("0-{}", cut - 1),
            "PEER".to_string(),
            format!("10.0.1.{}:5299", 1 + idx),
            "1".to_string(),
            format!("{}-{}", cut, SLOT_NUM - 1),
        ],
        class: "simple",
    }
}

fn random_case(r: &mut Runner, rng: &mut Rng) {
    let mut c = r.new_case();
    let npool = 3 + rng.below(3) as usize;
    let pool: Vec<Content> = (0..npool).map(|i| gen_content(rng, i)).collect();
    // optional sequential prefix
    let mut base = 0u64;
    if rng.chance(1, 2) {
        base = 1 + rng.below(5);
        let args = plain_args(&base.to_string(), "NOFLAGS", &simple_content(7, ANNOUNCE_HOST));
        if let Some(t) = r.spawn(&mut c, &args, "prefix") {
            while r.enabled(&c).contains(&t) {
                r.step(&mut c, t);
            }
        }
    }
    let k = 2 + rng.below(2) as usize;
    let with_force = rng.chance(1, 4);
    let mut pending: Vec<(Vec<Vec<u8>>, String)> = vec![];
    for _ in 0..k {
        let content = rng.pick(&pool).clone();
        let epoch = match rng.below(8) {
            0 => base.saturating_sub(1),
            1 => base,
            2 | 3 => base + 1,
            4 | 5 => base + 2,
            _ => base + 1 + rng.below(4),
        };
        let force = with_force && rng.chance(1, 2);
        let compress = rng.chance(1, 6);
        let args = if compress {
            compressed_args(&epoch.to_string(), force, &content)
                .unwrap_or_else(|| plain_args(&epoch.to_string(), if force { "FORCE" } else { "NOFLAGS" }, &content))
        } else {
            plain_args(&epoch.to_string(), if force { "FORCE" } else { "NOFLAGS" }, &content)
        };
        let class = format!("{}{}{}", content.class, if force { ".force" } else { "" }, if compress { ".compress" } else { "" });
        pending.push((args, class));
    }
    pending.reverse();
    loop {
        let en = r.enabled(&c);
        if en.is_empty() && pending.is_empty() {
            break;
        }
        if !pending.is_empty() && (en.is_empty() || rng.chance(1, 3)) {
            let (args, class) = pending.pop().expect("pending");
            r.spawn(&mut c, &args, &class);
        } else if !en.is_empty() {
            let t = *rng.pick(&en);
            r.step(&mut c, t);
        } else {
            break;
        }
    }
    r.close_case(c, true);
}

/// all interleavings of the given callers (stateless depth-first enumeration)
fn exhaustive(r: &mut Runner, base: Option<u64>, callers: &[Vec<Vec<u8>>], label: &str) -> u64 {
    let mut stack: Vec<(Vec<usize>, usize)> = vec![];
    let mut schedules = 0u64;
    loop {
        let mut c = r.new_case();
        if let Some(b) = base {
            let args = plain_args(&b.to_string(), "NOFLAGS", &simple_content(7, ANNOUNCE_HOST));
            if let Some(t) = r.spawn(&mut c, &args, "exh.base") {
                while r.enabled(&c).contains(&t) {
                    r.step(&mut c, t);
                }
            }
        }
        for a in callers {
            r.spawn(&mut c, a, &format!("exh.{}", label));
        }
        let mut depth = 0;
        loop {
            let en = r.enabled(&c);
            if en.is_empty() {
                break;
            }
            let choice = if depth < stack.len() {
                stack[depth].1
            } else {
                stack.push((en.clone(), 0));
                0
            };
            let t = en[choice.min(en.len() - 1)];
            r.step(&mut c, t);
            depth += 1;
        }
        stack.truncate(depth);
        r.close_case(c, true);
        schedules += 1;
        loop {
            match stack.pop() {
                None => return schedules,
                Some((en, ch)) => {
                    if ch + 1 < en.len() {
                        stack.push((en, ch + 1));
                        break;
                    }
                }
            }
        }
    }
}

fn replay(r: &mut Runner, lines: &[String]) {
    let mut cur: Option<Case> = None;
    for l in lines {
        if l.starts_with('#') {
            continue;
        }
        let toks: Vec<&str> = l.split(' ').collect();
        match toks[0] {
            "case" => {
                if let Some(c) = cur.take() {
                    r.close_case(c, false);
                }
                cur = Some(r.new_case());
            }
            "host" => {
                if cur.is_none() {
                    cur = Some(r.new_case());
                }
            }
            "spawn" | "step" => {
                if cur.is_none() {
                    cur = Some(r.new_case());
                }
                let c = cur.as_mut().expect("case");
                if toks[0] == "spawn" {
                    let n: usize = toks.get(1).and_then(|t| t.parse().ok()).unwrap_or(0);
                    let args: Vec<Vec<u8>> = toks.iter().skip(2).take(n).filter_map(|t| unhex(t)).collect();
                    r.spawn(c, &args, "replay");
                } else if let Some(t) = toks.get(1).and_then(|t| t.parse::<usize>().ok()) {
                    if t < c.threads.len() {
                        r.step(c, t);
                    } else {
                        let op = format!("step {}", t);
                        r.s.op(&op, "bad-step");
                        c.ops.push(op);
                    }
                }
            }
            _ => {}
        }
    }
    if let Some(c) = cur.take() {
        r.close_case(c, false);
    }
}

fn main() {
    let args = parse_args();
    install_hook();
    let rt = tokio::runtime::Builder::new_multi_thread().worker_threads(2).enable_all().build().expect("runtime");
    let mut rng = Rng::new(args.seed);
    let mut probe_keys = vec![];
    for slot in PROBE_SLOTS {
        let mut i = 0u64;
        loop {
            let k = format!("p{}", i).into_bytes();
            if generate_slot(&k) == slot {
                probe_keys.push(k);
                break;
            }
            i += 1;
        }
    }
    let ctx = Ctx { probe_keys };
    let empty_fp = rt.block_on(async { ctx.fingerprint(&Proxy::new()).await.0 });
    let mut r = Runner { s: Streams::new(&args), rt, pool: Pool::default(), ctx, fp_cache: BTreeMap::new(), empty_fp };
    if let Some(p) = &args.replay {
        let lines = read_lines(p);
        replay(&mut r, &lines);
    } else {
        let cases = if args.thorough { 1500 } else { 120 };
        for _ in 0..cases {
            random_case(&mut r, &mut rng);
        }
        let mk = |e: u64, flags: &str, idx: usize, host: &str| plain_args(&e.to_string(), flags, &simple_content(idx, host));
        let mut total = 0;
        // all interleavings of two callers: lo < hi (both newer than the installed epoch), hi < lo, equal epochs,
        // a forced lower epoch against a newer one, a foreign host against an own one
        total += exhaustive(&mut r, Some(5), &[mk(6, "NOFLAGS", 0, ANNOUNCE_HOST), mk(7, "NOFLAGS", 1, ANNOUNCE_HOST)], "lo_hi");
        total += exhaustive(&mut r, Some(5), &[mk(7, "NOFLAGS", 0, ANNOUNCE_HOST), mk(6, "NOFLAGS", 1, ANNOUNCE_HOST)], "hi_lo");
        total += exhaustive(&mut r, Some(5), &[mk(6, "NOFLAGS", 0, ANNOUNCE_HOST), mk(6, "NOFLAGS", 1, ANNOUNCE_HOST)], "equal");
        total += exhaustive(&mut r, Some(5), &[mk(3, "FORCE", 0, ANNOUNCE_HOST), mk(6, "NOFLAGS", 1, ANNOUNCE_HOST)], "forced_lower");
        total += exhaustive(&mut r, None, &[mk(1, "NOFLAGS", 0, "10.0.0.9"), mk(1, "NOFLAGS", 1, ANNOUNCE_HOST)], "foreign");
        if args.thorough {
            // all interleavings of three callers
            total += exhaustive(&mut r, Some(5), &[mk(6, "NOFLAGS", 0, ANNOUNCE_HOST), mk(7, "NOFLAGS", 1, ANNOUNCE_HOST), mk(8, "NOFLAGS", 2, ANNOUNCE_HOST)], "three_rising");
            total += exhaustive(&mut r, Some(5), &[mk(7, "NOFLAGS", 0, ANNOUNCE_HOST), mk(3, "FORCE", 1, ANNOUNCE_HOST), mk(6, "NOFLAGS", 2, ANNOUNCE_HOST)], "three_forced");
        }
        r.s.stats.add("exhaustive.schedules", total);
    }
    r.s.finish(
        "setmeta_conc",
        "concurrent SETCLUSTER: 2-3 OS threads per case parked at the six scheduling points of set_meta (optional sequential prefix; epochs around the installed one, forced 1/4 of the cases, own/foreign hosts, compressed 1/6), seeded random schedules, plus all interleavings of two callers for lo<hi, hi<lo, equal, forced lower, foreign host (thorough: also of three callers, rising and with a forced one); non-trivial = every schedule; distinct = distinct op sequences",
    );
}
