//! C18: failure reports of the broker.  Drives the real `MemBrokerService` (public async API on a
//! current-thread runtime) or the real `MetaStore` directly (for `cleanup_failures` and arbitrary
//! `chrono::Duration` ttls), one operation per op line, and prints after every operation the
//! result and the canonical (sorted) dump of the sub-state: global epoch, `all_proxies`
//! (address:cluster.is_some()), `failed_proxies`, `failures`.
//!
//! Clock.  The code reads `Utc::now()` directly; there is no injection point.  This binary
//! defines the libc symbol `clock_gettime` itself (the statically linked std resolves to it), so
//! `--clock fake` (default) makes `CLOCK_REALTIME` return exactly the nanosecond written on the op
//! line (all other clocks, and `--clock real`, go to the kernel).  With `--clock real` the real
//! wall clock is used, ages are produced by rewriting the stored timestamps through the real
//! `restore_metadata` path, the clock is read before and after every call and a case in which
//! the two readings could give different answers is discarded and regenerated.
use serde_json::json;
use std::collections::{BTreeSet, HashMap, HashSet};
use std::panic::{catch_unwind, AssertUnwindSafe};
use std::sync::atomic::{AtomicI64, Ordering};
use std::sync::Arc;
use umharness::util::*;
use undermoon::broker::verif_export::store::{MetaStore, MetaStoreError};
use undermoon::broker::{
    JsonFileStorage, MemBrokerConfig, MemBrokerService, MetaReplicator, MetaSyncError, StorageConfig,
};
use undermoon::common::config::ClusterConfig;

// ---------------------------------------------------------------------------------------------
// clock
// ---------------------------------------------------------------------------------------------
const PASS: i64 = i64::MIN;
static FAKE_NS: AtomicI64 = AtomicI64::new(PASS);

#[repr(C)]
pub struct Timespec {
    tv_sec: i64,
    tv_nsec: i64,
}
extern "C" {
    fn syscall(num: i64, ...) -> i64;
}
const SYS_CLOCK_GETTIME: i64 = 228; // x86_64

/// Interposes libc's `clock_gettime` for this process.
/// # Safety
/// `ts` must be a valid pointer (same contract as the libc function).
#[no_mangle]
pub unsafe extern "C" fn clock_gettime(clk: i32, ts: *mut Timespec) -> i32 {
    let f = FAKE_NS.load(Ordering::SeqCst);
    if clk == 0 && f != PASS {
        (*ts).tv_sec = f.div_euclid(1_000_000_000);
        (*ts).tv_nsec = f.rem_euclid(1_000_000_000);
        return 0;
    }
    syscall(SYS_CLOCK_GETTIME, clk as i64, ts) as i32
}

fn real_now_ns() -> i64 {
    let mut ts = Timespec { tv_sec: 0, tv_nsec: 0 };
    unsafe { syscall(SYS_CLOCK_GETTIME, 0i64, &mut ts as *mut Timespec) };
    ts.tv_sec * 1_000_000_000 + ts.tv_nsec
}

const NS: i128 = 1_000_000_000;

// ---------------------------------------------------------------------------------------------
// the two back ends
// ---------------------------------------------------------------------------------------------
struct NoRepl;
impl MetaReplicator for NoRepl {
    fn sync_meta<'s>(
        &'s self,
        _store: Arc<MetaStore>,
    ) -> std::pin::Pin<Box<dyn std::future::Future<Output = Result<(), MetaSyncError>> + Send + 's>> {
        Box::pin(async { Ok(()) })
    }
}

enum Backend {
    Svc { svc: MemBrokerService, rt: tokio::runtime::Runtime, ttl_s: u64, quorum: u64 },
    Store { store: MetaStore },
}

fn new_service(ordered: bool, ttl_s: u64, quorum: u64) -> MemBrokerService {
    let config = MemBrokerConfig {
        address: "127.0.0.1:7799".to_string(),
        failure_ttl: ttl_s,
        failure_quorum: quorum,
        migration_limit: 1,
        recover_from_meta_file: false,
        meta_filename: "/nonexistent/umh_failures.json".to_string(),
        auto_update_meta_file: false,
        update_meta_file_interval: None,
        replica_addresses: Arc::new(arc_swap::ArcSwap::new(Arc::new(vec![]))),
        sync_meta_interval: None,
        enable_ordered_proxy: ordered,
        storage: StorageConfig::Memory,
        debug: false,
    };
    MemBrokerService::new(
        config,
        ClusterConfig::default(),
        Arc::new(JsonFileStorage::new("/nonexistent/umh_failures.json".to_string())),
        Arc::new(NoRepl),
        None,
    )
    .expect("MemBrokerService::new")
}

fn code<T>(r: &Result<T, MetaStoreError>) -> String {
    match r {
        Ok(_) => "ok".to_string(),
        Err(e) => e.to_code().to_string(),
    }
}

impl Backend {
    fn snapshot(&self) -> MetaStore {
        match self {
            Backend::Svc { svc, rt, .. } => rt.block_on(svc.get_all_data()).expect("get_all_data"),
            Backend::Store { store } => store.clone(),
        }
    }
    /// `Some(bool)` from the store, `None` through the service (which drops the flag)
    fn add_failure(&mut self, a: &str, r: &str) -> Option<bool> {
        match self {
            Backend::Svc { svc, rt, .. } => {
                rt.block_on(svc.add_failure(a.to_string(), r.to_string())).expect("add_failure");
                None
            }
            Backend::Store { store } => Some(store.add_failure(a.to_string(), r.to_string())),
        }
    }
    fn get_failures(&mut self, ttl: chrono::Duration, q: u64) -> Vec<String> {
        match self {
            Backend::Svc { svc, rt, .. } => rt.block_on(svc.get_failures()).expect("get_failures"),
            Backend::Store { store } => store.get_failures(ttl, q),
        }
    }
    fn add_proxy(&mut self, a: &str, index: Option<usize>) -> Result<(), MetaStoreError> {
        let host = a.split(':').next().unwrap_or("").to_string();
        let nodes = [format!("{}:1", host), format!("{}:2", host)];
        match self {
            Backend::Svc { svc, rt, .. } => {
                let payload = serde_json::from_value(
                    json!({"proxy_address": a, "nodes": nodes, "host": null, "index": index}),
                )
                .expect("payload");
                rt.block_on(svc.add_proxy(payload))
            }
            Backend::Store { store } => store.add_proxy(a.to_string(), nodes, None, index),
        }
    }
    fn remove_proxy(&mut self, a: &str) -> Result<(), MetaStoreError> {
        match self {
            Backend::Svc { svc, rt, .. } => rt.block_on(svc.remove_proxy(a.to_string())),
            Backend::Store { store } => store.remove_proxy(a.to_string()),
        }
    }
    fn replace(&mut self, a: &str) -> Result<Option<String>, MetaStoreError> {
        match self {
            Backend::Svc { svc, rt, .. } => rt
                .block_on(svc.replace_failed_proxy(a.to_string()))
                .map(|o| o.map(|p| p.get_address().to_string())),
            Backend::Store { store } => store
                .replace_failed_proxy(a.to_string(), 1)
                .map(|o| o.map(|p| p.get_address().to_string())),
        }
    }
    fn add_cluster(&mut self, name: &str, n: usize) -> Result<(), MetaStoreError> {
        match self {
            Backend::Svc { svc, rt, .. } => rt.block_on(svc.add_cluster(name.to_string(), n)),
            Backend::Store { store } => store.add_cluster(name.to_string(), n, ClusterConfig::default()),
        }
    }
    fn remove_cluster(&mut self, name: &str) -> Result<(), MetaStoreError> {
        match self {
            Backend::Svc { svc, rt, .. } => rt.block_on(svc.remove_cluster(name.to_string())),
            Backend::Store { store } => store.remove_cluster(name.to_string()),
        }
    }
    fn restore(&mut self, other: MetaStore) -> Result<(), MetaStoreError> {
        match self {
            Backend::Svc { svc, rt, .. } => rt.block_on(svc.restore_metadata(other)),
            Backend::Store { store } => store.restore(other),
        }
    }
    fn failed(&self) -> Vec<String> {
        match self {
            Backend::Svc { svc, rt, .. } => rt.block_on(svc.get_failed_proxies()).expect("failed"),
            Backend::Store { store } => store.get_failed_proxies(),
        }
    }
}

// ---------------------------------------------------------------------------------------------
// canonical printing
// ---------------------------------------------------------------------------------------------
fn hx(s: &str) -> String {
    hex(s.as_bytes())
}
fn unhx(s: &str) -> Option<String> {
    String::from_utf8(unhex(s)?).ok()
}
fn join(sep: &str, mut v: Vec<String>) -> String {
    v.sort();
    if v.is_empty() {
        "-".to_string()
    } else {
        v.join(sep)
    }
}
fn list_out(v: &[String]) -> String {
    format!("[{}]", join(",", v.iter().map(|a| hx(a)).collect()))
}
fn proxies_tok(ms: &MetaStore) -> String {
    join(",", ms.all_proxies.iter().map(|(a, p)| format!("{}:{}", hx(a), if p.cluster.is_some() { 1 } else { 0 })).collect())
}
fn failed_tok(ms: &MetaStore) -> String {
    join(",", ms.failed_proxies.iter().map(|a| hx(a)).collect())
}
fn failures_tok(f: &HashMap<String, HashMap<String, i64>>) -> String {
    join(
        ",",
        f.iter()
            .map(|(a, m)| {
                let inner = if m.is_empty() {
                    String::new()
                } else {
                    join("+", m.iter().map(|(r, t)| format!("{}@{}", hx(r), t)).collect())
                };
                format!("{}={}", hx(a), if m.is_empty() { "-".to_string() } else { inner })
            })
            .collect(),
    )
}
fn dump(ms: &MetaStore) -> String {
    format!("e={} P={} F={} R={}", ms.global_epoch, proxies_tok(ms), failed_tok(ms), failures_tok(&ms.failures))
}

// ---------------------------------------------------------------------------------------------
// abstract operations (what generators produce and replay files contain)
// ---------------------------------------------------------------------------------------------
#[derive(Clone, Debug)]
enum AOp {
    /// advance (or rewind) the fake clock; no op line of its own
    Report { a: String, r: String },
    GetF { ttl_ns: i128, q: u64 },
    Cleanup { ttl_ns: i128, q: u64 },
    AddProxy { a: String, index: bool },
    RmProxy { a: String },
    Replace { a: String },
    AddCluster { name: String, n: usize },
    RmCluster { name: String },
    /// rewrite through the real restore path: shift every stored time by `-shift_s`, optionally
    /// inject/overwrite entries (absolute seconds), add `epoch_delta` to the epoch (−1 ⇒ refused)
    Restore { shift_s: i64, inject: Vec<(String, String, Ts)>, epoch_delta: i64, drop_failed: bool },
    Failed,
}

/// a time to inject: absolute unix seconds, or an age in seconds relative to the clock at the op
#[derive(Clone, Debug)]
enum Ts {
    Abs(i64),
    Age(i64),
}

struct Ctx {
    be: Backend,
    fake: bool,
    now: i64, // fake clock (ns)
    ordered: bool,
    // ---- oracle bookkeeping (independent of the Lean model) ----
    /// (address, reporter) -> true times (ns) of reports issued since the last accepted add_proxy
    hist: HashMap<(String, String), Vec<i128>>,
    registry: HashSet<String>,
    lines: Vec<(String, String)>,
    dirty_clock: bool,
    oracle_fail: Vec<(String, String)>,
    panicked: bool,
}

fn dur_of_ns(ttl_ns: i128) -> chrono::Duration {
    let s = ttl_ns.div_euclid(NS) as i64;
    let n = ttl_ns.rem_euclid(NS) as i64;
    chrono::Duration::seconds(s) + chrono::Duration::nanoseconds(n)
}

impl Ctx {
    /// the clock reading an operation sees; in real mode returns (before) and the caller re-reads after
    fn clock(&self) -> i64 {
        if self.fake {
            FAKE_NS.store(self.now, Ordering::SeqCst);
            self.now
        } else {
            real_now_ns()
        }
    }
    fn push(&mut self, op: String, obs: String) {
        self.lines.push((op, obs));
    }
    fn fail(&mut self, what: &str, finding: &str) {
        self.oracle_fail.push((what.to_string(), finding.to_string()));
    }

    fn exec(&mut self, op: &AOp, st: &mut Stats) {
        match op {
            AOp::Report { a, r } => {
                let before = self.be.snapshot();
                let n0 = self.clock();
                let res = self.be.add_failure(a, r);
                let n1 = if self.fake { n0 } else { real_now_ns() };
                if n0.div_euclid(1_000_000_000) != n1.div_euclid(1_000_000_000) {
                    self.dirty_clock = true;
                }
                let after = self.be.snapshot();
                let mode = if res.is_some() { "b" } else { "u" };
                let out = match res {
                    Some(b) => b.to_string(),
                    None => "ok".to_string(),
                };
                self.push(format!("report {} {} {} {}", n0, hx(a), hx(r), mode), format!("{} | {}", out, dump(&after)));
                // oracle: a reporter that already has a stored report never changes anything
                let had = before.failures.get(a).map(|m| m.contains_key(r)).unwrap_or(false);
                let cnt = |ms: &MetaStore| ms.failures.get(a).map(|m| m.len()).unwrap_or(0);
                if had {
                    st.count("out.report_repeat");
                    if after.failures != before.failures || after.global_epoch != before.global_epoch {
                        self.fail("a repeated report by the same reporter changed the store", "");
                    }
                } else {
                    st.count("out.report_new");
                    if cnt(&after) != cnt(&before) + 1 {
                        self.fail("a new report did not add exactly one reporter", "");
                    }
                    if after.failures.get(a).and_then(|m| m.get(r)).copied() != Some(n0.div_euclid(1_000_000_000)) {
                        self.fail("stored time is not the whole seconds of the report time", "");
                    }
                }
                if !self.registry.contains(a) {
                    st.count("out.report_unknown_addr");
                }
                self.hist.entry((a.clone(), r.clone())).or_default().push(n0 as i128);
            }
            AOp::GetF { ttl_ns, q } | AOp::Cleanup { ttl_ns, q } => {
                let is_cleanup = matches!(op, AOp::Cleanup { .. });
                let (ttl_ns, q) = match &self.be {
                    Backend::Svc { ttl_s, quorum, .. } => ((*ttl_s as i64) as i128 * NS, *quorum),
                    Backend::Store { .. } => (*ttl_ns, *q),
                };
                let before = self.be.snapshot();
                let n0 = self.clock();
                let dur = dur_of_ns(ttl_ns);
                let be = &mut self.be;
                let res = catch_unwind(AssertUnwindSafe(|| {
                    if is_cleanup {
                        match be {
                            Backend::Store { store } => Err(store.cleanup_failures(dur, q)),
                            _ => unreachable!(),
                        }
                    } else {
                        Ok(be.get_failures(dur, q))
                    }
                }));
                let n1 = if self.fake { n0 } else { real_now_ns() };
                let name = if is_cleanup { "cleanup" } else { "getf" };
                let opl = format!("{} {} {} {}", name, n0, ttl_ns, q);
                let fresh = |now: i64, t: i64| (now as i128) - (t as i128) * NS < ttl_ns;
                if !self.fake {
                    for m in before.failures.values() {
                        for t in m.values() {
                            if fresh(n0, *t) != fresh(n1, *t) {
                                self.dirty_clock = true;
                            }
                        }
                    }
                }
                match res {
                    Err(_) => {
                        st.count("out.getf_panic");
                        self.push(opl, "PANIC".to_string());
                        self.panicked = true;
                    }
                    Ok(Err(changed)) => {
                        st.count("out.cleanup");
                        let after = self.be.snapshot();
                        self.push(opl, format!("{} | {}", changed, dump(&after)));
                    }
                    Ok(Ok(listed)) => {
                        let after = self.be.snapshot();
                        self.push(opl, format!("{} | {}", list_out(&listed), dump(&after)));
                        st.count(if listed.is_empty() { "out.getf_empty" } else { "out.getf_listed" });
                        let need = std::cmp::max(q, 1) as usize;
                        let listed_set: BTreeSet<String> = listed.iter().cloned().collect();
                        if listed_set.len() != listed.len() {
                            self.fail("get_failures listed an address twice", "");
                        }
                        // (1) state-level iff on the stored map observed before the call
                        let mut expired_seen = false;
                        for (a, m) in before.failures.iter() {
                            let cnt = m.values().filter(|t| fresh(n0, **t)).count();
                            if cnt < m.len() {
                                expired_seen = true;
                            }
                            let want = self.registry.contains(a) && cnt >= need;
                            if want != listed_set.contains(a) {
                                self.fail(
                                    &format!("listing differs from 'registered and >= quorum distinct fresh stored reports' (fresh={}, quorum={}, registered={}, listed={})",
                                        cnt, q, self.registry.contains(a), listed_set.contains(a)), "");
                            }
                            if cnt >= need && !self.registry.contains(a) {
                                st.count("out.quorum_but_unregistered");
                            }
                            if cnt + 1 == need && m.len() >= need {
                                st.count("out.quorum_lost_by_expiry");
                            }
                        }
                        if expired_seen {
                            st.count("out.getf_expired_some");
                        }
                        for a in listed_set.iter() {
                            if !before.failures.contains_key(a) {
                                self.fail("listed an address without any stored report", "");
                            }
                            // (2) history-level "only if": quorum distinct reporters really reported
                            // within the ttl (true report times) since the last re-registration
                            let mut reps = BTreeSet::new();
                            for ((ha, hr), times) in self.hist.iter() {
                                if ha == a && times.iter().any(|tau| (n0 as i128) - *tau < ttl_ns) {
                                    reps.insert(hr.clone());
                                }
                            }
                            if reps.len() < need {
                                self.fail("listed without a quorum of distinct reporters that reported within the ttl since the last registration", "");
                            }
                            if !self.registry.contains(a) {
                                self.fail("listed an unregistered address", "");
                            }
                        }
                        // (3) expired reports are gone, fresh ones are kept
                        for (a, m) in before.failures.iter() {
                            for (r, t) in m.iter() {
                                let kept = after.failures.get(a).and_then(|x| x.get(r)).is_some();
                                if kept != fresh(n0, *t) {
                                    self.fail("a stored report was kept after expiry or dropped while fresh", "");
                                }
                            }
                        }
                        if after.global_epoch != before.global_epoch {
                            self.fail("get_failures bumped the epoch", "");
                        }
                    }
                }
            }
            AOp::AddProxy { a, index } => {
                let idx = if *index { Some(self.registry.len()) } else { None };
                let res = self.be.add_proxy(a, idx);
                let after = self.be.snapshot();
                self.push(format!("addproxy {} {}", hx(a), if *index { 1 } else { 0 }), format!("{} | {}", code(&res), dump(&after)));
                st.count(&format!("out.addproxy_{}", code(&res)));
                let accepted = matches!(res, Ok(()) | Err(MetaStoreError::AlreadyExisted));
                if accepted {
                    if after.failures.contains_key(a) {
                        self.fail("reports survive add_proxy", "");
                    }
                    if after.failed_proxies.contains(a) {
                        self.fail("failed mark survives add_proxy", "");
                    }
                    if !after.all_proxies.contains_key(a) {
                        self.fail("add_proxy accepted but the proxy is not registered", "");
                    }
                    if self.hist.keys().any(|(ha, _)| ha == a) {
                        st.count("out.reregister_with_reports");
                    }
                    self.hist.retain(|(ha, _), _| ha != a);
                    self.registry.insert(a.clone());
                }
            }
            AOp::RmProxy { a } => {
                let res = self.be.remove_proxy(a);
                let after = self.be.snapshot();
                self.push(format!("rmproxy {}", hx(a)), format!("{} | {}", code(&res), dump(&after)));
                st.count(&format!("out.rmproxy_{}", code(&res)));
                if res.is_ok() {
                    self.registry.remove(a);
                    if after.failures.contains_key(a) || after.failed_proxies.contains(a) {
                        self.fail("reports or failed mark survive remove_proxy", "");
                    }
                }
            }
            AOp::Replace { a } => {
                let before = self.be.snapshot();
                let in_cluster = before.all_proxies.get(a).map(|p| p.cluster.is_some()).unwrap_or(false);
                let be = &mut self.be;
                let res = match catch_unwind(AssertUnwindSafe(|| be.replace(a))) {
                    Ok(r) => r,
                    Err(_) => {
                        // not modelled: shows up as an oracle failure and as a disagreement
                        let after = self.be.snapshot();
                        let bumps = after.global_epoch - before.global_epoch;
                        st.count("out.replace_PANIC");
                        self.push(format!("replace {} pn:{}", hx(a), bumps), format!("PANIC | {}", dump(&after)));
                        self.fail("replace_failed_proxy panicked", "");
                        self.panicked = true;
                        return;
                    }
                };
                let after = self.be.snapshot();
                let bumps = after.global_epoch - before.global_epoch;
                let outcome = if !in_cluster {
                    "-".to_string()
                } else {
                    match &res {
                        Err(e) => {
                            if after.failed_proxies.contains(a) && !before.failed_proxies.contains(a)
                                || matches!(e, MetaStoreError::NoAvailableResource)
                            {
                                format!("nr:{}:{}", e.to_code(), bumps)
                            } else {
                                format!("te:{}:{}", e.to_code(), bumps)
                            }
                        }
                        Ok(None) => format!("on:{}", bumps),
                        Ok(Some(b)) => format!("rp:{}:{}", hx(b), bumps),
                    }
                };
                let out = match &res {
                    Err(e) => e.to_code().to_string(),
                    Ok(None) => "none".to_string(),
                    Ok(Some(b)) => format!("some:{}", hx(b)),
                };
                st.count(&format!("out.replace_{}", if in_cluster { outcome.split(':').next().unwrap_or("") } else { &out }));
                self.push(format!("replace {} {}", hx(a), outcome), format!("{} | {}", out, dump(&after)));
                if let Ok(Some(b)) = &res {
                    if before.failed_proxies.contains(b) || before.failures.contains_key(b) {
                        self.fail("replacement proxy was marked failed or had pending reports", "");
                    }
                }
            }
            AOp::AddCluster { name, n } => {
                let before = self.be.snapshot();
                let res = self.be.add_cluster(name, *n);
                let after = self.be.snapshot();
                let mut newly: Vec<String> = vec![];
                for (a, p) in after.all_proxies.iter() {
                    let was = before.all_proxies.get(a).map(|x| x.cluster.is_some()).unwrap_or(false);
                    if p.cluster.is_some() && !was {
                        newly.push(hx(a));
                    }
                }
                st.count(&format!("out.addcluster_{}", code(&res)));
                self.push(format!("alloc {} {} {}", after.global_epoch - before.global_epoch, join(",", newly), name), dump(&after));
            }
            AOp::RmCluster { name } => {
                let before = self.be.snapshot();
                let res = self.be.remove_cluster(name);
                let after = self.be.snapshot();
                let mut freed: Vec<String> = vec![];
                for (a, p) in after.all_proxies.iter() {
                    let was = before.all_proxies.get(a).map(|x| x.cluster.is_some()).unwrap_or(false);
                    if p.cluster.is_none() && was {
                        freed.push(hx(a));
                    }
                }
                st.count(&format!("out.rmcluster_{}", code(&res)));
                self.push(format!("release {} {} {}", after.global_epoch - before.global_epoch, join(",", freed), name), dump(&after));
            }
            AOp::Restore { shift_s, inject, epoch_delta, drop_failed } => {
                let mut blob = self.be.snapshot();
                for m in blob.failures.values_mut() {
                    for t in m.values_mut() {
                        *t = t.wrapping_sub(*shift_s);
                    }
                }
                let now_s = self.clock().div_euclid(1_000_000_000);
                for (a, r, t) in inject.iter() {
                    let t = match t {
                        Ts::Abs(t) => *t,
                        Ts::Age(g) => now_s - *g,
                    };
                    blob.failures.entry(a.clone()).or_default().insert(r.clone(), t);
                }
                if *drop_failed {
                    blob.failed_proxies.clear();
                }
                blob.global_epoch = (blob.global_epoch as i64 + *epoch_delta).max(0) as u64;
                // the HTTP path: JSON round trip
                let blob: MetaStore = serde_json::from_str(&serde_json::to_string(&blob).expect("ser")).expect("de");
                let opl = format!(
                    "restore {} {} {} {} {}",
                    blob.global_epoch,
                    if blob.enable_ordered_proxy { 1 } else { 0 },
                    proxies_tok(&blob),
                    failed_tok(&blob),
                    failures_tok(&blob.failures)
                );
                let res = self.be.restore(blob.clone());
                let after = self.be.snapshot();
                self.push(opl, format!("{} | {}", code(&res), dump(&after)));
                st.count(&format!("out.restore_{}", code(&res)));
                if res.is_ok() {
                    // the restored reports count as made at their stored second
                    self.hist.clear();
                    for (a, m) in blob.failures.iter() {
                        for (r, t) in m.iter() {
                            self.hist.entry((a.clone(), r.clone())).or_default().push((*t as i128) * NS);
                        }
                    }
                    self.registry = blob.all_proxies.keys().cloned().collect();
                }
            }
            AOp::Failed => {
                let v = self.be.failed();
                self.push("failed".to_string(), list_out(&v));
            }
        }
    }
}

// ---------------------------------------------------------------------------------------------
// generation
// ---------------------------------------------------------------------------------------------
const TTLS: [u64; 4] = [1, 5, 60, 1_000_000_000];
/// clock-move marker: `BOUNDARY + off` (off in -2..=2) = set the clock to `t*1s + ttl + off` for a stored time `t`
const BOUNDARY: i64 = i64::MAX - 10;

struct CasePlan {
    store_backend: bool,
    ordered: bool,
    ttl_s: u64,
    quorum: u64,
    start_ns: i64,
    steps: Vec<(i64, AOp)>, // (clock move before the op: delta in ns, or BOUNDARY+off = jump to a stored report's expiry instant + off ns)
}

fn gen_case(rng: &mut Rng, st: &mut Stats, thorough: bool, fake: bool) -> CasePlan {
    let store_backend = rng.chance(3, 10);
    let ordered = rng.chance(1, 8);
    let ttl_s = *rng.pick(&TTLS);
    let quorum = if store_backend && rng.chance(1, 10) { 0 } else { rng.range(1, 4) as u64 };
    st.count(if store_backend { "gen.backend_store" } else { "gen.backend_service" });
    st.count(&format!("gen.quorum_{}", quorum));
    st.count(&format!("gen.ttl_{}", ttl_s));
    if ordered {
        st.count("gen.ordered_mode");
    }
    let good: Vec<String> = (1..=5).map(|i| format!("h{}:7000", i)).collect();
    let odd = ["ghost:1", "nocolon", "a:b:c", "", "\u{fc}:1", ":"];
    let reps = ["c1", "c2", "c3", "c4", "c5", "", "\u{e9}"];
    let start_ns = 1_700_000_000_000_000_000i64 + rng.below(1_000_000_000) as i64;
    let ttl_ns = ttl_s as i64 * 1_000_000_000;
    let n_ops = if thorough { rng.range(8, 60) } else { rng.range(6, 36) } as usize;
    let mut steps = vec![];
    // most cases register some proxies first (in any order, with re-registrations later)
    let pre = if rng.chance(1, 6) { rng.below(3) as usize } else { rng.range(3, 5) as usize };
    let mut order: Vec<String> = good.clone();
    for i in (1..order.len()).rev() {
        let j = rng.below(i as u64 + 1) as usize;
        order.swap(i, j);
    }
    let hot = order[0].clone();
    for g in order.iter().take(pre) {
        steps.push((0, AOp::AddProxy { a: g.clone(), index: ordered || rng.chance(1, 10) }));
    }
    let pick_addr = |rng: &mut Rng| -> String {
        match rng.below(12) {
            0..=4 => hot.clone(),
            5..=9 => rng.pick(&good).clone(),
            _ => rng.pick(&odd).to_string(),
        }
    };
    let pick_rep = |rng: &mut Rng| -> String {
        if rng.chance(9, 10) { format!("c{}", rng.range(1, 5)) } else { rng.pick(&reps).to_string() }
    };
    for _ in 0..n_ops {
        // clock movement
        let delta: i64 = if ttl_s >= 1_000_000_000 {
            match rng.below(8) {
                0 => 0,
                1 => 1,
                2 => 999_999_999,
                3 => 1_000_000_000,
                4 => rng.below(3_000_000_000) as i64,
                5 => -(rng.below(2_000_000_000) as i64),
                6 => ttl_ns / 3,
                _ => rng.below(1_000_000) as i64,
            }
        } else {
            match rng.below(25) {
                22..=24 => BOUNDARY + rng.range(-1, 1),
                14..=17 => rng.below(1_000_000) as i64,
                18..=21 => rng.below(300_000_000) as i64,
                0 | 1 => 0,
                2 => 1,
                3 => 1_000_000,
                4 => 999_999_999,
                5 => 1_000_000_000,
                6 => ttl_ns - 1_000_000_000,
                7 => ttl_ns - 1,
                8 => ttl_ns,
                9 => ttl_ns + 1,
                10 => -(rng.below(1_500_000_000) as i64),
                11 => rng.below(2 * ttl_ns as u64 + 1) as i64,
                12 => ttl_ns / 2,
                _ => rng.below(1_000_000_000) as i64,
            }
        };
        let op = match rng.below(100) {
            0..=39 => {
                st.count("gen.report");
                AOp::Report { a: pick_addr(rng), r: pick_rep(rng) }
            }
            40..=64 => {
                st.count("gen.getf");
                if store_backend && rng.chance(1, 3) {
                    // arbitrary durations at the store level
                    let t = match rng.below(7) {
                        0 => i64::MAX as i128 * 1_000_000, // Duration::max_value()
                        1 => 0,
                        2 => -(rng.below(5_000_000_000) as i128),
                        3 => rng.below(3_000_000_000) as i128,
                        4 => ttl_ns as i128 + rng.range(-2, 2) as i128,
                        5 => 1_500_000_000,
                        _ => ttl_ns as i128,
                    };
                    AOp::GetF { ttl_ns: t, q: if rng.chance(1, 6) { rng.below(6) } else { quorum } }
                } else {
                    AOp::GetF { ttl_ns: ttl_ns as i128, q: quorum }
                }
            }
            65..=74 => {
                st.count("gen.addproxy");
                let a = pick_addr(rng);
                AOp::AddProxy { a, index: if ordered { !rng.chance(1, 6) } else { rng.chance(1, 10) } }
            }
            75..=78 => {
                st.count("gen.rmproxy");
                AOp::RmProxy { a: pick_addr(rng) }
            }
            79..=84 => {
                st.count("gen.replace");
                AOp::Replace { a: pick_addr(rng) }
            }
            85..=90 => {
                st.count("gen.restore");
                // ageing through the restore path: whole seconds, >= 2 s away from the ttl boundary
                let shift = match rng.below(6) {
                    0 => 0,
                    1 => ttl_s as i64 + 2 + rng.below(3) as i64,
                    2 => (ttl_s as i64 - 2 - rng.below(3) as i64).max(0),
                    3 => rng.below(2 * ttl_s + 3) as i64,
                    4 => -(rng.below(4) as i64),
                    _ => rng.below(8) as i64,
                };
                let mut inject = vec![];
                if rng.chance(1, 3) {
                    let t = if rng.chance(1, 12) {
                        // times chrono cannot represent: get_failures panics (only via restore)
                        Ts::Abs(*rng.pick(&[8_210_298_412_800i64, -8_334_632_851_201, i64::MAX, i64::MIN]))
                    } else if rng.chance(1, 8) {
                        Ts::Abs(*rng.pick(&[8_210_298_412_799i64, -8_334_632_851_200, 0, -1]))
                    } else if fake {
                        Ts::Age(rng.below(2 * ttl_s.min(1000) + 4) as i64)
                    } else {
                        // real clock: keep >= 2 s away from the ttl boundary
                        let k = 2 + rng.below(4) as i64;
                        Ts::Age(if rng.chance(1, 2) { (ttl_s.min(1_000_000) as i64 - k).max(0) } else { ttl_s.min(1_000_000) as i64 + k })
                    };
                    inject.push((pick_addr(rng), pick_rep(rng), t));
                }
                AOp::Restore {
                    shift_s: shift,
                    inject,
                    epoch_delta: if rng.chance(1, 8) { -1 } else { rng.below(3) as i64 },
                    drop_failed: rng.chance(1, 10),
                }
            }
            91..=93 => {
                st.count("gen.addcluster");
                AOp::AddCluster { name: format!("c{}", rng.below(2)), n: 4 }
            }
            94..=95 => {
                st.count("gen.rmcluster");
                AOp::RmCluster { name: format!("c{}", rng.below(2)) }
            }
            96..=97 => {
                st.count("gen.failed");
                AOp::Failed
            }
            _ => {
                if store_backend {
                    st.count("gen.cleanup");
                    AOp::Cleanup { ttl_ns: ttl_ns as i128, q: quorum }
                } else {
                    st.count("gen.getf");
                    AOp::GetF { ttl_ns: ttl_ns as i128, q: quorum }
                }
            }
        };
        steps.push((delta, op));
    }
    // always end with a query and the failed list
    steps.push((0, AOp::GetF { ttl_ns: ttl_ns as i128, q: quorum }));
    steps.push((0, AOp::Failed));
    CasePlan { store_backend, ordered, ttl_s, quorum, start_ns, steps }
}

fn new_ctx(store_backend: bool, ordered: bool, ttl_s: u64, quorum: u64, fake: bool, start_ns: i64) -> Ctx {
    let be = if store_backend {
        Backend::Store { store: MetaStore::new(ordered) }
    } else {
        let rt = tokio::runtime::Builder::new_current_thread().build().expect("rt");
        Backend::Svc { svc: new_service(ordered, ttl_s, quorum), rt, ttl_s, quorum }
    };
    Ctx {
        be,
        fake,
        now: start_ns,
        ordered,
        hist: HashMap::new(),
        registry: HashSet::new(),
        lines: vec![],
        dirty_clock: false,
        oracle_fail: vec![],
        panicked: false,
    }
}

fn run_plan(plan: &CasePlan, fake: bool, st: &mut Stats) -> Ctx {
    let mut cx = new_ctx(plan.store_backend, plan.ordered, plan.ttl_s, plan.quorum, fake, plan.start_ns);
    let hdr = format!(
        "init {} {} {} {}",
        if plan.ordered { 1 } else { 0 },
        if plan.store_backend { "store" } else { "svc" },
        plan.ttl_s,
        plan.quorum
    );
    cx.push(hdr, "ok".to_string());
    for (delta, op) in plan.steps.iter() {
        if *delta >= BOUNDARY - 2 {
            // jump exactly onto (or 1 ns around) the instant at which some stored report expires
            let snap = cx.be.snapshot();
            let mut ts: Vec<i64> = snap.failures.values().flat_map(|m| m.values().copied()).collect();
            ts.sort();
            ts.dedup();
            if let Some(t) = ts.get((plan.start_ns as usize) % ts.len().max(1)) {
                let target = (*t as i128) * NS + (plan.ttl_s as i128) * NS + (*delta - BOUNDARY) as i128;
                if target > 0 && target < i64::MAX as i128 / 2 {
                    cx.now = target as i64;
                    st.count("gen.clock_on_expiry_boundary");
                }
            }
        } else {
            cx.now = cx.now.saturating_add(*delta).max(0);
        }
        cx.exec(op, st);
        if cx.panicked || cx.dirty_clock {
            break;
        }
    }
    cx
}

// ---------------------------------------------------------------------------------------------
// replay files: the op lines of ops.txt (see the Lean driver), clock taken from the line in
// fake mode and from the real clock otherwise; `init <ordered> <svc|store> <ttl_s> <quorum>`
// ---------------------------------------------------------------------------------------------
fn parse_failures_tok(t: &str, now_s: i64) -> Option<Vec<(String, String, i64)>> {
    let mut v = vec![];
    if t == "-" {
        return Some(v);
    }
    for e in t.split(',') {
        let (a, rs) = e.split_once('=')?;
        let a = unhx(a)?;
        if rs == "-" {
            continue;
        }
        for item in rs.split('+') {
            let (r, ts) = item.split_once('@')?;
            let t = if let Some(age) = ts.strip_prefix('~') { now_s - age.parse::<i64>().ok()? } else { ts.parse::<i64>().ok()? };
            v.push((a.clone(), unhx(r)?, t));
        }
    }
    Some(v)
}

fn replay(lines: &[String], fake: bool, s: &mut Streams) {
    let mut cx: Option<Ctx> = None;
    let mut flush = |cx: &mut Option<Ctx>, s: &mut Streams| {
        if let Some(c) = cx.take() {
            let case = s.case();
            let ops: Vec<String> = c.lines.iter().map(|(o, _)| o.clone()).collect();
            for (o, i) in c.lines.iter() {
                s.op(o, i);
            }
            for (what, fid) in c.oracle_fail.iter() {
                s.stats.oracle_failure(case, what, fid, ops.clone());
            }
        }
    };
    for l in lines {
        if l.starts_with('#') {
            continue;
        }
        let t: Vec<&str> = l.split(' ').collect();
        if t[0] == "case" {
            flush(&mut cx, s);
            continue;
        }
        if t[0] == "init" {
            flush(&mut cx, s);
            let ordered = t.get(1) == Some(&"1");
            let store = t.get(2) == Some(&"store");
            let ttl_s = t.get(3).and_then(|x| x.parse().ok()).unwrap_or(60u64);
            let q = t.get(4).and_then(|x| x.parse().ok()).unwrap_or(1u64);
            let mut c = new_ctx(store, ordered, ttl_s, q, fake, 1_700_000_000_000_000_000);
            c.push(format!("init {} {} {} {}", if ordered { 1 } else { 0 }, if store { "store" } else { "svc" }, ttl_s, q), "ok".to_string());
            cx = Some(c);
            continue;
        }
        if cx.is_none() {
            let mut c = new_ctx(false, false, 60, 1, fake, 1_700_000_000_000_000_000);
            c.push("init 0 svc 60 1".to_string(), "ok".to_string());
            cx = Some(c);
        }
        let c = cx.as_mut().expect("ctx");
        if c.panicked {
            continue;
        }
        let clock_tok = |c: &mut Ctx, tok: &str| {
            if let Ok(n) = tok.parse::<i64>() {
                c.now = n;
            }
        };
        let op = match t[0] {
            "report" if t.len() >= 4 => {
                clock_tok(c, t[1]);
                match (unhx(t[2]), unhx(t[3])) {
                    (Some(a), Some(r)) => Some(AOp::Report { a, r }),
                    _ => None,
                }
            }
            "getf" | "cleanup" if t.len() >= 4 => {
                clock_tok(c, t[1]);
                match (t[2].parse::<i128>(), t[3].parse::<u64>()) {
                    (Ok(ttl_ns), Ok(q)) => Some(if t[0] == "getf" { AOp::GetF { ttl_ns, q } } else { AOp::Cleanup { ttl_ns, q } }),
                    _ => None,
                }
            }
            "addproxy" if t.len() >= 3 => unhx(t[1]).map(|a| AOp::AddProxy { a, index: t[2] == "1" }),
            "rmproxy" if t.len() >= 2 => unhx(t[1]).map(|a| AOp::RmProxy { a }),
            "replace" if t.len() >= 2 => unhx(t[1]).map(|a| AOp::Replace { a }),
            "addcluster" if t.len() >= 2 => Some(AOp::AddCluster { name: t[1].to_string(), n: 4 }),
            "rmcluster" if t.len() >= 2 => Some(AOp::RmCluster { name: t[1].to_string() }),
            // in replay files `alloc`/`release` lines (as found in ops.txt) re-run the cluster operation
            "alloc" => Some(AOp::AddCluster { name: t.get(3).unwrap_or(&"c0").to_string(), n: 4 }),
            "release" => Some(AOp::RmCluster { name: t.get(3).unwrap_or(&"c0").to_string() }),
            "failed" => Some(AOp::Failed),
            "restore" if t.len() >= 6 => {
                // epoch is relative to nothing: take it as the absolute value wanted
                let now_s = (if fake { c.now } else { real_now_ns() }).div_euclid(1_000_000_000);
                let cur = c.be.snapshot();
                let want_epoch: i64 = t[1].parse().unwrap_or(cur.global_epoch as i64);
                let inject = parse_failures_tok(t[5], now_s).unwrap_or_default();
                // replace the whole failures map: drop everything first through a restore of the wanted map
                let mut blob = cur.clone();
                blob.failures.clear();
                for (a, r, tt) in inject.iter() {
                    blob.failures.entry(a.clone()).or_default().insert(r.clone(), *tt);
                }
                if t[4] == "-" {
                    blob.failed_proxies.clear();
                }
                blob.global_epoch = want_epoch.max(0) as u64;
                let blob: MetaStore = serde_json::from_str(&serde_json::to_string(&blob).expect("ser")).expect("de");
                let opl = format!("restore {} {} {} {} {}", blob.global_epoch, if blob.enable_ordered_proxy { 1 } else { 0 },
                    proxies_tok(&blob), failed_tok(&blob), failures_tok(&blob.failures));
                let res = c.be.restore(blob.clone());
                let after = c.be.snapshot();
                c.push(opl, format!("{} | {}", code(&res), dump(&after)));
                if res.is_ok() {
                    c.hist.clear();
                    for (a, m) in blob.failures.iter() {
                        for (r, tt) in m.iter() {
                            c.hist.entry((a.clone(), r.clone())).or_default().push((*tt as i128) * NS);
                        }
                    }
                    c.registry = blob.all_proxies.keys().cloned().collect();
                }
                None
            }
            _ => None,
        };
        if let Some(op) = op {
            c.exec(&op, &mut s.stats);
        }
    }
    flush(&mut cx, s);
}

fn main() {
    let args = parse_args();
    let fake = args.extra.get("clock").map(|s| s.as_str()) != Some("real");
    let mut rng = Rng::new(args.seed);
    let mut s = Streams::new(&args);

    // self-test of the clock control: the code's own clock source must obey it
    if fake {
        FAKE_NS.store(1_234_567_890_123_456_789, Ordering::SeqCst);
        let t = chrono::Utc::now();
        assert_eq!(t.timestamp(), 1_234_567_890, "clock interposition is not effective");
        assert_eq!(t.timestamp_subsec_nanos(), 123_456_789);
        s.stats.extra.insert("clock".into(), json!("fake (clock_gettime interposed; verified against chrono::Utc::now)"));
    } else {
        FAKE_NS.store(PASS, Ordering::SeqCst);
        let d = (chrono::Utc::now().timestamp() - real_now_ns().div_euclid(1_000_000_000)).abs();
        assert!(d <= 1, "real clock passthrough broken");
        s.stats.extra.insert("clock".into(), json!("real (ages injected through restore_metadata)"));
    }
    // silence panic messages of the expected PANIC observables
    std::panic::set_hook(Box::new(|_| {}));

    if let Some(p) = &args.replay {
        let lines = read_lines(p);
        replay(&lines, fake, &mut s);
    } else {
        let n_cases = match (args.thorough, fake) {
            (false, true) => 4_000,
            (true, true) => 100_000,
            (false, false) => 800,
            (true, false) => 15_000,
        };
        let mut discarded = 0u64;
        let mut done = 0u64;
        while done < n_cases {
            let mut st_tmp = Stats::default();
            let plan = gen_case(&mut rng, &mut st_tmp, args.thorough, fake);
            let cx = run_plan(&plan, fake, &mut st_tmp);
            if cx.dirty_clock {
                // the wall clock crossed a boundary during a call: the answer is not a function of
                // the op line; regenerate (never happens with the fake clock)
                discarded += 1;
                if discarded > 10 * n_cases {
                    panic!("too many discarded cases");
                }
                continue;
            }
            done += 1;
            for (k, v) in st_tmp.counters.iter() {
                s.stats.add(k, *v);
            }
            let case = s.case();
            let ops: Vec<String> = cx.lines.iter().map(|(o, _)| o.clone()).collect();
            for (o, i) in cx.lines.iter() {
                s.op(o, i);
            }
            for (what, fid) in cx.oracle_fail.iter() {
                s.stats.oracle_failure(case, what, fid, ops.clone());
            }
            let c = &st_tmp.counters;
            let g = |k: &str| c.get(k).copied().unwrap_or(0);
            // non-trivial: an address was listed at some query and (a report expired or a proxy with
            // reports was re-registered) in the same case
            if g("out.getf_listed") > 0 && (g("out.getf_expired_some") > 0 || g("out.reregister_with_reports") > 0) {
                s.stats.nontrivial_case(&ops.join("\n"));
            }
            if done <= 3 {
                s.stats.sample(json!({"case": case, "ordered": cx.ordered, "first_ops": ops.iter().take(6).collect::<Vec<_>>() }));
            }
        }
        s.stats.add("gen.discarded_clock_crossing", discarded);
    }
    s.finish(
        "failures",
        "cases: random op sequences (reports 40%, queries 25%, add/remove/replace proxy, restore-ageing, cluster alloc/release) over 5 registrable + 6 odd addresses x 7 reporters, quorum 0..4, ttl {1,5,60,1e9}s, clock steps on and around ttl boundaries (+-1 ns), backwards clocks; non-trivial = some query listed an address AND (a report expired at a query OR a proxy with reports was re-registered) in the same case; distinct = distinct op sequences",
    );
}
