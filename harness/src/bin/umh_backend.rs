//! C08 (backend half): the real `BackendNode` / `handle_backend` / `handle_conn` /
//! `handle_conn_err` queue machine of src/proxy/backend.rs over a scripted in-memory connection.
//!
//! The future returned by `BackendNode::new` is polled *by hand* on a current-thread tokio runtime
//! with a paused clock: after every script directive the harness polls it until no waker fired
//! any more, so one `p` line = one poll of `handle_backend`.  Two connection flavours:
//!
//! * mode `B` (byte level, the production wiring): tasks are real `CmdCtx` values with real
//!   `CmdReplySender`/`CmdReplyReceiver` pairs, the handler is the real `ReplyCommitHandler`, and
//!   the connection is the real `RespCodec` framed (same glue as `create_conn`) over a scripted
//!   `AsyncRead + AsyncWrite`: the script decides how many request bytes the socket accepts, at which
//!   byte a write fails, how the reply byte stream is fragmented, where it stalls / ends / resets /
//!   carries garbage.  The fake backend parses the accepted bytes and answers the k-th complete
//!   request with a bulk string echoing that request's unique id.
//! * mode `P` (packet level): tasks are `ReqTask<CmdCtx>` (Simple and Multi), packets are
//!   `OptionalMulti<RespPacket>`; the scripted sink/stream also produces replies of the wrong shape
//!   (`set_result` fan-out, length mismatch), decode-error items and unsolicited replies.
//!
//! Line protocol (ops.txt / impl.txt):
//!   `cfg <B|P> <disabled|fixed|dynamic> <flush_size> <low0|low1> <high_ms> <timeout_ms>`  -> `-`
//!   `s <directive>`   script input (what `--replay` re-executes)                      -> `-`, or for
//!                     `s enq`/`s enqm`: `q` (queued) | `rej <id>=le:s ...` (BackendNode::send refused)
//!   `p <events>`      one poll of handle_backend as seen at the ConnFactory / Sink / Stream boundary
//!                     (`cok cfail wd poll w:s<id> w:m<ids> we:io we:ot i:s<tag> i:m<tags> i:e rc pe:0|1`)
//!                     -> `<phase C|U|W|X> <id>=<result> ...` results observed on the real
//!                     `CmdReplyReceiver`s after that poll, sorted by id.
//! The Lean driver replays the `s enq/enqm/close` and `p` lines through `Um.BackendConn.step`.
//! `--replay` executes the `cfg`/`s` lines and regenerates the `p` lines.
//!
//! Oracle (on the implementation, no model): every task gets exactly one result by the end of the
//! case; a backend reply delivered to a task carries that task's id; after the backend has been
//! silent for several timeouts no task is left unanswered; no request is written on more than
//! 1 + MAX_BACKEND_RETRY connections (F08b, fixed by /repo commit 0e64416: a hit is a violation).
use futures::{Sink, SinkExt, Stream, TryStreamExt};
use serde_json::json;
use std::collections::{BTreeMap, VecDeque};
use std::future::Future;
use std::io;
use std::net::SocketAddr;
use std::num::NonZeroUsize;
use std::pin::Pin;
use std::sync::atomic::{AtomicBool, AtomicI64, AtomicU64, Ordering};
use std::sync::{Arc, Mutex};
use std::task::{Context, Poll, Wake, Waker};
use std::time::Duration;
use tokio::io::{AsyncRead, AsyncWrite, ReadBuf};
use tokio_util::codec::Decoder;
use umharness::util::*;
use undermoon::common::batch::{BatchStats, BatchStrategy};
use undermoon::protocol::{
    new_simple_packet_codec, Array, BulkStr, DecodeError, EncodeError, OptionalMulti, Resp, RespCodec,
    RespPacket, RespVec,
};
use undermoon::proxy::backend::{
    BackendError, BackendNode, BackendResult, CmdTask, CmdTaskResultHandler, ConnFactory, ConnSink,
    ConnStream, CreateConnResult, ReqTask,
};
use undermoon::proxy::command::{new_command_pair, CmdReplyReceiver, Command, CommandError};
use undermoon::proxy::reply::ReplyCommitHandler;
use undermoon::proxy::service::{ClusterNodesVersion, ServerProxyConfig};
use undermoon::proxy::session::CmdCtx;

/// `MAX_BACKEND_RETRY` of src/proxy/backend.rs (private there; the Lean side gets it from
/// tools/extract_backend.py, and a wrong value here shows up as an oracle/model disagreement).
const MAX_BACKEND_RETRY: usize = 3;
const INF: usize = usize::MAX;
const ADDRESS: &str = "127.0.0.1:6379";

// ---------------------------------------------------------------------------------------------
// shared world
// ---------------------------------------------------------------------------------------------
#[derive(Clone, Copy, PartialEq, Debug)]
enum Phase {
    Connecting,
    Up,
    Waiting,
    Exited,
}

impl Phase {
    fn letter(self) -> &'static str {
        match self {
            Phase::Connecting => "C",
            Phase::Up => "U",
            Phase::Waiting => "W",
            Phase::Exited => "X",
        }
    }
}

enum PItem {
    Pkt(OptionalMulti<RespPacket>),
    Err,
    Eof,
}

#[derive(Default)]
struct Conn {
    id: u64,
    // byte level
    wcap: usize,
    werr: Option<bool>, // Some(true) = io error, Some(false) = other (P mode only)
    wwaker: Option<Waker>,
    inbuf: Vec<u8>,
    replybuf: VecDeque<u8>,
    released: VecDeque<u8>,
    rauto: bool,
    reof: bool,
    rerr: bool,
    rwaker: Option<Waker>,
    // packet level
    reqs: VecDeque<(bool, Vec<u64>)>,
    outbox: VecDeque<PItem>,
    eof_sticky: bool,
    // bookkeeping
    received: Vec<u64>,
    bytes_in: usize,
    bytes_out: usize,
}

impl Conn {
    fn wake_w(&mut self) {
        if let Some(w) = self.wwaker.take() {
            w.wake();
        }
    }
    fn wake_r(&mut self) {
        if let Some(w) = self.rwaker.take() {
            w.wake();
        }
    }
    /// fake backend, byte level: every complete `*2 $4 ECHO $n <id>` request is answered by `$n <id>`.
    fn parse_requests(&mut self) {
        loop {
            let mut crlf = 0;
            let mut end = None;
            let mut last_line_start = 0;
            let mut i = 0;
            while i + 1 < self.inbuf.len() {
                if self.inbuf[i] == b'\r' && self.inbuf[i + 1] == b'\n' {
                    crlf += 1;
                    if crlf == 4 {
                        last_line_start = i + 2;
                    }
                    if crlf == 5 {
                        end = Some(i + 2);
                        break;
                    }
                    i += 2;
                } else {
                    i += 1;
                }
            }
            let end = match end {
                Some(e) => e,
                None => return,
            };
            let idb: Vec<u8> = self.inbuf[last_line_start..end - 2].to_vec();
            let id: u64 = std::str::from_utf8(&idb).ok().and_then(|s| s.parse().ok()).unwrap_or(0);
            self.inbuf.drain(..end);
            self.received.push(id);
            let reply = format!("${}\r\n{}\r\n", idb.len(), String::from_utf8_lossy(&idb));
            self.replybuf.extend(reply.as_bytes());
            if self.rauto {
                self.release(INF);
            }
        }
    }
    fn release(&mut self, n: usize) -> usize {
        let k = n.min(self.replybuf.len());
        for _ in 0..k {
            if let Some(b) = self.replybuf.pop_front() {
                self.released.push_back(b);
            }
        }
        if k > 0 {
            self.wake_r();
        }
        k
    }
    fn answer_front(&mut self, shape: u8) -> bool {
        let (multi, ids) = match self.reqs.pop_front() {
            Some(r) => r,
            None => return false,
        };
        let rp = |id: u64| RespPacket::Data(Resp::Bulk(BulkStr::Str(id.to_string().into_bytes())));
        let pkt = match (multi, shape) {
            (false, 0) => OptionalMulti::Single(rp(ids.first().copied().unwrap_or(0))),
            (false, _) => OptionalMulti::Multi(ids.iter().map(|i| rp(*i)).collect()),
            (true, 0) => OptionalMulti::Multi(ids.iter().map(|i| rp(*i)).collect()),
            (true, 1) => OptionalMulti::Single(rp(ids.first().copied().unwrap_or(0))),
            (true, 2) => OptionalMulti::Multi(ids.iter().skip(1).map(|i| rp(*i)).collect()),
            (true, _) => {
                let mut v: Vec<RespPacket> = ids.iter().map(|i| rp(*i)).collect();
                v.push(rp(0));
                OptionalMulti::Multi(v)
            }
        };
        self.outbox.push_back(PItem::Pkt(pkt));
        self.wake_r();
        true
    }
}

struct World {
    mode_b: bool,
    evs: Vec<String>,
    phase: Phase,
    decision: Option<bool>,
    born_broken: Option<u8>,
    connect_waker: Option<Waker>,
    connect_pending: bool,
    conn: Option<Arc<Mutex<Conn>>>,
    conn_seq: u64,
    tick_deadline: Option<tokio::time::Instant>,
    timeout: Duration,
    last_read_pending: bool,
    last_pe: Option<bool>,
    /// request id -> connections on which it was start_sent
    written_on: BTreeMap<u64, Vec<u64>>,
}

type W = Arc<Mutex<World>>;

fn ev(w: &W, e: String) {
    w.lock().unwrap().evs.push(e);
}

// ---------------------------------------------------------------------------------------------
// ids carried by packets
// ---------------------------------------------------------------------------------------------
fn digits(b: &[u8]) -> u64 {
    std::str::from_utf8(b).ok().and_then(|s| s.parse().ok()).unwrap_or(0)
}

trait Tagged {
    /// (is_multi, ids) of a request packet
    fn req_ids(&self) -> (bool, Vec<u64>);
    /// token of a reply packet: `s<tag>` / `m<tags>`
    fn reply_token(&self) -> String;
}

fn reply_tag(p: &RespPacket) -> u64 {
    match p.to_resp_vec() {
        Resp::Bulk(BulkStr::Str(b)) => digits(&b),
        _ => 0,
    }
}

impl Tagged for RespPacket {
    fn req_ids(&self) -> (bool, Vec<u64>) {
        (false, vec![self.get_array_element(1).map(digits).unwrap_or(0)])
    }
    fn reply_token(&self) -> String {
        format!("s{}", reply_tag(self))
    }
}

impl Tagged for OptionalMulti<RespPacket> {
    fn req_ids(&self) -> (bool, Vec<u64>) {
        match self {
            OptionalMulti::Single(p) => p.req_ids(),
            OptionalMulti::Multi(v) => (true, v.iter().map(|p| p.req_ids().1[0]).collect()),
        }
    }
    fn reply_token(&self) -> String {
        match self {
            OptionalMulti::Single(p) => format!("s{}", reply_tag(p)),
            OptionalMulti::Multi(v) => {
                format!("m{}", v.iter().map(|p| reply_tag(p).to_string()).collect::<Vec<_>>().join(","))
            }
        }
    }
}

fn ids_token(multi: bool, ids: &[u64]) -> String {
    if multi {
        format!("m{}", ids.iter().map(|i| i.to_string()).collect::<Vec<_>>().join(","))
    } else {
        format!("s{}", ids.first().copied().unwrap_or(0))
    }
}

// ---------------------------------------------------------------------------------------------
// logging wrappers: exactly what handle_conn sees at the Sink / Stream boundary
// ---------------------------------------------------------------------------------------------
struct LogSink<T> {
    inner: ConnSink<T>,
    w: W,
    conn_id: u64,
}

fn werr_token(e: &BackendError) -> String {
    match e {
        BackendError::Io(_) => "we:io".to_string(),
        _ => "we:ot".to_string(),
    }
}

impl<T: Tagged> Sink<T> for LogSink<T> {
    type Error = BackendError;
    fn poll_ready(mut self: Pin<&mut Self>, cx: &mut Context<'_>) -> Poll<Result<(), BackendError>> {
        let r = self.inner.as_mut().poll_ready(cx);
        if let Poll::Ready(Err(e)) = &r {
            ev(&self.w, werr_token(e));
        }
        r
    }
    fn start_send(mut self: Pin<&mut Self>, item: T) -> Result<(), BackendError> {
        let (multi, ids) = item.req_ids();
        {
            let mut w = self.w.lock().unwrap();
            w.evs.push(format!("w:{}", ids_token(multi, &ids)));
            let cid = self.conn_id;
            for id in ids.iter() {
                w.written_on.entry(*id).or_default().push(cid);
            }
        }
        let r = self.inner.as_mut().start_send(item);
        if let Err(e) = &r {
            ev(&self.w, werr_token(e));
        }
        r
    }
    fn poll_flush(mut self: Pin<&mut Self>, cx: &mut Context<'_>) -> Poll<Result<(), BackendError>> {
        let r = self.inner.as_mut().poll_flush(cx);
        if let Poll::Ready(Err(e)) = &r {
            ev(&self.w, werr_token(e));
        }
        r
    }
    fn poll_close(mut self: Pin<&mut Self>, cx: &mut Context<'_>) -> Poll<Result<(), BackendError>> {
        self.inner.as_mut().poll_close(cx)
    }
}

struct LogStream<T> {
    inner: ConnStream<T>,
    w: W,
}

impl<T: Tagged> Stream for LogStream<T> {
    type Item = Result<T, BackendError>;
    fn poll_next(mut self: Pin<&mut Self>, cx: &mut Context<'_>) -> Poll<Option<Self::Item>> {
        let r = self.inner.as_mut().poll_next(cx);
        let mut w = self.w.lock().unwrap();
        match &r {
            Poll::Pending => w.last_read_pending = true,
            Poll::Ready(None) => {
                w.last_read_pending = false;
                w.evs.push("rc".to_string())
            }
            Poll::Ready(Some(Ok(p))) => {
                w.last_read_pending = false;
                w.evs.push(format!("i:{}", p.reply_token()))
            }
            Poll::Ready(Some(Err(_))) => {
                w.last_read_pending = false;
                w.evs.push("i:e".to_string())
            }
        }
        drop(w);
        r
    }
}

// ---------------------------------------------------------------------------------------------
// byte-level scripted socket
// ---------------------------------------------------------------------------------------------
struct ScriptIo {
    c: Arc<Mutex<Conn>>,
}

impl AsyncWrite for ScriptIo {
    fn poll_write(self: Pin<&mut Self>, cx: &mut Context<'_>, buf: &[u8]) -> Poll<io::Result<usize>> {
        let mut c = self.c.lock().unwrap();
        if c.werr.is_some() {
            return Poll::Ready(Err(io::Error::from(io::ErrorKind::BrokenPipe)));
        }
        if c.wcap == 0 {
            c.wwaker = Some(cx.waker().clone());
            return Poll::Pending;
        }
        let n = c.wcap.min(buf.len());
        if c.wcap != INF {
            c.wcap -= n;
        }
        c.bytes_in += n;
        c.inbuf.extend_from_slice(&buf[..n]);
        c.parse_requests();
        Poll::Ready(Ok(n))
    }
    fn poll_flush(self: Pin<&mut Self>, _cx: &mut Context<'_>) -> Poll<io::Result<()>> {
        Poll::Ready(Ok(()))
    }
    fn poll_shutdown(self: Pin<&mut Self>, _cx: &mut Context<'_>) -> Poll<io::Result<()>> {
        Poll::Ready(Ok(()))
    }
}

impl AsyncRead for ScriptIo {
    fn poll_read(self: Pin<&mut Self>, cx: &mut Context<'_>, buf: &mut ReadBuf<'_>) -> Poll<io::Result<()>> {
        let mut c = self.c.lock().unwrap();
        if !c.released.is_empty() {
            let n = buf.remaining().min(c.released.len());
            let chunk: Vec<u8> = c.released.drain(..n).collect();
            buf.put_slice(&chunk);
            c.bytes_out += n;
            return Poll::Ready(Ok(()));
        }
        if c.rerr {
            return Poll::Ready(Err(io::Error::from(io::ErrorKind::ConnectionReset)));
        }
        if c.reof {
            return Poll::Ready(Ok(()));
        }
        c.rwaker = Some(cx.waker().clone());
        Poll::Pending
    }
}

// ---------------------------------------------------------------------------------------------
// packet-level scripted sink / stream
// ---------------------------------------------------------------------------------------------
struct PSink {
    c: Arc<Mutex<Conn>>,
}

impl Sink<OptionalMulti<RespPacket>> for PSink {
    type Error = BackendError;
    fn poll_ready(self: Pin<&mut Self>, cx: &mut Context<'_>) -> Poll<Result<(), BackendError>> {
        let mut c = self.c.lock().unwrap();
        match c.werr {
            Some(true) => return Poll::Ready(Err(BackendError::Io(io::Error::from(io::ErrorKind::BrokenPipe)))),
            Some(false) => return Poll::Ready(Err(BackendError::InvalidState)),
            None => (),
        }
        if c.wcap == 0 {
            c.wwaker = Some(cx.waker().clone());
            return Poll::Pending;
        }
        Poll::Ready(Ok(()))
    }
    fn start_send(self: Pin<&mut Self>, item: OptionalMulti<RespPacket>) -> Result<(), BackendError> {
        let mut c = self.c.lock().unwrap();
        if c.wcap != INF && c.wcap > 0 {
            c.wcap -= 1;
        }
        let (multi, ids) = item.req_ids();
        c.received.extend(ids.iter().copied());
        c.reqs.push_back((multi, ids));
        if c.rauto {
            c.answer_front(0);
        }
        Ok(())
    }
    fn poll_flush(self: Pin<&mut Self>, _cx: &mut Context<'_>) -> Poll<Result<(), BackendError>> {
        Poll::Ready(Ok(()))
    }
    fn poll_close(self: Pin<&mut Self>, _cx: &mut Context<'_>) -> Poll<Result<(), BackendError>> {
        Poll::Ready(Ok(()))
    }
}

struct PStream {
    c: Arc<Mutex<Conn>>,
}

impl Stream for PStream {
    type Item = Result<OptionalMulti<RespPacket>, BackendError>;
    fn poll_next(self: Pin<&mut Self>, cx: &mut Context<'_>) -> Poll<Option<Self::Item>> {
        let mut c = self.c.lock().unwrap();
        if c.eof_sticky {
            return Poll::Ready(None);
        }
        match c.outbox.pop_front() {
            Some(PItem::Pkt(p)) => Poll::Ready(Some(Ok(p))),
            Some(PItem::Err) => Poll::Ready(Some(Err(BackendError::InvalidProtocol))),
            Some(PItem::Eof) => {
                c.eof_sticky = true;
                Poll::Ready(None)
            }
            None => {
                c.rwaker = Some(cx.waker().clone());
                Poll::Pending
            }
        }
    }
}

// ---------------------------------------------------------------------------------------------
// ConnFactory: create_conn stays pending until the script decides `conn ok` / `conn fail`
// ---------------------------------------------------------------------------------------------
struct ConnectFut<T> {
    w: W,
    _p: std::marker::PhantomData<fn() -> T>,
}

trait BuildConn: Sized {
    fn build(w: &W, c: Arc<Mutex<Conn>>, id: u64) -> (ConnSink<Self>, ConnStream<Self>);
}

impl BuildConn for RespPacket {
    /// same glue as `create_conn` in src/proxy/backend.rs, over the scripted socket instead of a TcpStream
    fn build(w: &W, c: Arc<Mutex<Conn>>, id: u64) -> (ConnSink<Self>, ConnStream<Self>) {
        let io = ScriptIo { c };
        let (encoder, decoder) = new_simple_packet_codec::<RespPacket, RespPacket>();
        let frame = RespCodec::new(encoder, decoder).framed(io);
        let (writer, reader) = futures::StreamExt::split(frame);
        let writer = writer.sink_map_err(|e| match e {
            EncodeError::Io(err) => BackendError::Io(err),
            EncodeError::NotReady(_) => BackendError::InvalidState,
        });
        let reader = reader.map_err(|e| match e {
            DecodeError::InvalidProtocol => BackendError::InvalidProtocol,
            DecodeError::Io(e) => BackendError::Io(e),
        });
        let writer: ConnSink<RespPacket> = Box::pin(writer);
        let reader: ConnStream<RespPacket> = Box::pin(reader);
        (
            Box::pin(LogSink { inner: writer, w: w.clone(), conn_id: id }),
            Box::pin(LogStream { inner: reader, w: w.clone() }),
        )
    }
}

impl BuildConn for OptionalMulti<RespPacket> {
    fn build(w: &W, c: Arc<Mutex<Conn>>, id: u64) -> (ConnSink<Self>, ConnStream<Self>) {
        let writer: ConnSink<Self> = Box::pin(PSink { c: c.clone() });
        let reader: ConnStream<Self> = Box::pin(PStream { c });
        (
            Box::pin(LogSink { inner: writer, w: w.clone(), conn_id: id }),
            Box::pin(LogStream { inner: reader, w: w.clone() }),
        )
    }
}

impl<T: BuildConn> Future for ConnectFut<T> {
    type Output = CreateConnResult<T>;
    fn poll(self: Pin<&mut Self>, cx: &mut Context<'_>) -> Poll<Self::Output> {
        let mut w = self.w.lock().unwrap();
        match w.decision.take() {
            None => {
                w.connect_waker = Some(cx.waker().clone());
                Poll::Pending
            }
            Some(false) => {
                w.connect_pending = false;
                w.phase = Phase::Waiting;
                w.evs.push("cfail".to_string());
                Poll::Ready(Err(BackendError::Io(io::Error::from(io::ErrorKind::ConnectionRefused))))
            }
            Some(true) => {
                w.connect_pending = false;
                w.phase = Phase::Up;
                w.conn_seq += 1;
                let id = w.conn_seq;
                let mut c0 = Conn { id, ..Conn::default() };
                if let Some(k) = w.born_broken.take() {
                    if k == 0 || k == 2 {
                        c0.werr = Some(true);
                    }
                    if k == 1 || k == 2 {
                        c0.reof = true;
                        c0.outbox.push_back(PItem::Eof);
                    }
                }
                let c = Arc::new(Mutex::new(c0));
                w.conn = Some(c.clone());
                w.tick_deadline = Some(tokio::time::Instant::now());
                w.last_pe = None;
                w.evs.push("cok".to_string());
                w.evs.push("poll".to_string());
                drop(w);
                Poll::Ready(Ok(T::build(&self.w, c, id)))
            }
        }
    }
}

struct Factory<T> {
    w: W,
    _p: std::marker::PhantomData<fn() -> T>,
}

impl<T> ConnFactory for Factory<T>
where
    T: BuildConn + undermoon::protocol::Packet + Send + 'static,
{
    type Pkt = T;
    fn create_conn(&self, _addr: SocketAddr) -> Pin<Box<dyn Future<Output = CreateConnResult<T>> + Send>> {
        {
            let mut w = self.w.lock().unwrap();
            if w.phase == Phase::Waiting {
                w.evs.push("wd".to_string());
            }
            w.phase = Phase::Connecting;
            w.connect_pending = true;
            w.conn = None;
        }
        Box::pin(ConnectFut::<T> { w: self.w.clone(), _p: std::marker::PhantomData })
    }
}

/// P mode handler: what `ReplyCommitHandler` does, for `ReqTask<CmdCtx>`
struct FanoutHandler;

impl CmdTaskResultHandler for FanoutHandler {
    type Task = ReqTask<CmdCtx>;
    fn handle_task(&self, task: Self::Task, result: BackendResult<OptionalMulti<RespPacket>>) {
        match result {
            Ok(pkt) => task.set_result(Ok(Box::new(pkt))),
            Err(err) => task.set_resp_result(Ok(Resp::Error(
                format!("backend failed to handle task: {:?}", err).into_bytes(),
            ))),
        }
    }
}

// ---------------------------------------------------------------------------------------------
// script
// ---------------------------------------------------------------------------------------------
#[derive(Clone, Debug, PartialEq)]
enum Op {
    Enq(u64),
    EnqM(Vec<u64>),
    Conn(bool),
    /// connection established but already broken: 0 = writes fail, 1 = peer closed, 2 = both
    ConnBroken(u8),
    Adv(u64),
    Close,
    Wcap(usize),
    Werr(bool),
    Rd(usize),
    Rauto,
    Garbage,
    Reof,
    Rerr,
    Reply(u8),
    Spurious,
    Ierr,
}

fn num(n: usize) -> String {
    if n == INF {
        "inf".to_string()
    } else {
        n.to_string()
    }
}

impl Op {
    fn text(&self) -> String {
        match self {
            Op::Enq(i) => format!("s enq {}", i),
            Op::EnqM(v) => format!(
                "s enqm {}",
                if v.is_empty() { "-".to_string() } else { v.iter().map(|i| i.to_string()).collect::<Vec<_>>().join(",") }
            ),
            Op::Conn(ok) => format!("s conn {}", if *ok { "ok" } else { "fail" }),
            Op::ConnBroken(k) => format!("s conn {}", ["okw", "okr", "okwr"][*k as usize % 3]),
            Op::Adv(ms) => format!("s adv {}", ms),
            Op::Close => "s close".to_string(),
            Op::Wcap(n) => format!("s wcap {}", num(*n)),
            Op::Werr(io) => format!("s werr {}", if *io { "io" } else { "ot" }),
            Op::Rd(n) => format!("s rd {}", num(*n)),
            Op::Rauto => "s rauto".to_string(),
            Op::Garbage => "s garbage".to_string(),
            Op::Reof => "s reof".to_string(),
            Op::Rerr => "s rerr".to_string(),
            Op::Reply(k) => format!("s reply {}", k),
            Op::Spurious => "s spurious".to_string(),
            Op::Ierr => "s ierr".to_string(),
        }
    }
    fn parse(l: &str) -> Option<Op> {
        let t: Vec<&str> = l.split(' ').collect();
        if t.first() != Some(&"s") {
            return None;
        }
        let n = |s: &str| -> Option<usize> {
            if s == "inf" {
                Some(INF)
            } else {
                s.parse().ok()
            }
        };
        match (t.get(1).copied()?, t.get(2).copied()) {
            ("enq", Some(a)) => Some(Op::Enq(a.parse().ok()?)),
            ("enqm", Some("-")) => Some(Op::EnqM(vec![])),
            ("enqm", Some(a)) => Some(Op::EnqM(a.split(',').filter_map(|x| x.parse().ok()).collect())),
            ("conn", Some("okw")) => Some(Op::ConnBroken(0)),
            ("conn", Some("okr")) => Some(Op::ConnBroken(1)),
            ("conn", Some("okwr")) => Some(Op::ConnBroken(2)),
            ("conn", Some(a)) => Some(Op::Conn(a == "ok")),
            ("adv", Some(a)) => Some(Op::Adv(a.parse().ok()?)),
            ("close", _) => Some(Op::Close),
            ("wcap", Some(a)) => Some(Op::Wcap(n(a)?)),
            ("werr", Some(a)) => Some(Op::Werr(a == "io")),
            ("werr", None) => Some(Op::Werr(true)),
            ("rd", Some(a)) => Some(Op::Rd(n(a)?)),
            ("rauto", _) => Some(Op::Rauto),
            ("garbage", _) => Some(Op::Garbage),
            ("reof", _) => Some(Op::Reof),
            ("rerr", _) => Some(Op::Rerr),
            ("reply", Some(a)) => Some(Op::Reply(a.parse().ok()?)),
            ("spurious", _) => Some(Op::Spurious),
            ("ierr", _) => Some(Op::Ierr),
            _ => None,
        }
    }
}

#[derive(Clone, Debug)]
struct Cfg {
    mode_b: bool,
    strategy: u8, // 0 disabled 1 fixed 2 dynamic
    flush_size: usize,
    low_zero: bool,
    high_ms: u64,
    timeout_ms: u64,
}

impl Cfg {
    fn text(&self) -> String {
        format!(
            "cfg {} {} {} {} {} {}",
            if self.mode_b { "B" } else { "P" },
            ["disabled", "fixed", "dynamic"][self.strategy as usize % 3],
            self.flush_size,
            if self.low_zero { "low0" } else { "low1" },
            self.high_ms,
            self.timeout_ms
        )
    }
    fn parse(l: &str) -> Option<Cfg> {
        let t: Vec<&str> = l.split(' ').collect();
        if t.first() != Some(&"cfg") || t.len() < 7 {
            return None;
        }
        Some(Cfg {
            mode_b: t[1] == "B",
            strategy: match t[2] {
                "disabled" => 0,
                "fixed" => 1,
                _ => 2,
            },
            flush_size: t[3].parse().ok().filter(|x| *x > 0)?,
            low_zero: t[4] == "low0",
            high_ms: t[5].parse().ok().filter(|x| *x > 0)?,
            timeout_ms: t[6].parse().ok().filter(|x| *x > 0)?,
        })
    }
}

// ---------------------------------------------------------------------------------------------
// one case against the real code
// ---------------------------------------------------------------------------------------------
struct Flag(AtomicBool);
impl Wake for Flag {
    fn wake(self: Arc<Self>) {
        self.0.store(true, Ordering::SeqCst);
    }
}

struct NoopWake;
impl Wake for NoopWake {
    fn wake(self: Arc<Self>) {}
}

enum Node {
    B(BackendNode<ReplyCommitHandler>),
    P(BackendNode<FanoutHandler>),
}

struct CaseOut {
    lines: Vec<(String, String)>,
    /// id -> results observed (kind string)
    results: BTreeMap<u64, Vec<String>>,
    enqueued: Vec<u64>,
    byzantine: bool,
    corrupt: bool,
    silent_unanswered: Vec<u64>,
    silent_pred: bool,
    silent_refused: u32,
    written_on: BTreeMap<u64, Vec<u64>>,
    polls: u64,
    events: BTreeMap<String, u64>,
    panicked: bool,
}

fn classify(res: Result<Box<undermoon::proxy::command::TaskReply>, CommandError>) -> String {
    match res {
        Ok(reply) => match reply.into_resp_vec() {
            Resp::Bulk(BulkStr::Str(b)) => format!("r{}", digits(&b)),
            Resp::Error(m) => {
                let s = String::from_utf8_lossy(&m).to_string();
                if s.starts_with("backend failed to handle task") {
                    "le:h".to_string()
                } else if s.starts_with("failed to connect to") {
                    "le:c".to_string()
                } else if s.starts_with(undermoon::common::response::ERR_BACKEND_CONNECTION) {
                    "le:s".to_string()
                } else {
                    "r0".to_string()
                }
            }
            _ => "r0".to_string(),
        },
        Err(CommandError::Io(_)) => "e:io".to_string(),
        Err(CommandError::BackendError) => "e:be".to_string(),
        Err(CommandError::Canceled) => "e:ca".to_string(),
        Err(CommandError::InnerError) => "e:in".to_string(),
        Err(CommandError::Dropped) => "e:dr".to_string(),
        Err(CommandError::UnexpectedResponse) => "e:un".to_string(),
    }
}

fn new_ctx(id: u64) -> (CmdCtx, CmdReplyReceiver) {
    let req = RespPacket::Data(Resp::Arr(Array::Arr(vec![
        Resp::Bulk(BulkStr::Str(b"ECHO".to_vec())),
        Resp::Bulk(BulkStr::Str(id.to_string().into_bytes())),
    ])));
    let cmd = Command::new(Box::new(req));
    let (s, r) = new_command_pair(&cmd);
    (CmdCtx::new(cmd, s, 7, false), r)
}

fn make_config(cfg: &Cfg) -> Arc<ServerProxyConfig> {
    Arc::new(ServerProxyConfig {
        address: "127.0.0.1:5299".to_string(),
        announce_address: "127.0.0.1:5299".to_string(),
        announce_host: "127.0.0.1".to_string(),
        slowlog_len: NonZeroUsize::new(16).unwrap(),
        slowlog_log_slower_than: AtomicI64::new(-1),
        slowlog_sample_rate: AtomicU64::new(1000),
        thread_number: NonZeroUsize::new(1).unwrap(),
        backend_conn_num: NonZeroUsize::new(1).unwrap(),
        active_redirection: false,
        max_redirections: None,
        default_redirection_address: None,
        backend_batch_strategy: match cfg.strategy % 3 {
            0 => BatchStrategy::Disabled,
            1 => BatchStrategy::Fixed,
            _ => BatchStrategy::Dynamic,
        },
        backend_flush_size: NonZeroUsize::new(cfg.flush_size.max(1)).unwrap(),
        // BatchState compares std::time::Instant (not the paused tokio clock): only 0 (always
        // elapsed) and one hour (never) are deterministic.
        backend_low_flush_interval: if cfg.low_zero { Duration::from_secs(0) } else { Duration::from_secs(3600) },
        backend_high_flush_interval: Duration::from_millis(cfg.high_ms.max(1)),
        session_timeout: None,
        backend_timeout: Duration::from_millis(cfg.timeout_ms.max(1)),
        password: None,
        command_cluster_nodes_version: ClusterNodesVersion::V1,
    })
}

struct Runner {
    w: W,
    node: Option<Node>,
    fut: Option<Pin<Box<dyn Future<Output = Result<(), BackendError>> + Send>>>,
    flag: Arc<Flag>,
    receivers: BTreeMap<u64, Pin<Box<CmdReplyReceiver>>>,
    out: CaseOut,
}

impl Runner {
    fn new(cfg: &Cfg) -> Runner {
        let w: W = Arc::new(Mutex::new(World {
            mode_b: cfg.mode_b,
            evs: vec![],
            phase: Phase::Connecting,
            decision: None,
            born_broken: None,
            connect_waker: None,
            connect_pending: false,
            conn: None,
            conn_seq: 0,
            tick_deadline: None,
            timeout: Duration::from_millis(cfg.timeout_ms.max(1)),
            last_read_pending: false,
            last_pe: None,
            written_on: BTreeMap::new(),
        }));
        let config = make_config(cfg);
        let stats = Arc::new(BatchStats::default());
        let (node, fut): (Node, Pin<Box<dyn Future<Output = Result<(), BackendError>> + Send>>) = if cfg.mode_b {
            let f = Arc::new(Factory::<RespPacket> { w: w.clone(), _p: std::marker::PhantomData });
            let (n, fut) = BackendNode::new(ADDRESS.to_string(), Arc::new(ReplyCommitHandler), config, f, stats);
            (Node::B(n), Box::pin(fut))
        } else {
            let f = Arc::new(Factory::<OptionalMulti<RespPacket>> { w: w.clone(), _p: std::marker::PhantomData });
            let (n, fut) = BackendNode::new(ADDRESS.to_string(), Arc::new(FanoutHandler), config, f, stats);
            (Node::P(n), Box::pin(fut))
        };
        Runner {
            w,
            node: Some(node),
            fut: Some(fut),
            flag: Arc::new(Flag(AtomicBool::new(true))),
            receivers: BTreeMap::new(),
            out: CaseOut {
                lines: vec![],
                results: BTreeMap::new(),
                enqueued: vec![],
                byzantine: false,
                corrupt: false,
                silent_unanswered: vec![],
                silent_pred: false,
                silent_refused: 0,
                written_on: BTreeMap::new(),
                polls: 0,
                events: BTreeMap::new(),
                panicked: false,
            },
        }
    }

    fn collect(&mut self) -> Vec<(u64, String)> {
        let waker = Waker::from(Arc::new(NoopWake));
        let mut cx = Context::from_waker(&waker);
        let mut done = vec![];
        for (id, r) in self.receivers.iter_mut() {
            if let Poll::Ready(res) = r.as_mut().poll(&mut cx) {
                done.push((*id, classify(res)));
            }
        }
        for (id, k) in done.iter() {
            self.receivers.remove(id);
            self.out.results.entry(*id).or_default().push(k.clone());
        }
        done
    }

    fn results_text(rs: &[(u64, String)]) -> String {
        rs.iter().map(|(i, k)| format!("{}={}", i, k)).collect::<Vec<_>>().join(" ")
    }

    /// poll handle_backend until no waker fired; one `p` line per poll that showed anything
    async fn settle(&mut self) {
        let mut guard = 0;
        loop {
            // let the runtime turn its time driver (tokio fires timers only when the driver is parked;
            // without this an Interval catching up on > 128 missed ticks wakes itself forever)
            tokio::task::yield_now().await;
            if !self.flag.0.swap(false, Ordering::SeqCst) {
                break;
            }
            guard += 1;
            if guard > 100_000 {
                self.out.lines.push(("p !livelock".to_string(), "!".to_string()));
                break;
            }
            let fut = match self.fut.as_mut() {
                Some(f) => f,
                None => break,
            };
            {
                let mut w = self.w.lock().unwrap();
                w.evs.clear();
                w.last_read_pending = false;
                if w.phase == Phase::Up || w.phase == Phase::Waiting {
                    w.evs.push("poll".to_string());
                }
            }
            let waker = Waker::from(self.flag.clone());
            let mut cx = Context::from_waker(&waker);
            let r = std::panic::catch_unwind(std::panic::AssertUnwindSafe(|| fut.as_mut().poll(&mut cx)));
            self.out.polls += 1;
            let mut exited = false;
            match r {
                Err(_) => {
                    self.out.panicked = true;
                    self.fut = None;
                    self.out.lines.push(("p !panic".to_string(), "PANIC".to_string()));
                    break;
                }
                Ok(Poll::Ready(_)) => {
                    exited = true;
                }
                Ok(Poll::Pending) => (),
            }
            let (evs, phase) = {
                let mut w = self.w.lock().unwrap();
                if exited {
                    w.phase = Phase::Exited;
                }
                if w.last_read_pending {
                    // the read loop ended with Pending: the poll reached the timeout check
                    let now = tokio::time::Instant::now();
                    let mut tick = false;
                    if let Some(d) = w.tick_deadline {
                        if now >= d {
                            tick = true;
                            w.tick_deadline = Some(d + w.timeout);
                        }
                    }
                    w.last_pe = Some(tick);
                    w.evs.push(format!("pe:{}", if tick { 1 } else { 0 }));
                }
                (w.evs.clone(), w.phase)
            };
            if exited {
                self.fut = None;
            }
            let rs = self.collect();
            if evs.is_empty() && rs.is_empty() {
                continue;
            }
            for e in evs.iter() {
                let k = e.split(':').next().unwrap_or("").to_string();
                *self.out.events.entry(k).or_insert(0) += 1;
            }
            self.out.lines.push((
                format!("p {}", evs.join(" ")),
                format!("{} {}", phase.letter(), Self::results_text(&rs)).trim_end().to_string(),
            ));
        }
    }

    fn enqueue(&mut self, ids: &[u64], multi: bool) -> String {
        let mut ctxs = vec![];
        for id in ids {
            let (c, r) = new_ctx(*id);
            self.receivers.insert(*id, Box::pin(r));
            self.out.enqueued.push(*id);
            ctxs.push(c);
        }
        // what RecoverableBackendNode::send does with a refused task (src/proxy/sender.rs)
        let accepted = match self.node.as_ref() {
            Some(Node::B(n)) => {
                let mut ok = true;
                for c in ctxs {
                    if let Err(e) = n.send(c) {
                        ok = false;
                        e.into_inner().set_resp_result(Ok(Resp::Error(
                            format!("{}: {}", undermoon::common::response::ERR_BACKEND_CONNECTION, ADDRESS).into_bytes(),
                        )));
                    }
                }
                ok
            }
            Some(Node::P(n)) => {
                let task = if multi { ReqTask::Multi(ctxs) } else { ReqTask::Simple(ctxs.remove(0)) };
                match n.send(task) {
                    Ok(()) => true,
                    Err(e) => {
                        e.into_inner().set_resp_result(Ok(Resp::Error(
                            format!("{}: {}", undermoon::common::response::ERR_BACKEND_CONNECTION, ADDRESS).into_bytes(),
                        )));
                        false
                    }
                }
            }
            None => {
                // node already dropped: nothing can be sent any more (tasks are dropped here)
                drop(ctxs);
                false
            }
        };
        let rs = self.collect();
        if accepted {
            format!("q {}", Self::results_text(&rs)).trim_end().to_string()
        } else {
            format!("rej {}", Self::results_text(&rs)).trim_end().to_string()
        }
    }

    async fn apply(&mut self, op: &Op) {
        let mode_b = self.w.lock().unwrap().mode_b;
        let conn = self.w.lock().unwrap().conn.clone();
        let mut obs = "-".to_string();
        match op {
            Op::Enq(id) => {
                if self.node.is_some() {
                    obs = self.enqueue(&[*id], false)
                }
            }
            Op::EnqM(ids) => {
                if mode_b {
                    // byte mode has no Multi tasks: one plain task per id (written as `s enq` lines)
                    for id in ids {
                        let obs = if self.node.is_some() { self.enqueue(&[*id], false) } else { "-".to_string() };
                        self.out.lines.push((Op::Enq(*id).text(), obs));
                        self.settle().await;
                    }
                    return;
                } else if self.node.is_some() {
                    obs = self.enqueue(ids, true)
                }
            }
            Op::Conn(ok) => {
                let mut w = self.w.lock().unwrap();
                if w.connect_pending && w.decision.is_none() {
                    w.decision = Some(*ok);
                    if let Some(k) = w.connect_waker.take() {
                        k.wake();
                    }
                }
            }
            Op::ConnBroken(k) => {
                let mut w = self.w.lock().unwrap();
                if w.connect_pending && w.decision.is_none() {
                    w.decision = Some(true);
                    w.born_broken = Some(*k);
                    if let Some(k) = w.connect_waker.take() {
                        k.wake();
                    }
                }
            }
            Op::Adv(ms) => {
                tokio::time::advance(Duration::from_millis(*ms)).await;
            }
            Op::Close => {
                self.node = None;
            }
            Op::Wcap(n) => {
                if let Some(c) = conn {
                    let mut c = c.lock().unwrap();
                    c.wcap = if *n == INF || c.wcap == INF { INF } else { c.wcap.saturating_add(*n) };
                    c.wake_w();
                }
            }
            Op::Werr(io) => {
                if let Some(c) = conn {
                    let mut c = c.lock().unwrap();
                    c.werr = Some(*io || mode_b);
                    c.wake_w();
                }
            }
            Op::Rd(n) => {
                if let Some(c) = conn {
                    c.lock().unwrap().release(*n);
                }
            }
            Op::Rauto => {
                if let Some(c) = conn {
                    let mut c = c.lock().unwrap();
                    c.rauto = true;
                    if mode_b {
                        c.release(INF);
                    } else {
                        while c.answer_front(0) {}
                    }
                }
            }
            Op::Garbage => {
                self.out.corrupt = true;
                if let Some(c) = conn {
                    let mut c = c.lock().unwrap();
                    if mode_b {
                        for b in b"!x\r\n".iter().rev() {
                            c.replybuf.push_front(*b);
                        }
                        c.release(4);
                    } else {
                        if c.reqs.pop_front().is_none() {
                            self.out.byzantine = true;
                        }
                        c.outbox.push_back(PItem::Err);
                        c.wake_r();
                    }
                }
            }
            Op::Ierr => {
                // the reply to the oldest outstanding request arrives undecodable
                if let Some(c) = conn {
                    let mut c = c.lock().unwrap();
                    if !mode_b {
                        if c.reqs.pop_front().is_none() {
                            self.out.byzantine = true;
                        }
                        c.outbox.push_back(PItem::Err);
                        c.wake_r();
                    }
                }
            }
            Op::Reof => {
                if let Some(c) = conn {
                    let mut c = c.lock().unwrap();
                    if mode_b {
                        c.reof = true;
                    } else {
                        c.outbox.push_back(PItem::Eof);
                    }
                    c.wake_r();
                }
            }
            Op::Rerr => {
                if let Some(c) = conn {
                    let mut c = c.lock().unwrap();
                    if mode_b {
                        c.rerr = true;
                    } else {
                        c.outbox.push_back(PItem::Eof);
                    }
                    c.wake_r();
                }
            }
            Op::Reply(k) => {
                if let Some(c) = conn {
                    if !mode_b {
                        c.lock().unwrap().answer_front(*k);
                    }
                }
            }
            Op::Spurious => {
                self.out.byzantine = true;
                if let Some(c) = conn {
                    let mut c = c.lock().unwrap();
                    if mode_b {
                        for b in b"$1\r\n0\r\n".iter().rev() {
                            c.replybuf.push_front(*b);
                        }
                        c.release(7);
                    } else {
                        c.outbox.push_back(PItem::Pkt(OptionalMulti::Single(RespPacket::Data(Resp::Bulk(
                            BulkStr::Str(b"0".to_vec()),
                        )))));
                        c.wake_r();
                    }
                }
            }
        }
        self.out.lines.push((op.text(), obs));
        self.settle().await;
    }

    /// the backend falls silent: only the clock moves.  Every task still unanswered afterwards is
    /// "silence" in the sense of the property.
    async fn silence_probe(&mut self, timeout_ms: u64) {
        // a connect attempt never resolved by the script is the harness' own doing: refuse it
        let pending = { self.w.lock().unwrap().connect_pending };
        if pending {
            self.apply(&Op::Conn(false)).await;
        }
        let mut refused = if pending { 1u32 } else { 0 };
        for _ in 0..10 {
            // the backend stays unreachable: every reconnection attempt during the probe is refused
            let pending = { self.w.lock().unwrap().connect_pending };
            if pending {
                self.apply(&Op::Conn(false)).await;
                refused += 1;
            }
            self.apply(&Op::Adv(timeout_ms / 2 + 1)).await;
        }
        let (phase, last_pe) = {
            let w = self.w.lock().unwrap();
            (w.phase, w.last_pe)
        };
        if phase == Phase::Up {
            self.out.silent_unanswered = self.receivers.keys().copied().collect();
            self.out.silent_pred = last_pe == Some(true);
        } else if refused > 0 && phase != Phase::Exited {
            // a refused connect answers every retried and every queued task, and sends are refused
            // while conn_failed is set: nothing may be left waiting
            self.out.silent_unanswered = self.receivers.keys().copied().collect();
            self.out.silent_refused = refused;
        }
    }

    async fn finish(&mut self) {
        if self.node.is_some() {
            self.apply(&Op::Close).await;
        }
        // give a pending connect an answer so that handle_backend can observe the closed queue
        for _ in 0..3 {
            let (pending, phase) = {
                let w = self.w.lock().unwrap();
                (w.connect_pending, w.phase)
            };
            if phase == Phase::Exited {
                break;
            }
            if pending {
                self.apply(&Op::Conn(false)).await;
            } else {
                self.apply(&Op::Adv(1001)).await;
            }
        }
        self.fut = None; // dropping the future drops whatever it still holds
        let rs = self.collect();
        if !rs.is_empty() {
            self.out.lines.push(("p".to_string(), format!("X {}", Self::results_text(&rs))));
        }
        self.out.written_on = self.w.lock().unwrap().written_on.clone();
    }
}

fn run_case(cfg: &Cfg, script: &[Op], probe_silence: bool) -> CaseOut {
    let rt = tokio::runtime::Builder::new_current_thread()
        .enable_time()
        .start_paused(true)
        .build()
        .expect("runtime");
    rt.block_on(async {
        let mut r = Runner::new(cfg);
        r.settle().await;
        for op in script {
            r.apply(op).await;
        }
        if probe_silence {
            r.silence_probe(cfg.timeout_ms).await;
        }
        r.finish().await;
        r.out
    })
}

// ---------------------------------------------------------------------------------------------
// generators
// ---------------------------------------------------------------------------------------------
fn gen_cfg(rng: &mut Rng, mode_b: bool) -> Cfg {
    Cfg {
        mode_b,
        strategy: rng.below(3) as u8,
        flush_size: *rng.pick(&[1usize, 16, 40, 64, 200, 1024, 4096]),
        low_zero: rng.chance(1, 3),
        high_ms: *rng.pick(&[1u64, 2, 5, 20]),
        timeout_ms: *rng.pick(&[50u64, 200, 1000, 3000]),
    }
}

fn fresh_id(rng: &mut Rng, next: &mut u64) -> u64 {
    *next += 1;
    // vary the number of digits (request and reply sizes differ) while staying unique
    match rng.below(4) {
        0 => *next,
        1 => 5_000 + *next,
        2 => 70_000 + *next,
        _ => 9_000_000 + *next,
    }
}

fn gen_script(rng: &mut Rng, st: &mut Stats, cfg: &Cfg, thorough: bool) -> (Vec<Op>, bool, String) {
    let mut ops = vec![];
    let mut next = 0u64;
    let class = if cfg.mode_b {
        *rng.pick(&["happy", "happy", "break_write", "break_read", "refuse", "stall", "poison", "mixed", "mixed", "pipeline"])
    } else {
        *rng.pick(&["phappy", "pshape", "pbreak", "pbyz", "pmixed", "pmixed"])
    };
    st.count(&format!("gen.class.{}", class));
    let len = if thorough { rng.range(8, 90) } else { rng.range(6, 50) } as usize;
    let b = cfg.mode_b;
    let enq = |rng: &mut Rng, next: &mut u64| -> Op {
        if !b && rng.chance(1, 3) {
            let n = rng.below(4) as usize;
            Op::EnqM((0..n).map(|_| fresh_id(rng, next)).collect())
        } else {
            Op::Enq(fresh_id(rng, next))
        }
    };
    let small = |rng: &mut Rng| -> usize { *rng.pick(&[1usize, 1, 2, 3, 5, 7, 11, 20, 23, 24, 25, 48, 100]) };
    match class {
        "happy" | "pipeline" => {
            ops.push(Op::Conn(true));
            if class == "pipeline" {
                let n = rng.range(2, if thorough { 200 } else { 40 });
                for _ in 0..n {
                    ops.push(Op::Enq(fresh_id(rng, &mut next)));
                }
            }
            for _ in 0..len {
                match rng.below(10) {
                    0..=3 => ops.push(enq(rng, &mut next)),
                    4..=5 => ops.push(Op::Wcap(if rng.chance(1, 4) { INF } else { small(rng) })),
                    6..=7 => ops.push(Op::Rd(if rng.chance(1, 5) { INF } else { small(rng) })),
                    8 => ops.push(Op::Adv(*rng.pick(&[1u64, 2, 3, 10, 60]))),
                    _ => ops.push(Op::Rauto),
                }
            }
        }
        "break_write" | "break_read" | "mixed" => {
            for _ in 0..len {
                let r = rng.below(24);
                let op = match r {
                    0..=6 => enq(rng, &mut next),
                    7..=9 => {
                        if rng.chance(1, 5) {
                            Op::ConnBroken(rng.below(3) as u8)
                        } else {
                            Op::Conn(rng.chance(5, 6))
                        }
                    }
                    10..=12 => Op::Wcap(if rng.chance(1, 4) { INF } else { small(rng) }),
                    13..=15 => Op::Rd(if rng.chance(1, 4) { INF } else { small(rng) }),
                    16 => Op::Adv(*rng.pick(&[1u64, 5, 30, 250, 1001, 3100])),
                    17 => {
                        if class == "break_read" {
                            Op::Reof
                        } else {
                            Op::Werr(true)
                        }
                    }
                    18 => {
                        if class == "break_write" {
                            Op::Werr(true)
                        } else {
                            rng.pick(&[Op::Reof, Op::Rerr, Op::Garbage]).clone()
                        }
                    }
                    19 => Op::Rauto,
                    20 => {
                        if class == "mixed" && rng.chance(1, 6) {
                            Op::Spurious
                        } else {
                            Op::Rd(small(rng))
                        }
                    }
                    21 => {
                        if class == "mixed" && rng.chance(1, 8) {
                            Op::Close
                        } else {
                            Op::Wcap(INF)
                        }
                    }
                    _ => Op::Conn(true),
                };
                ops.push(op);
            }
        }
        "refuse" => {
            for _ in 0..len {
                let op = match rng.below(10) {
                    0..=3 => enq(rng, &mut next),
                    4..=5 => Op::Conn(false),
                    6 => Op::Conn(true),
                    7 => Op::Adv(*rng.pick(&[500u64, 999, 1000, 1001])),
                    8 => Op::Wcap(INF),
                    _ => Op::Werr(true),
                };
                ops.push(op);
            }
        }
        "stall" => {
            ops.push(Op::Conn(true));
            ops.push(Op::Wcap(INF));
            for _ in 0..len {
                let op = match rng.below(8) {
                    0..=2 => enq(rng, &mut next),
                    3..=5 => Op::Adv(*rng.pick(&[cfg.timeout_ms / 2, cfg.timeout_ms, cfg.timeout_ms + 1, 2 * cfg.timeout_ms + 1])),
                    6 => Op::Rd(small(rng)),
                    _ => Op::Conn(true),
                };
                ops.push(op);
            }
        }
        "poison" => {
            // the backend accepts the connection, reads the request and drops the connection
            ops.push(Op::Enq(fresh_id(rng, &mut next)));
            let rounds = rng.range(2, 9);
            let style = rng.below(3);
            for _ in 0..rounds {
                ops.push(Op::Conn(true));
                if style == 0 || (style == 2 && rng.chance(1, 2)) {
                    // break in the very first poll (the only case in which retry_times is counted)
                    ops.pop();
                    ops.push(Op::ConnBroken(rng.below(3) as u8));
                } else {
                    ops.push(Op::Wcap(INF));
                    ops.push(if rng.chance(1, 2) { Op::Reof } else { Op::Rerr });
                }
                if rng.chance(1, 4) {
                    ops.push(Op::Enq(fresh_id(rng, &mut next)));
                }
            }
        }
        "phappy" | "pshape" => {
            ops.push(Op::Conn(true));
            for _ in 0..len {
                let op = match rng.below(10) {
                    0..=3 => enq(rng, &mut next),
                    4..=5 => Op::Wcap(if rng.chance(1, 3) { INF } else { rng.range(1, 4) as usize }),
                    6..=8 => {
                        if class == "pshape" && rng.chance(1, 2) {
                            Op::Reply(rng.range(1, 3) as u8)
                        } else {
                            Op::Reply(0)
                        }
                    }
                    _ => {
                        if class == "pshape" {
                            Op::Ierr
                        } else {
                            Op::Adv(*rng.pick(&[1u64, 2, 7]))
                        }
                    }
                };
                ops.push(op);
            }
        }
        _ => {
            for _ in 0..len {
                let r = rng.below(22);
                let op = match r {
                    0..=6 => enq(rng, &mut next),
                    7..=9 => {
                        if rng.chance(1, 5) {
                            Op::ConnBroken(rng.below(3) as u8)
                        } else {
                            Op::Conn(rng.chance(5, 6))
                        }
                    }
                    10..=12 => Op::Wcap(if rng.chance(1, 3) { INF } else { rng.range(1, 4) as usize }),
                    13..=15 => Op::Reply(if rng.chance(1, 5) { rng.range(1, 3) as u8 } else { 0 }),
                    16 => Op::Adv(*rng.pick(&[1u64, 5, 250, 1001, 3100])),
                    17 => Op::Werr(rng.chance(1, 2)),
                    18 => Op::Reof,
                    19 => Op::Ierr,
                    20 => {
                        if class == "pbyz" {
                            Op::Spurious
                        } else {
                            Op::Rauto
                        }
                    }
                    _ => {
                        if class == "pmixed" && rng.chance(1, 6) {
                            Op::Close
                        } else {
                            Op::Conn(true)
                        }
                    }
                };
                ops.push(op);
            }
        }
    }
    // ending: heal (everything is answered by a healthy backend) or silence probe
    let heal = !rng.chance(1, 3);
    if heal {
        ops.push(Op::Conn(true));
        ops.push(Op::Wcap(INF));
        ops.push(Op::Rauto);
        ops.push(Op::Adv(25));
        ops.push(Op::Conn(true));
        ops.push(Op::Wcap(INF));
        ops.push(Op::Rauto);
    }
    (ops, !heal, class.to_string())
}

/// every single break position of a 6-request pipeline (thorough) / a sample of them (quick)
fn systematic(thorough: bool) -> Vec<(Cfg, Vec<Op>, bool)> {
    let mut v = vec![];
    let ids = [1u64, 22, 333, 4444, 5, 66];
    let req_bytes: usize = ids.iter().map(|i| 22 + i.to_string().len() + if i.to_string().len() > 9 { 1 } else { 0 }).sum();
    let rep_bytes: usize = ids.iter().map(|i| 6 + i.to_string().len()).sum();
    for strategy in 0..3u8 {
        let cfg = Cfg { mode_b: true, strategy, flush_size: 64, low_zero: strategy == 1, high_ms: 2, timeout_ms: 1000 };
        let step = if thorough { 1 } else { 7 };
        let mut n = 0;
        while n <= req_bytes + 1 {
            let mut ops = vec![Op::Conn(true)];
            for i in ids.iter() {
                ops.push(Op::Enq(*i));
            }
            ops.push(Op::Adv(3));
            ops.push(Op::Wcap(n));
            ops.push(Op::Adv(3));
            ops.push(Op::Rd(INF));
            ops.push(Op::Werr(true));
            ops.push(Op::Adv(3));
            ops.extend([Op::Conn(true), Op::Wcap(INF), Op::Rauto, Op::Adv(3)]);
            v.push((cfg.clone(), ops, false));
            n += step;
        }
        let mut m = 0;
        while m <= rep_bytes + 1 {
            for brk in 0..2 {
                let mut ops = vec![Op::Conn(true)];
                for i in ids.iter() {
                    ops.push(Op::Enq(*i));
                }
                ops.push(Op::Wcap(INF));
                ops.push(Op::Adv(3));
                ops.push(Op::Rd(m));
                ops.push(if brk == 0 { Op::Reof } else { Op::Rerr });
                ops.push(Op::Adv(3));
                ops.extend([Op::Conn(true), Op::Wcap(INF), Op::Rauto, Op::Adv(3)]);
                v.push((cfg.clone(), ops, false));
            }
            m += step;
        }
    }
    v
}

// ---------------------------------------------------------------------------------------------
// oracle
// ---------------------------------------------------------------------------------------------
fn oracle(case: u64, cfg: &Cfg, script: &[Op], out: &CaseOut, st: &mut Stats) {
    let mut replay = vec![format!("case {}", case), cfg.text()];
    replay.extend(script.iter().map(|o| o.text()));
    if out.panicked {
        st.oracle_failure(case, "C08: handle_backend panicked", "", replay.clone());
    }
    if out.lines.iter().any(|(o, _)| o == "p !livelock") {
        st.oracle_failure(case, "C08: handle_backend keeps waking itself (10000 polls without an external event)", "", replay.clone());
    }
    for id in out.enqueued.iter() {
        let rs = out.results.get(id).cloned().unwrap_or_default();
        if rs.is_empty() {
            st.oracle_failure(case, &format!("C08: task {} never received a result (not even at shutdown)", id), "", replay.clone());
        } else if rs.len() > 1 {
            st.oracle_failure(case, &format!("C08: task {} received {} results {:?}", id, rs.len(), rs), "", replay.clone());
        }
        for r in rs.iter() {
            st.count(&format!("out.{}", if r.starts_with('r') { "reply" } else { r.as_str() }));
            if let Some(tag) = r.strip_prefix('r') {
                // tag 0 = not an echo at all: only the scripted garbage / unsolicited replies produce it
                if tag != id.to_string() && !out.byzantine && !(tag == "0" && out.corrupt) {
                    st.oracle_failure(
                        case,
                        &format!("C08: task {} received the backend reply tagged {} (another request's reply)", id, tag),
                        "",
                        replay.clone(),
                    );
                }
            }
        }
    }
    if !out.silent_unanswered.is_empty() {
        st.count("out.silence");
        // (hypothesis F08a — timeout_interval left without a waker after a tick — did not hold: tokio keeps
        // the waker of the previous poll registered across `Interval::reset`; any hit here is a violation)
        let _ = out.silent_pred;
        let fid = "";
        let what = if out.silent_refused > 0 {
            format!(
                "C08: silence: backend unreachable ({} reconnection attempts refused), tasks {:?} still unanswered (a refused connect must answer every retried and queued task)",
                out.silent_refused, out.silent_unanswered
            )
        } else {
            format!(
                "C08: silence: connection up, backend silent for 5 timeouts, tasks {:?} still unanswered (timeout never fired)",
                out.silent_unanswered
            )
        };
        st.oracle_failure(case, &what, fid, replay.clone());
    }
    for (id, conns) in out.written_on.iter() {
        let mut c = conns.clone();
        c.dedup();
        if c.len() > MAX_BACKEND_RETRY + 1 {
            st.count("out.retry_exceeded");
            st.oracle_failure(
                case,
                &format!(
                    "C08: request {} was written on {} connections (> 1 + MAX_BACKEND_RETRY = {}): the retry budget does not bound the retries (F08b regression)",
                    id,
                    c.len(),
                    MAX_BACKEND_RETRY + 1
                ),
                "",
                replay.clone(),
            );
            break;
        }
    }
}

fn main() {
    let args = parse_args();
    let mut rng = Rng::new(args.seed);
    let mut s = Streams::new(&args);
    let mut cases: Vec<(Cfg, Vec<Op>, bool)> = vec![];
    if let Some(p) = &args.replay {
        let mut cur: Option<(Cfg, Vec<Op>, bool)> = None;
        for l in read_lines(p) {
            if l.starts_with('#') {
                continue;
            }
            if l.starts_with("case ") {
                if let Some(c) = cur.take() {
                    cases.push(c);
                }
                continue;
            }
            if let Some(c) = Cfg::parse(&l) {
                if let Some(c0) = cur.take() {
                    cases.push(c0);
                }
                cur = Some((c, vec![], false));
                continue;
            }
            if l == "s probe" {
                if let Some(c) = cur.as_mut() {
                    c.2 = true;
                }
                continue;
            }
            if let Some(op) = Op::parse(&l) {
                if cur.is_none() {
                    cur = Some((
                        Cfg { mode_b: true, strategy: 0, flush_size: 1024, low_zero: false, high_ms: 2, timeout_ms: 1000 },
                        vec![],
                        false,
                    ));
                }
                if let Some(c) = cur.as_mut() {
                    c.1.push(op);
                }
            }
        }
        if let Some(c) = cur.take() {
            cases.push(c);
        }
    } else {
        let n = if args.thorough { 30_000 } else { 600 };
        cases.extend(systematic(args.thorough));
        for _ in 0..n {
            let mode_b = !rng.chance(3, 10);
            let cfg = gen_cfg(&mut rng, mode_b);
            let (ops, probe, _class) = gen_script(&mut rng, &mut s.stats, &cfg, args.thorough);
            cases.push((cfg, ops, probe));
        }
    }
    // the code logs through `log`; no logger is installed, so nothing is printed
    let prev = std::panic::take_hook();
    std::panic::set_hook(Box::new(|_| {}));
    for (cfg, ops, probe) in cases.iter() {
        let c = s.case();
        s.op(&cfg.text(), "-");
        let out = run_case(cfg, ops, *probe);
        // `s probe` marks the silence probe for replay
        let mut probe_marked = !*probe;
        let script_len = ops.len();
        let mut seen_script = 0usize;
        for (o, i) in out.lines.iter() {
            if o.starts_with("s ") {
                if seen_script == script_len && !probe_marked {
                    s.op("s probe", "-");
                    probe_marked = true;
                }
                seen_script += 1;
            }
            s.op(o, i);
        }
        s.stats.count(if cfg.mode_b { "gen.mode.B" } else { "gen.mode.P" });
        s.stats.count(&format!("gen.strategy.{}", ["disabled", "fixed", "dynamic"][cfg.strategy as usize % 3]));
        s.stats.add("gen.tasks", out.enqueued.len() as u64);
        s.stats.add("gen.polls", out.polls);
        for (k, v) in out.events.iter() {
            s.stats.add(&format!("ev.{}", k), *v);
        }
        let conns = out.written_on.values().flat_map(|v| v.iter().copied()).max().unwrap_or(0);
        if conns > 1 {
            s.stats.count("gen.reconnected");
        }
        oracle(c, cfg, ops, &out, &mut s.stats);
        let nontrivial = out.events.get("i").copied().unwrap_or(0) > 0
            && (out.events.get("we").copied().unwrap_or(0) + out.events.get("rc").copied().unwrap_or(0) + out.events.get("cfail").copied().unwrap_or(0)) > 0;
        if nontrivial {
            let text: String = out.lines.iter().map(|(o, _)| o.as_str()).collect::<Vec<_>>().join("|");
            s.stats.nontrivial_case(&text);
        }
        if c <= 3 || (nontrivial && s.stats.samples.len() < 6) {
            s.stats.sample(json!({"case": c, "cfg": cfg.text(), "script": ops.iter().map(|o| o.text()).collect::<Vec<_>>(),
                "results": out.results}));
        }
    }
    std::panic::set_hook(prev);
    s.finish(
        "backend",
        "case with at least one backend reply delivered and at least one connection failure (write error, peer close or refused connect)",
    );
}
