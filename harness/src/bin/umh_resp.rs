//! C15: the real RESP codec (`undermoon::protocol`) against the Lean model `UmModel/Resp*.lean`.
//!
//! Ops (one per line; byte strings hex, `-` = empty; values as prefix token lists
//! `S h`/`E h`/`I h`/`B h`/`N`/`Z`/`A n v1..vn`):
//!   enc <value>            encode_resp                          -> hex
//!   parse <hex>            stateless::parse_resp                -> ok <consumed> <index tree> | err <ParseError> | PANIC
//!   dec <hex>              RespPacket::decode on a BytesMut     -> item <consumed> <left> <value> | none | invalid | PANIC
//!   stream <hex>...        RespCodec<Simple.., Box<RespPacket>> fed chunk by chunk
//!                                                               -> pkt <rawlen> <value> | ... | left <hex> / end
//!   hm.produce S | M n     OptionalMultiPacketEncoder::encode   -> ok | notready
//!   hm.feed <hex>          append to the read buffer            -> buf <len>
//!   hm.decode              OptionalMultiPacketDecoder::decode   -> <out> ; left <len>
//!   hm.run S|M n <hex>...  fresh pair: announce the hint, then per read: append + one decode (stop at Err)
//!                                                               -> <out> | ... | left <len> / end
//!   omstatic S|M n <hex>   <OptionalMulti<RespVec> as DecodedPacket>::decode -> <out> ; left <len>
//!   sizeof                 size_of::<RespIndex>()
//!
//! The oracle (property C15 evaluated on the implementation's observables, independent of the
//! Lean model) is computed from the op lines alone, so `--replay` re-evaluates it.
//!
//! Safety caps (both are C16's business; since the F4/F16b fixes the real parser is safe anyway): every `*<digits>` run in an input handed to
//! the real parser is cut to 6 digits unless it is one of the fixed capacity-overflow probes
//! (`Vec::with_capacity(declared_len)`, DESIGN §7 F4), nesting depth of generated inputs stays
//! <= 200, and the work runs on a 512 MiB stack.
use bytes::BytesMut;
use serde_json::json;
use std::panic::{catch_unwind, AssertUnwindSafe};
use tokio_util::codec::{Decoder, Encoder};
use umharness::util::*;
use undermoon::protocol::verif_export::resp::DataIndex;
use undermoon::protocol::verif_export::stateless::{parse_resp, ParseError, MAX_NESTING};
use undermoon::protocol::{
    encode_resp, new_optional_multi_packet_codec, new_simple_packet_codec, Array, BinSafeStr, BulkStr,
    DecodedPacket, EncodeError, OptionalMulti, OptionalMultiPacketDecoder, OptionalMultiPacketEncoder,
    PacketDecoder, PacketEncoder, PacketSizeHint, Resp, RespCodec, RespIndex, RespPacket, RespVec,
    SimplePacketDecoder, SimplePacketEncoder,
};

type V = RespVec;

// ------------------------------------------------------------------------------------------
// rendering / reading of values
// ------------------------------------------------------------------------------------------

fn render_val(v: &V, out: &mut Vec<String>) {
    match v {
        Resp::Simple(b) => { out.push("S".into()); out.push(hex(b)); }
        Resp::Error(b) => { out.push("E".into()); out.push(hex(b)); }
        Resp::Integer(b) => { out.push("I".into()); out.push(hex(b)); }
        Resp::Bulk(BulkStr::Str(b)) => { out.push("B".into()); out.push(hex(b)); }
        Resp::Bulk(BulkStr::Nil) => out.push("N".into()),
        Resp::Arr(Array::Nil) => out.push("Z".into()),
        Resp::Arr(Array::Arr(l)) => {
            out.push("A".into());
            out.push(l.len().to_string());
            for e in l { render_val(e, out); }
        }
    }
}
fn val_str(v: &V) -> String { let mut o = vec![]; render_val(v, &mut o); o.join(" ") }

fn di(d: &DataIndex) -> String { format!("{}:{}", d.0, d.1) }
fn render_idx(v: &RespIndex, out: &mut Vec<String>) {
    match v {
        Resp::Simple(b) => { out.push("S".into()); out.push(di(b)); }
        Resp::Error(b) => { out.push("E".into()); out.push(di(b)); }
        Resp::Integer(b) => { out.push("I".into()); out.push(di(b)); }
        Resp::Bulk(BulkStr::Str(b)) => { out.push("B".into()); out.push(di(b)); }
        Resp::Bulk(BulkStr::Nil) => out.push("N".into()),
        Resp::Arr(Array::Nil) => out.push("Z".into()),
        Resp::Arr(Array::Arr(l)) => {
            out.push("A".into());
            out.push(l.len().to_string());
            for e in l { render_idx(e, out); }
        }
    }
}

fn read_val<'a>(t: &[&'a str]) -> Option<(V, usize)> {
    match *t.first()? {
        "S" => Some((Resp::Simple(unhex(t.get(1)?)?), 2)),
        "E" => Some((Resp::Error(unhex(t.get(1)?)?), 2)),
        "I" => Some((Resp::Integer(unhex(t.get(1)?)?), 2)),
        "B" => Some((Resp::Bulk(BulkStr::Str(unhex(t.get(1)?)?)), 2)),
        "N" => Some((Resp::Bulk(BulkStr::Nil), 1)),
        "Z" => Some((Resp::Arr(Array::Nil), 1)),
        "A" => {
            let n: usize = t.get(1)?.parse().ok()?;
            let mut used = 2;
            let mut l = Vec::new();
            for _ in 0..n {
                let (v, u) = read_val(t.get(used..)?)?;
                used += u;
                l.push(v);
            }
            Some((Resp::Arr(Array::Arr(l)), used))
        }
        _ => None,
    }
}

/// what `encode_resp` can frame so that it reads back: line payloads without LF
fn well_formed(v: &V) -> bool {
    match v {
        Resp::Simple(b) | Resp::Error(b) | Resp::Integer(b) => !b.contains(&b'\n'),
        Resp::Bulk(_) | Resp::Arr(Array::Nil) => true,
        Resp::Arr(Array::Arr(l)) => l.iter().all(well_formed),
    }
}

/// every array (nil ones included) sits at a nesting depth below MAX_NESTING
fn nest_ok(v: &V, d: usize) -> bool {
    match v {
        Resp::Arr(Array::Nil) => d < MAX_NESTING,
        Resp::Arr(Array::Arr(l)) => d < MAX_NESTING && l.iter().all(|e| nest_ok(e, d + 1)),
        _ => true,
    }
}

fn enc(v: &V) -> Vec<u8> {
    let mut b = Vec::new();
    let n = encode_resp(&mut b, v).expect("encode_resp into Vec");
    assert_eq!(n, b.len());
    b
}

// ------------------------------------------------------------------------------------------
// the reference recogniser of the oracle (RESP2 as the property reads it)
// ------------------------------------------------------------------------------------------

#[derive(Debug, PartialEq, Clone)]
enum Rec { Ok(V, usize), Incomplete, Invalid }

/// length fields: optional sign, decimal digits, fits i64 (the sign / zero-padding / any
/// negative = nil leniencies are *normalisations*, DESIGN §7 F7)
fn rec_len(line: &[u8]) -> Option<i64> {
    let (neg, ds) = match line.first()? {
        b'+' => (false, &line[1..]),
        b'-' => (true, &line[1..]),
        _ => (false, line),
    };
    if ds.is_empty() || !ds.iter().all(|c| c.is_ascii_digit()) { return None; }
    let mut acc: i128 = 0;
    for c in ds {
        acc = acc * 10 + (*c - b'0') as i128;
        if acc > (i64::MAX as i128) + 1 { return None; }
    }
    let v = if neg { -acc } else { acc };
    if v < i64::MIN as i128 || v > i64::MAX as i128 { None } else { Some(v as i64) }
}

/// `lenient_term = false`: lines end in CRLF and a bulk payload is followed by CRLF.
/// `lenient_term = true`: the byte before LF and the two bytes after a payload are arbitrary
/// (what finding F7 describes).
fn rec_line(b: &[u8], lenient: bool) -> Result<(&[u8], usize), Rec> {
    let lf = match b.iter().position(|c| *c == b'\n') { Some(i) => i, None => return Err(Rec::Incomplete) };
    if lf == 0 { return Err(Rec::Invalid); }
    if !lenient && b[lf - 1] != b'\r' { return Err(Rec::Invalid); }
    Ok((&b[..lf - 1], lf + 1))
}
fn rec(b: &[u8], lenient: bool, depth: usize) -> Rec {
    let t = match b.first() { Some(t) => *t, None => return Rec::Incomplete };
    let rest = &b[1..];
    match t {
        b'+' | b'-' | b':' => match rec_line(rest, lenient) {
            Err(e) => e,
            Ok((l, n)) => {
                let l = l.to_vec();
                Rec::Ok(match t { b'+' => Resp::Simple(l), b'-' => Resp::Error(l), _ => Resp::Integer(l) }, 1 + n)
            }
        },
        b'$' => match rec_line(rest, lenient) {
            Err(e) => e,
            Ok((l, n)) => match rec_len(l) {
                None => Rec::Invalid,
                Some(k) if k < 0 => Rec::Ok(Resp::Bulk(BulkStr::Nil), 1 + n),
                Some(k) => {
                    let k = k as u64;
                    if ((rest.len() - n) as u64) < k.saturating_add(2) { return Rec::Incomplete; }
                    let k = k as usize;
                    if !lenient && &rest[n + k..n + k + 2] != b"\r\n" { return Rec::Invalid; }
                    Rec::Ok(Resp::Bulk(BulkStr::Str(rest[n..n + k].to_vec())), 1 + n + k + 2)
                }
            },
        },
        // arrays (nil ones included) may be nested MAX_NESTING deep: depths 0..MAX_NESTING-1
        b'*' if depth >= MAX_NESTING => Rec::Invalid,
        b'*' => match rec_line(rest, lenient) {
            Err(e) => e,
            Ok((l, n)) => match rec_len(l) {
                None => Rec::Invalid,
                Some(k) if k < 0 => Rec::Ok(Resp::Arr(Array::Nil), 1 + n),
                Some(k) => {
                    let mut used = 1 + n;
                    let mut out = Vec::new();
                    for _ in 0..k {
                        match rec(&b[used..], lenient, depth + 1) {
                            Rec::Ok(v, m) => { out.push(v); used += m; }
                            other => return other,
                        }
                    }
                    Rec::Ok(Resp::Arr(Array::Arr(out)), used)
                }
            },
        },
        _ => Rec::Invalid,
    }
}

// ------------------------------------------------------------------------------------------
// the real code, canonicalised
// ------------------------------------------------------------------------------------------

#[derive(Debug, PartialEq, Clone)]
enum Obs { Item(V, usize, Vec<u8>), None, Invalid, Panic }

/// `RespPacket::decode` on a fresh BytesMut holding `input`; returns the observation and the
/// buffer afterwards
fn real_dec(input: &[u8]) -> (Obs, Vec<u8>) {
    let mut buf = BytesMut::from(input);
    let r = catch_unwind(AssertUnwindSafe(|| {
        <RespPacket as DecodedPacket>::decode(&mut buf, ()).map(|o| {
            o.map(|p| {
                let raw = match &p { RespPacket::Indexed(i) => i.get_data().to_vec(), RespPacket::Data(_) => vec![] };
                let hint = p.get_size_hint();
                (p.to_resp_vec(), raw, hint)
            })
        })
    }));
    let obs = match r {
        Err(_) => Obs::Panic,
        Ok(Err(_)) => Obs::Invalid,
        Ok(Ok(None)) => Obs::None,
        Ok(Ok(Some((v, raw, hint)))) => {
            assert_eq!(hint, Some(raw.len()));
            Obs::Item(v, raw.len(), raw)
        }
    };
    (obs, buf.to_vec())
}

fn obs_str(o: &Obs, left: usize) -> String {
    match o {
        Obs::Item(v, n, _) => format!("item {} {} {}", n, left, val_str(v)),
        Obs::None => "none".into(),
        Obs::Invalid => "invalid".into(),
        Obs::Panic => "PANIC".into(),
    }
}

type SimpleCodec = RespCodec<SimplePacketEncoder<Box<RespPacket>>, SimplePacketDecoder<Box<RespPacket>>>;

/// the FramedRead loop by hand: (rendered events, per packet (value, raw), left-over or None when ended)
fn real_stream(chunks: &[Vec<u8>]) -> (String, Vec<(V, Vec<u8>)>, Option<Vec<u8>>, bool) {
    let (e, d) = new_simple_packet_codec::<Box<RespPacket>, Box<RespPacket>>();
    let mut codec: SimpleCodec = RespCodec::new(e, d);
    let mut buf = BytesMut::new();
    let mut evs: Vec<String> = vec![];
    let mut pk = vec![];
    let mut dead = false;
    let mut fwd_ok = true;
    for c in chunks {
        if dead { break; }
        buf.extend_from_slice(c);
        loop {
            let r = catch_unwind(AssertUnwindSafe(|| codec.decode(&mut buf)));
            match r {
                Err(_) => { evs.push("PANIC".into()); dead = true; break; }
                Ok(Err(_)) => { evs.push("invalid".into()); dead = true; break; }
                Ok(Ok(None)) => break,
                Ok(Ok(Some(p))) => {
                    let v = p.to_resp_vec();
                    let raw = match &*p { RespPacket::Indexed(i) => i.get_data().to_vec(), RespPacket::Data(_) => vec![] };
                    // forwarding: what the proxy writes for this packet
                    let mut out = BytesMut::new();
                    if codec.encode(p, &mut out).is_err() || out.as_ref() != raw.as_slice() { fwd_ok = false; }
                    evs.push(format!("pkt {} {}", raw.len(), val_str(&v)));
                    pk.push((v, raw));
                }
            }
        }
    }
    let left = if dead { None } else { Some(buf.to_vec()) };
    evs.push(match &left { Some(b) => format!("left {}", hex(b)), None => "end".into() });
    (evs.join(" | "), pk, left, fwd_ok)
}

#[derive(Debug, PartialEq, Clone)]
enum HOut { None, Single(V), Multi(Vec<V>), Invalid, Panic }
fn hout_str(o: &HOut) -> String {
    match o {
        HOut::None => "none".into(),
        HOut::Single(v) => format!("single {}", val_str(v)),
        HOut::Multi(vs) => {
            let mut t = vec!["multi".to_string(), vs.len().to_string()];
            for v in vs { render_val(v, &mut t); }
            t.join(" ")
        }
        HOut::Invalid => "invalid".into(),
        HOut::Panic => "PANIC".into(),
    }
}
fn to_hout(r: std::thread::Result<Result<Option<OptionalMulti<V>>, undermoon::protocol::DecodeError>>) -> HOut {
    match r {
        Err(_) => HOut::Panic,
        Ok(Err(_)) => HOut::Invalid,
        Ok(Ok(None)) => HOut::None,
        Ok(Ok(Some(OptionalMulti::Single(v)))) => HOut::Single(v),
        Ok(Ok(Some(OptionalMulti::Multi(vs)))) => HOut::Multi(vs),
    }
}

/// one-shot reference for the hint machine's oracle: packets of `all` with cumulative consumed,
/// and whether the sequence ends with a protocol error
fn plain_packets(all: &[u8], limit: usize) -> (Vec<(V, usize)>, bool) {
    let mut off = 0;
    let mut out = vec![];
    while out.len() < limit {
        match real_dec(&all[off..]).0 {
            Obs::Item(v, n, _) => { off += n; out.push((v, off)); }
            Obs::None => return (out, false),
            _ => return (out, true),
        }
    }
    (out, false)
}

/// fresh encoder/decoder pair, announce `hint`, then one `decode` per read; stops at the first Err
fn real_hm_run(multi: bool, n: usize, chunks: &[Vec<u8>]) -> (Vec<HOut>, Option<usize>) {
    let (mut e, mut d) = new_optional_multi_packet_codec::<Vec<BinSafeStr>, V>();
    let cmd: Vec<BinSafeStr> = vec![b"PING".to_vec()];
    let pkt = if multi { OptionalMulti::Multi(vec![cmd; n]) } else { OptionalMulti::Single(cmd) };
    assert!(e.encode(pkt, |_| {}).is_ok());
    let mut buf = BytesMut::new();
    let mut outs = vec![];
    for c in chunks {
        buf.extend_from_slice(c);
        let r = catch_unwind(AssertUnwindSafe(|| d.decode(&mut buf)));
        match to_hout(r) {
            HOut::None => {}
            o @ (HOut::Invalid | HOut::Panic) => { outs.push(o); return (outs, None); }
            o => outs.push(o),
        }
    }
    (outs, Some(buf.len()))
}
fn hm_run_str(r: &(Vec<HOut>, Option<usize>)) -> String {
    let mut t: Vec<String> = r.0.iter().map(hout_str).collect();
    t.push(match r.1 { Some(n) => format!("left {}", n), None => "end".into() });
    t.join(" | ")
}

struct HmCase {
    enc: OptionalMultiPacketEncoder<Vec<BinSafeStr>>,
    dec: OptionalMultiPacketDecoder<V>,
    buf: BytesMut,
    // oracle bookkeeping: a "clean" scenario is one accepted produce followed by feeds/decodes
    clean: bool,
    need: Option<(bool, usize)>, // (is_multi, n)
    fed: Vec<u8>,
    delivered: bool,
    errored: bool,
}
impl HmCase {
    fn new() -> Self {
        let (e, d) = new_optional_multi_packet_codec::<Vec<BinSafeStr>, V>();
        HmCase { enc: e, dec: d, buf: BytesMut::new(), clean: true, need: None, fed: vec![], delivered: false, errored: false }
    }
}

// ------------------------------------------------------------------------------------------
// executing one op line (+ oracle)
// ------------------------------------------------------------------------------------------

struct Ctx { hm: HmCase }

/// finding class of an accepted input that the strict recogniser refuses
fn classify_strict(input: &[u8], v: &V, n: usize) -> Option<(&'static str, &'static str)> {
    match rec(input, false, 0) {
        Rec::Ok(v2, n2) if &v2 == v && n2 == n => None,
        _ => match rec(input, true, 0) {
            // accepted only because a line terminator / bulk terminator is not checked
            Rec::Ok(v2, n2) if &v2 == v && n2 == n =>
                Some(("non-RESP input decoded to a valid value: LF not preceded by CR, or bulk payload not followed by CRLF", "F7")),
            _ => Some(("decoder accepted input that the reference RESP recogniser refuses or reads differently", "")),
        },
    }
}

fn exec(line: &str, cx: &mut Ctx, s: &mut Streams) {
    let t: Vec<&str> = line.split(' ').collect();
    let case = s.cases;
    // known-finding classes are recorded a few times only, so that the 50-entry cap of
    // `oracle_failure` can never hide a failure of another kind
    let fail = |s: &mut Streams, what: &str, fid: &str, l: &str| {
        if !fid.is_empty() {
            let k = format!("oracle.recorded.{}", fid);
            if s.stats.counters.get(&k).copied().unwrap_or(0) >= 4 { return; }
            s.stats.count(&k);
        }
        s.stats.oracle_failure(case, what, fid, vec![l.to_string()])
    };
    match t[0] {
        "enc" => {
            let (v, used) = match read_val(&t[1..]) { Some(x) => x, None => { s.op(line, "bad-op"); return; } };
            if used != t.len() - 1 { s.op(line, "bad-op"); return; }
            let b = enc(&v);
            s.op(line, &hex(&b));
            // oracle: round trip (with a trailing pipeline byte) for everything the encoder can frame
            if well_formed(&v) && !nest_ok(&v, 0) {
                // an *expected* rejection: nested deeper than MAX_NESTING
                let mut inp = b.clone();
                inp.extend_from_slice(b"+x");
                match real_dec(&inp) {
                    (Obs::Invalid, left) if left == inp => {}
                    (o, _) => fail(s, &format!("value nested deeper than MAX_NESTING was not rejected: {}", obs_str(&o, 0).chars().take(80).collect::<String>()), "", line),
                }
                s.stats.count("oracle.too_deep_rejected");
            } else if well_formed(&v) {
                let mut inp = b.clone();
                inp.extend_from_slice(b"+x");
                match real_dec(&inp) {
                    (Obs::Item(v2, n, raw), left) if v2 == v && n == b.len() && raw == b && left == b"+x" => {}
                    (o, _) => fail(s, &format!("round trip failed: decode(encode v ++ rest) = {}", obs_str(&o, 0).chars().take(120).collect::<String>()), "", line),
                }
                s.stats.count("oracle.roundtrip");
            }
        }
        "parse" | "dec" => {
            let inp = match t.get(1).and_then(|h| unhex(h)) { Some(b) => b, None => { s.op(line, "bad-op"); return; } };
            let (obs, after) = real_dec(&inp);
            if t[0] == "parse" {
                let r = catch_unwind(AssertUnwindSafe(|| parse_resp(&inp)));
                let out = match &r {
                    Err(_) => "PANIC".to_string(),
                    Ok(Err(ParseError::InvalidProtocol)) => "err InvalidProtocol".into(),
                    Ok(Err(ParseError::NotEnoughData)) => "err NotEnoughData".into(),
                    Ok(Err(ParseError::UnexpectedErr)) => "err UnexpectedErr".into(),
                    Ok(Ok((idx, n))) => { let mut o = vec![]; render_idx(idx, &mut o); format!("ok {} {}", n, o.join(" ")) }
                };
                s.op(line, &out);
            } else {
                s.op(line, &obs_str(&obs, after.len()));
            }
            match &obs {
                Obs::Item(v, n, raw) => {
                    s.stats.count("out.item");
                    if *n == 0 || *n > inp.len() || raw.as_slice() != &inp[..*n] || after.as_slice() != &inp[*n..] {
                        fail(s, "packet bytes are not the exact consumed prefix of the input", "", line);
                    }
                    if let Some((what, fid)) = classify_strict(&inp, v, *n) {
                        s.stats.count(if fid.is_empty() { "oracle.strict.unknown" } else { "oracle.strict.F7" });
                        fail(s, what, fid, line);
                    } else if enc(v) == raw.as_slice() { s.stats.count("out.item.canonical"); } else { s.stats.count("out.item.len_normalised"); }
                    // prefix / extension: no strict prefix of the consumed bytes may already decode,
                    // and appended bytes must not change the verdict
                    let cuts: Vec<usize> = if *n <= 48 { (0..*n).collect() } else { (0..24).map(|i| i * *n / 24).collect() };
                    for c in cuts {
                        let (o, a) = real_dec(&inp[..c]);
                        if o != Obs::None || a.len() != c { fail(s, "a strict prefix of a packet did not answer Ok(None) with the buffer untouched", "", &format!("dec {}", hex(&inp[..c]))); break; }
                    }
                    let mut ext = inp[..*n].to_vec(); ext.extend_from_slice(b"\r\n*");
                    if let (Obs::Item(v2, n2, _), _) = real_dec(&ext) { if &v2 != v || n2 != *n { fail(s, "verdict changed when bytes were appended", "", line); } }
                    else { fail(s, "verdict changed when bytes were appended", "", line); }
                    s.stats.count("oracle.prefix_ext");
                }
                Obs::None => {
                    s.stats.count("out.none");
                    if after != inp { fail(s, "Ok(None) but the buffer was modified", "", line); }
                    if matches!(rec(&inp, true, 0), Rec::Ok(..)) && matches!(rec(&inp, false, 0), Rec::Ok(..)) {
                        fail(s, "complete RESP value answered Ok(None)", "", line);
                    }
                }
                Obs::Invalid => {
                    s.stats.count("out.invalid");
                    if after != inp { fail(s, "Err but the buffer was modified", "", line); }
                    if let Rec::Ok(..) = rec(&inp, false, 0) { fail(s, "valid RESP rejected as InvalidProtocol", "", line); }
                    let mut ext = inp.clone(); ext.extend_from_slice(b"\r\n");
                    if real_dec(&ext).0 != Obs::Invalid { fail(s, "protocol error disappeared when bytes were appended", "", line); }
                }
                Obs::Panic => { s.stats.count("out.panic"); }
            }
        }
        "stream" => {
            let mut chunks = vec![];
            for h in &t[1..] { match unhex(h) { Some(b) => chunks.push(b), None => { s.op(line, "bad-op"); return; } } }
            let (out, pk, left, fwd_ok) = real_stream(&chunks);
            s.op(line, &out);
            s.stats.add("out.stream.packets", pk.len() as u64);
            s.stats.count(if left.is_some() { "out.stream.open" } else { "out.stream.error" });
            let all: Vec<u8> = chunks.concat();
            let (out1, pk1, left1, _) = real_stream(&[all.clone()]);
            if out1 != out || pk1 != pk || left1 != left { fail(s, "chunked decoding differs from decoding the same bytes in one read", "", line); }
            if !fwd_ok { fail(s, "re-encoding a decoded packet does not reproduce its bytes", "", line); }
            let mut cat: Vec<u8> = pk.iter().flat_map(|p| p.1.clone()).collect();
            let consumed = cat.len();
            if let Some(l) = &left { cat.extend_from_slice(l); if cat != all { fail(s, "packets ++ left-over buffer != bytes read", "", line); } }
            else if cat.as_slice() != &all[..consumed.min(all.len())] { fail(s, "packets are not a prefix of the bytes read", "", line); }
            s.stats.count("oracle.chunking");
        }
        "hm.produce" => {
            let cmd: Vec<BinSafeStr> = vec![b"PING".to_vec()];
            let (pkt, need) = match (t.get(1).copied(), t.get(2).and_then(|n| n.parse::<usize>().ok())) {
                (Some("S"), _) => (OptionalMulti::Single(cmd), (false, 1)),
                (Some("M"), Some(n)) => (OptionalMulti::Multi(vec![cmd; n]), (true, n)),
                _ => { s.op(line, "bad-op"); return; }
            };
            let r = cx.hm.enc.encode(pkt, |_| {});
            let ok = match r { Ok(_) => true, Err(EncodeError::NotReady(_)) => false, Err(_) => false };
            s.op(line, if ok { "ok" } else { "notready" });
            if ok && cx.hm.need.is_none() && cx.hm.fed.is_empty() { cx.hm.need = Some(need); } else { cx.hm.clean = false; }
        }
        "hm.feed" => {
            let b = match t.get(1).and_then(|h| unhex(h)) { Some(b) => b, None => { s.op(line, "bad-op"); return; } };
            cx.hm.buf.extend_from_slice(&b);
            cx.hm.fed.extend_from_slice(&b);
            s.op(line, &format!("buf {}", cx.hm.buf.len()));
        }
        "hm.decode" => {
            let h = &mut cx.hm;
            let r = catch_unwind(AssertUnwindSafe(|| h.dec.decode(&mut h.buf)));
            let o = to_hout(r);
            s.op(line, &format!("{} ; left {}", hout_str(&o), h.buf.len()));
            s.stats.count(match &o { HOut::None => "out.hm.none", HOut::Single(_) => "out.hm.single", HOut::Multi(_) => "out.hm.multi", HOut::Invalid => "out.hm.invalid", HOut::Panic => "out.hm.panic" });
            // oracle (clean scenarios): exactly the first n replies, in order, exactly once, nothing lost
            if h.clean && !h.errored {
                if let Some((multi, n)) = h.need {
                    let want = if multi { n } else { 1 };
                    let (pk, err) = plain_packets(&h.fed, want);
                    let exp: (HOut, usize) = if h.delivered { (HOut::None, h.buf.len()) }
                        else if multi && n == 0 { (HOut::Multi(vec![]), h.fed.len()) }
                        else if pk.len() == want {
                            let vs: Vec<V> = pk.iter().map(|p| p.0.clone()).collect();
                            let used = pk.last().map(|p| p.1).unwrap_or(0);
                            (if multi { HOut::Multi(vs) } else { HOut::Single(vs[0].clone()) }, h.fed.len() - used)
                        } else if err { (HOut::Invalid, h.fed.len() - pk.last().map(|p| p.1).unwrap_or(0)) }
                        else { (HOut::None, h.fed.len() - pk.last().map(|p| p.1).unwrap_or(0)) };
                    if exp.0 != o || exp.1 != h.buf.len() {
                        let hist = format!("hint {:?}, fed {}", h.need, hex(&h.fed));
                        s.stats.oracle_failure(case, "hint machine: replies differ from the first n packets of the stream (order/count/left-over)", "", vec![hist, line.to_string()]);
                    }
                    match o { HOut::Single(_) | HOut::Multi(_) => h.delivered = true, HOut::Invalid | HOut::Panic => h.errored = true, HOut::None => {} }
                    s.stats.count("oracle.hm");
                }
            }
        }
        "hm.run" => {
            let (multi, n, from) = match (t.get(1).copied(), t.get(2).and_then(|n| n.parse::<usize>().ok())) {
                (Some("S"), _) => (false, 1usize, 2usize),
                (Some("M"), Some(n)) if n <= 4096 => (true, n, 3usize),
                _ => { s.op(line, "bad-op"); return; }
            };
            let mut chunks = vec![];
            for h in &t[from..] { match unhex(h) { Some(b) => chunks.push(b), None => { s.op(line, "bad-op"); return; } } }
            let r = real_hm_run(multi, n, &chunks);
            s.op(line, &hm_run_str(&r));
            if !chunks.is_empty() {
                let all: Vec<u8> = chunks.concat();
                // chunk independence
                let r1 = real_hm_run(multi, n, &[all.clone()]);
                if r1 != r { fail(s, "hint machine: replies/left-over depend on how the bytes were cut into reads", "", line); }
                // exactly the first n replies in order
                let want = if multi { n } else { 1 };
                let (pk, err) = plain_packets(&all, want);
                let used = pk.last().map(|p| p.1).unwrap_or(0);
                let exp: (Vec<HOut>, Option<usize>) = if multi && n == 0 { (vec![HOut::Multi(vec![])], Some(all.len())) }
                    else if pk.len() == want { let vs: Vec<V> = pk.iter().map(|p| p.0.clone()).collect();
                        (vec![if multi { HOut::Multi(vs) } else { HOut::Single(vs[0].clone()) }], Some(all.len() - used)) }
                    else if err { (vec![HOut::Invalid], None) }
                    else { (vec![], Some(all.len() - used)) };
                let exp = if r.0.last() == Some(&HOut::Panic) { r.clone() } else { exp };
                if exp != r { fail(s, "hint machine run: replies differ from the first n packets of the stream", "", line); }
                s.stats.count("oracle.hm_run");
            }
        }
        "omstatic" => {
            let (hint, hx): (OptionalMulti<()>, &str) = match (t.get(1).copied(), t.len()) {
                (Some("S"), 3) => (OptionalMulti::Single(()), t[2]),
                (Some("M"), 4) => match t[2].parse::<usize>() { Ok(n) if n <= 4096 => (OptionalMulti::Multi(vec![(); n]), t[3]), _ => { s.op(line, "bad-op"); return; } },
                _ => { s.op(line, "bad-op"); return; }
            };
            let inp = match unhex(hx) { Some(b) => b, None => { s.op(line, "bad-op"); return; } };
            let mut buf = BytesMut::from(inp.as_slice());
            let r = catch_unwind(AssertUnwindSafe(|| <OptionalMulti<V> as DecodedPacket>::decode(&mut buf, hint)));
            let o = to_hout(r);
            s.op(line, &format!("{} ; left {}", hout_str(&o), buf.len()));
            if o == HOut::None && buf.len() != inp.len() {
                s.stats.count("oracle.F15a");
                fail(s, "stateless OptionalMulti::decode answered Ok(None) after consuming (and dropping) complete packets", "F15a", line);
            }
        }
        "sizeof" => s.op(line, &std::mem::size_of::<RespIndex>().to_string()),
        _ => s.op(line, "bad-op"),
    }
}

// ------------------------------------------------------------------------------------------
// generators
// ------------------------------------------------------------------------------------------

struct Gen { rng: Rng, thorough: bool }

impl Gen {
    fn line_payload(&mut self, st: &mut Stats) -> Vec<u8> {
        match self.rng.below(7) {
            0 => { st.count("gen.line.empty"); vec![] }
            1 => { st.count("gen.line.word"); self.rng.pick(&[&b"OK"[..], b"PONG", b"QUEUED", b"ERR unknown command", b"MOVED 3999 127.0.0.1:6381"]).to_vec() }
            2 => { st.count("gen.line.int"); self.rng.range(-1000, 100000).to_string().into_bytes() }
            3 => { st.count("gen.line.with_cr"); let mut v = b"a\rb".to_vec(); if self.rng.chance(1, 2) { v.push(b'\r'); } v }
            4 => { st.count("gen.line.resp_like"); self.rng.pick(&[&b"$3"[..], b"*2", b"+", b"\r", b"\r\r", b":-1"]).to_vec() }
            5 => { st.count("gen.line.binary"); let n = self.rng.range(1, 24) as usize; self.rng.bytes(n).into_iter().map(|c| if c == b'\n' { 11 } else { c }).collect() }
            _ => { st.count("gen.line.i64"); (self.rng.next_u64() as i64).to_string().into_bytes() }
        }
    }
    fn bulk_payload(&mut self, st: &mut Stats, big: bool) -> Vec<u8> {
        match self.rng.below(if big { 9 } else { 8 }) {
            0 => { st.count("gen.bulk.empty"); vec![] }
            1 => { st.count("gen.bulk.word"); self.rng.pick(&[&b"GET"[..], b"SET", b"key", b"value", b"{tag}k", b"0"]).to_vec() }
            2 => { st.count("gen.bulk.crlf"); self.rng.pick(&[&b"\r\n"[..], b"\n", b"\r", b"a\r\nb", b"\r\n\r\n", b"x\n"]).to_vec() }
            3 => { st.count("gen.bulk.resp_like"); self.rng.pick(&[&b"\r\n$3\r\nabc\r\n"[..], b"*1\r\n", b"$-1\r\n", b"+OK\r\n", b"$5\r\nab"]).to_vec() }
            4 => { st.count("gen.bulk.binary"); let n = self.rng.range(1, 40) as usize; self.rng.bytes(n) }
            5 => { st.count("gen.bulk.len9_11"); let n = self.rng.range(9, 11) as usize; vec![b'z'; n] }
            6 => { st.count("gen.bulk.len99_101"); let n = self.rng.range(99, 101) as usize; self.rng.bytes(n) }
            7 => { st.count("gen.bulk.medium"); let n = self.rng.range(200, 1500) as usize; self.rng.bytes(n) }
            _ => { st.count("gen.bulk.big"); let hi = if self.thorough { 65536 } else { 8192 }; let n = self.rng.range(4000, hi) as usize; self.rng.bytes(n) }
        }
    }
    fn value(&mut self, st: &mut Stats, depth: u32, big: bool) -> V {
        let k = if depth >= 6 { self.rng.below(6) } else { self.rng.below(9) };
        match k {
            0 => Resp::Simple(self.line_payload(st)),
            1 => Resp::Error(self.line_payload(st)),
            2 => Resp::Integer(self.line_payload(st)),
            3 | 4 => Resp::Bulk(BulkStr::Str(self.bulk_payload(st, big))),
            5 => { st.count("gen.nil"); if self.rng.chance(1, 2) { Resp::Bulk(BulkStr::Nil) } else { Resp::Arr(Array::Nil) } }
            _ => {
                let n = match self.rng.below(10) { 0 => 0, 1..=6 => self.rng.range(1, 4), 7 | 8 => self.rng.range(5, 12), _ => if depth == 0 && big { self.rng.range(100, 1500) } else { 10 } } as usize;
                st.count(match n { 0 => "gen.arr.empty", 1..=12 => "gen.arr.small", _ => "gen.arr.long" });
                let child_big = big && n <= 4;
                Resp::Arr(Array::Arr((0..n).map(|_| if n > 12 { self.small_leaf(st) } else { self.value(st, depth + 1, child_big) }).collect()))
            }
        }
    }
    fn small_leaf(&mut self, st: &mut Stats) -> V {
        match self.rng.below(4) { 0 => Resp::Integer(self.rng.range(0, 999).to_string().into_bytes()), 1 => Resp::Bulk(BulkStr::Nil), _ => Resp::Bulk(BulkStr::Str(self.bulk_payload(st, false))) }
    }
    /// a chain `*1 *1 ... leaf` (depth of nesting as the quantifier asks: nested arrays)
    fn deep(&mut self, st: &mut Stats, d: u32) -> V {
        st.count("gen.arr.deep_chain");
        let mut v = self.small_leaf(st);
        for _ in 0..d { v = Resp::Arr(Array::Arr(vec![v])); }
        v
    }
    fn command(&mut self, st: &mut Stats) -> V {
        st.count("gen.command");
        let n = self.rng.range(1, 5) as usize;
        Resp::Arr(Array::Arr((0..n).map(|_| Resp::Bulk(BulkStr::Str(self.bulk_payload(st, false)))).collect()))
    }
    fn depth(v: &V) -> u32 { match v { Resp::Arr(Array::Arr(l)) => 1 + l.iter().map(Gen::depth).max().unwrap_or(0), _ => 0 } }

    fn chunking(&mut self, all: &[u8], st: &mut Stats) -> Vec<Vec<u8>> {
        let n = all.len();
        match self.rng.below(4) {
            0 if n <= 120 => { st.count("gen.chunk.bytewise"); all.iter().map(|b| vec![*b]).collect() }
            1 => { st.count("gen.chunk.two"); let c = self.rng.below(n as u64 + 1) as usize; vec![all[..c].to_vec(), all[c..].to_vec()] }
            2 => { st.count("gen.chunk.with_empty_reads"); let c = self.rng.below(n as u64 + 1) as usize; vec![vec![], all[..c].to_vec(), vec![], all[c..].to_vec(), vec![]] }
            _ => {
                st.count("gen.chunk.random");
                let mut out = vec![]; let mut i = 0;
                while i < n { let m = if n > 300 { (n / 8) as u64 } else if self.rng.chance(1, 3) { 3 } else { 40 }; let k = 1 + self.rng.below(m) as usize; let j = (i + k).min(n); out.push(all[i..j].to_vec()); i = j; }
                out
            }
        }
    }

    fn mutate(&mut self, mut b: Vec<u8>, st: &mut Stats) -> Vec<u8> {
        if b.is_empty() { return b; }
        let i = self.rng.below(b.len() as u64) as usize;
        match self.rng.below(9) {
            0 => { st.count("gen.mut.flip"); b[i] = self.rng.next_u64() as u8; }
            1 => { st.count("gen.mut.delete"); b.remove(i); }
            2 => { st.count("gen.mut.insert"); let c = *self.rng.pick(&[b'\r', b'\n', b'$', b'*', b'1', b'0', b'-', b'+', b' ', 0u8]); b.insert(i, c); }
            3 => { st.count("gen.mut.truncate"); b.truncate(i); }
            4 => { st.count("gen.mut.cr_replaced");
                   let crs: Vec<usize> = (0..b.len()).filter(|j| b[*j] == b'\r').collect();
                   if !crs.is_empty() { let j = *self.rng.pick(&crs); b[j] = *self.rng.pick(&[b'X', b' ', b'\n', 0u8, b'\r']); } }
            5 => { st.count("gen.mut.cr_dropped");
                   let crs: Vec<usize> = (0..b.len()).filter(|j| b[*j] == b'\r').collect();
                   if !crs.is_empty() { let j = *self.rng.pick(&crs); b.remove(j); } }
            6 => { st.count("gen.mut.len_bumped");
                   let ds: Vec<usize> = (0..b.len()).filter(|j| b[*j].is_ascii_digit()).collect();
                   if !ds.is_empty() { let j = *self.rng.pick(&ds); b[j] = b'0' + ((b[j] - b'0' + 1 + self.rng.below(8) as u8) % 10); } }
            7 => { st.count("gen.mut.sign");
                   let ps: Vec<usize> = (0..b.len()).filter(|j| b[*j] == b'$' || b[*j] == b'*').collect();
                   if !ps.is_empty() { let j = *self.rng.pick(&ps); b.insert(j + 1, *self.rng.pick(&[b'+', b'-', b'0'])); } }
            _ => { st.count("gen.mut.lf_only_terminators"); b.retain(|c| *c != b'\r'); }
        }
        b
    }
    fn alphabet_string(&mut self, st: &mut Stats, maxlen: i64) -> Vec<u8> {
        st.count("gen.alphabet_random");
        let n = self.rng.range(1, maxlen) as usize;
        (0..n).map(|_| *self.rng.pick(&[b'*', b'$', b'+', b'-', b':', b'0', b'1', b'2', b'\r', b'\n', b'a'])).collect()
    }
}

/// F4 guard: cut every `*[+-]?<digits>` run to 6 digits (declared array length <= 999999)
fn cap_array_lens(b: &[u8]) -> Vec<u8> {
    let mut out = Vec::with_capacity(b.len());
    let mut i = 0;
    while i < b.len() {
        out.push(b[i]);
        if b[i] == b'*' {
            let mut j = i + 1;
            if j < b.len() && (b[j] == b'+' || b[j] == b'-') { out.push(b[j]); j += 1; }
            let mut k = 0;
            while j < b.len() && b[j].is_ascii_digit() { if k < 6 { out.push(b[j]); } k += 1; j += 1; }
            i = j;
        } else { i += 1; }
    }
    out
}
/// nesting guard: at most 200 array headers in a row matter for recursion depth; cheap bound:
/// at most 200 `*` bytes overall in malformed inputs
fn too_deep(b: &[u8]) -> bool { b.iter().filter(|c| **c == b'*').count() > 200 }

const CAP_PROBES: [&str; 3] = ["*9223372036854775807\r\n", "*288230376151711744\r\n", "*2\r\n:1\r\n*+4611686018427387904\r\n"];

fn generate(args: &Args, s: &mut Streams, cx: &mut Ctx) {
    let mut g = Gen { rng: Rng::new(args.seed), thorough: args.thorough };
    let mut run = |s: &mut Streams, cx: &mut Ctx, l: String| exec(&l, cx, s);
    let safe = |b: &[u8]| -> Option<Vec<u8>> { let c = cap_array_lens(b); if too_deep(&c) { None } else { Some(c) } };

    // ---- fixed boundary cases -----------------------------------------------------------
    s.case(); *cx = Ctx { hm: HmCase::new() };
    run(s, cx, "sizeof".into());
    for p in CAP_PROBES { run(s, cx, format!("parse {}", hex(p.as_bytes()))); s.stats.count("gen.capacity_probe"); }
    for t in ["+OK\n", "$3\r\nabcXY", "$+3\r\nabc\r\n", "$-7\r\n", "*-7\r\n", "$-0\r\n\r\n", "$03\r\nabc\r\n", "*+1\r\n:1\r\n", "+\n", "+\r\n", "+X\n",
              "$0\r\n\r\n", "*0\r\n", "$-1\r\n", "*-1\r\n", "\r\n", "\n", "", "x", "$\r\n", "$ 1\r\na\r\n", "$1 \r\na\r\n", "*1\r\n", "*1\r\n$1\r\na\r\n",
              "$9223372036854775807\r\n", "$9223372036854775808\r\n", "$-9223372036854775808\r\n", "$-9223372036854775809\r\n",
              ":\r\n", ":abc\r\n", "-ERR x\r\n", "+a\rb\r\n", "+a\r\r\n", "+OK\r", "+OK\r\r", "$2\r\nab\r", "$2\r\nab\rX", "$2\nab\r\n", "*1\n:1\n", "*2\r\n$1\r\na\r\n"] {
        run(s, cx, format!("dec {}", hex(t.as_bytes())));
        run(s, cx, format!("parse {}", hex(t.as_bytes())));
        s.stats.count("gen.fixed");
    }

    // ---- nesting boundary: chains of 126..130 arrays around MAX_NESTING, three kinds of innermost value
    for k in (MAX_NESTING - 2)..=(MAX_NESTING + 2) {
        for leaf in [Resp::Integer(b"1".to_vec()), Resp::Arr(Array::Arr(vec![])), Resp::Arr(Array::Nil), Resp::Bulk(BulkStr::Nil)] {
            s.case();
            let mut v = leaf;
            for i in 0..k { v = if i % 2 == 0 { Resp::Arr(Array::Arr(vec![v])) } else { Resp::Arr(Array::Arr(vec![Resp::Simple(b"a".to_vec()), v])) }; }
            s.stats.count("gen.nesting_boundary");
            let b = enc(&v);
            run(s, cx, format!("enc {}", val_str(&v)));
            run(s, cx, format!("dec {}", hex(&b)));
            run(s, cx, format!("parse {}", hex(&b)));
            // the verdict is given at the offending `*`, whatever follows or is still missing
            let cut = b.len() / 2 + 3;
            run(s, cx, format!("dec {}", hex(&b[..cut.min(b.len())])));
            run(s, cx, format!("stream {} {}", hex(&b[..cut.min(b.len())]), hex(&b[cut.min(b.len())..])));
            run(s, cx, format!("hm.run S {} {}", hex(&b[..7]), hex(&b[7..])));
        }
    }

    // ---- values: encode, round trip, all prefixes, index trees -----------------------------
    let n_values = if args.thorough { 30_000 } else { 1_200 };
    for i in 0..n_values {
        s.case(); *cx = Ctx { hm: HmCase::new() };
        let big = g.rng.chance(1, if args.thorough { 40 } else { 60 });
        let v = match g.rng.below(12) { 0 => { let d = g.rng.range(1, 6) as u32; g.deep(&mut s.stats, d) } 1 | 2 => g.command(&mut s.stats), _ => g.value(&mut s.stats, 0, big) };
        let d = Gen::depth(&v);
        s.stats.count(&format!("gen.value.depth{}", d.min(6)));
        let b = enc(&v);
        s.stats.count(match b.len() { 0..=16 => "gen.value.len<=16", 17..=64 => "gen.value.len<=64", 65..=1024 => "gen.value.len<=1K", 1025..=16384 => "gen.value.len<=16K", _ => "gen.value.len>16K" });
        run(s, cx, format!("enc {}", val_str(&v)));
        s.stats.nontrivial_case(&hex(&b));
        if i < 6 { s.stats.sample(json!({"value": val_str(&v).chars().take(80).collect::<String>(), "encoded_len": b.len()})); }
        let mut with_rest = b.clone();
        with_rest.extend_from_slice(*g.rng.pick(&[&b""[..], b"+", b"\r\n", b"*1\r\n$4\r\nPING\r\n", b"$5\r\nab"]));
        run(s, cx, format!("parse {}", hex(&with_rest)));
        run(s, cx, format!("dec {}", hex(&with_rest)));
        // every strict prefix (short) / sampled prefixes (long) through the model as well
        if b.len() <= 64 { for c in 0..b.len() { run(s, cx, format!("dec {}", hex(&b[..c]))); } s.stats.count("gen.prefixes.exhaustive"); }
        else { for _ in 0..6 { let c = g.rng.below(b.len() as u64) as usize; run(s, cx, format!("dec {}", hex(&b[..c]))); } s.stats.count("gen.prefixes.sampled"); }
    }
    // encoder on values it cannot frame (LF in a line payload): model agreement only
    for _ in 0..(if args.thorough { 2000 } else { 100 }) {
        s.case();
        let v = Resp::Arr(Array::Arr(vec![Resp::Simple(b"a\nb".to_vec()), g.value(&mut s.stats, 3, false), Resp::Error(b"\n".to_vec())]));
        s.stats.count("gen.value.not_frameable");
        let b = enc(&v);
        run(s, cx, format!("enc {}", val_str(&v)));
        run(s, cx, format!("dec {}", hex(&b)));
    }

    // ---- pipelines x chunkings through RespCodec -------------------------------------------
    let n_pipes = if args.thorough { 30_000 } else { 500 };
    for _ in 0..n_pipes {
        s.case(); *cx = Ctx { hm: HmCase::new() };
        let k = g.rng.range(1, 8) as usize;
        s.stats.count(&format!("gen.pipeline.len{}", k));
        let mut all = vec![];
        for _ in 0..k { let v = match g.rng.below(8) { 0..=3 => g.command(&mut s.stats), 4..=6 => g.value(&mut s.stats, 4, false), _ => g.value(&mut s.stats, 2, false) }; all.extend_from_slice(&enc(&v)); }
        match g.rng.below(6) {
            0 => { s.stats.count("gen.pipeline.partial_tail"); let v = g.command(&mut s.stats); let e = enc(&v); let c = g.rng.below(e.len() as u64) as usize; all.extend_from_slice(&e[..c]); }
            1 => { s.stats.count("gen.pipeline.garbage_tail"); all.extend_from_slice(*g.rng.pick(&[&b"x\r\n"[..], b"\n", b"$a\r\n", b"*x\r\n"])); }
            2 => { s.stats.count("gen.pipeline.mutated"); all = g.mutate(all, &mut s.stats); }
            _ => {}
        }
        let all = match safe(&all) { Some(a) => a, None => continue };
        s.stats.nontrivial_case(&hex(&all));
        if all.len() <= 64 {
            s.stats.count("gen.chunk.every_split_point");
            for c in 0..=all.len() { run(s, cx, format!("stream {} {}", hex(&all[..c]), hex(&all[c..]))); }
        }
        for _ in 0..3 {
            let ch = g.chunking(&all, &mut s.stats);
            let l = format!("stream {}", ch.iter().map(|c| hex(c)).collect::<Vec<_>>().join(" "));
            run(s, cx, l);
        }
    }

    // ---- hint machine ------------------------------------------------------------------------
    let n_hm = if args.thorough { 30_000 } else { 800 };
    for _ in 0..n_hm {
        s.case(); *cx = Ctx { hm: HmCase::new() };
        let clean = g.rng.chance(3, 4);
        let (hint, n) = if g.rng.chance(1, 3) { ("S".to_string(), 1usize) } else { let n = *g.rng.pick(&[0usize, 1, 2, 2, 3, 4, 8]); (format!("M {}", n), n) };
        s.stats.count(if hint == "S" { "gen.hm.single" } else if n == 0 { "gen.hm.multi0" } else { "gen.hm.multi" });
        run(s, cx, format!("hm.produce {}", hint));
        let k = (n as i64 + g.rng.range(-1, 2)).max(0) as usize;
        let mut all = vec![];
        for _ in 0..k { let v = if g.rng.chance(1, 6) { g.value(&mut s.stats, 3, false) } else { g.value(&mut s.stats, 4, false) }; all.extend_from_slice(&enc(&v)); }
        if g.rng.chance(1, 8) { s.stats.count("gen.hm.mutated"); all = g.mutate(all, &mut s.stats); }
        let all = match safe(&all) { Some(a) => a, None => continue };
        s.stats.nontrivial_case(&format!("{} {}", hint, hex(&all)));
        let chunks = g.chunking(&all, &mut s.stats);
        s.stats.count(if clean { "gen.hm.clean" } else { "gen.hm.interleaved" });
        for c in chunks {
            run(s, cx, format!("hm.feed {}", hex(&c)));
            run(s, cx, "hm.decode".into());
            if g.rng.chance(1, 2) { run(s, cx, "hm.decode".into()); }
            if !clean && g.rng.chance(1, 3) { let h2 = if g.rng.chance(1, 2) { "S".to_string() } else { format!("M {}", g.rng.below(3)) }; run(s, cx, format!("hm.produce {}", h2)); }
        }
        run(s, cx, "hm.decode".into());
        run(s, cx, "hm.decode".into());
        // the whole scenario as one `hm.run` (fresh pair), in two chunkings
        for _ in 0..2 {
            let ch = g.chunking(&all, &mut s.stats);
            if ch.is_empty() { continue; }
            s.stats.count("gen.hm.run");
            run(s, cx, format!("hm.run {} {}", hint, ch.iter().map(|c| hex(c)).collect::<Vec<_>>().join(" ")));
        }
        // the stateless variant on the same bytes
        if g.rng.chance(1, 3) { s.stats.count("gen.omstatic"); run(s, cx, format!("omstatic {} {}", hint, hex(&all))); }
    }

    // ---- malformed -----------------------------------------------------------------------------
    let n_mal = if args.thorough { 400_000 } else { 6_000 };
    for _ in 0..n_mal {
        if s.lines % 5000 < 3 { s.case(); }
        let b = match g.rng.below(5) {
            0 => g.alphabet_string(&mut s.stats, 12),
            1 => { s.stats.count("gen.random_bytes"); let n = g.rng.range(1, 16) as usize; g.rng.bytes(n) }
            _ => { let v = g.value(&mut s.stats, 3, false); let mut b = g.mutate(enc(&v), &mut s.stats); if g.rng.chance(1, 4) { b = g.mutate(b, &mut s.stats); } b }
        };
        if let Some(b) = safe(&b) { run(s, cx, format!("dec {}", hex(&b))); if g.rng.chance(1, 8) { run(s, cx, format!("parse {}", hex(&b))); } }
    }
    // exhaustive strings over {*,$,+,-,:,0,1,\r,\n}
    let alpha = [b'*', b'$', b'+', b'-', b':', b'0', b'1', b'\r', b'\n'];
    let maxlen = if args.thorough { 6 } else { 4 };
    s.case();
    for len in 1..=maxlen {
        let mut idx = vec![0usize; len];
        loop {
            let b: Vec<u8> = idx.iter().map(|i| alpha[*i]).collect();
            run(s, cx, format!("dec {}", hex(&b)));
            s.stats.count("gen.alphabet_exhaustive");
            let mut p = len;
            loop { if p == 0 { break; } p -= 1; idx[p] += 1; if idx[p] < alpha.len() { break; } idx[p] = 0; if p == 0 { p = usize::MAX; break; } }
            if p == usize::MAX { break; }
        }
    }
    // exhaustive terminators: every byte in the place of CR, every pair after a bulk payload
    s.case();
    for c in 0..=255u8 { run(s, cx, format!("dec {}", hex(&[b'+', b'O', b'K', c, b'\n']))); run(s, cx, format!("dec {}", hex(&[b'$', b'1', c, b'\n', b'a', b'\r', b'\n']))); s.stats.count("gen.terminator_exhaustive"); }
    for c in 0..=255u8 { for d in [b'\r', b'\n', b'X', c] { run(s, cx, format!("dec {}", hex(&[b'$', b'1', b'\r', b'\n', b'a', c, d]))); run(s, cx, format!("dec {}", hex(&[b'$', b'1', b'\r', b'\n', b'a', d, c]))); s.stats.count("gen.terminator_exhaustive"); } }
}

fn real_main() {
    let args = parse_args();
    let mut s = Streams::new(&args);
    let mut cx = Ctx { hm: HmCase::new() };
    std::panic::set_hook(Box::new(|_| {}));
    if let Some(p) = &args.replay {
        s.case();
        for l in read_lines(p) {
            if l.starts_with('#') { continue; }
            if let Some(n) = l.strip_prefix("case ") { let _ = n; s.case(); cx = Ctx { hm: HmCase::new() }; continue; }
            // the F4 guard also applies to replayed inputs
            exec(&l, &mut cx, &mut s);
        }
    } else {
        generate(&args, &mut s, &mut cx);
    }
    s.finish("resp", "values: type-directed (depth<=6, nil bulk/array, empty, CR/LF and RESP-like payloads, <=64 KiB), every strict prefix of short encodings; pipelines of 1-8 packets x every split point (<=64 bytes) + random/bytewise/empty-read chunkings; hint machine scenarios; malformed: 9 mutation classes, alphabet strings, exhaustive strings over {*,$,+,-,:,0,1,CR,LF}, every byte as terminator; non-trivial = a generated value / pipeline / hint scenario (distinct by its bytes)");
}

fn main() {
    let h = std::thread::Builder::new().stack_size(512 << 20).spawn(real_main).expect("spawn");
    if h.join().is_err() { std::process::exit(101); }
}
