use std::sync::atomic::{AtomicBool, Ordering};
use std::sync::Arc;
use std::task::{Context, Poll, Wake, Waker};
use std::time::Duration;
struct Flag(AtomicBool);
impl Wake for Flag { fn wake(self: Arc<Self>) { self.0.store(true, Ordering::SeqCst); } }
fn main() {
    let adv: u64 = std::env::args().nth(1).and_then(|s| s.parse().ok()).unwrap_or(800);
    let rt = tokio::runtime::Builder::new_current_thread().enable_time().start_paused(std::env::args().nth(2).is_none()).build().unwrap();
    rt.block_on(async move {
        let flag = Arc::new(Flag(AtomicBool::new(true)));
        let waker = Waker::from(flag.clone());
        let mut cx = Context::from_waker(&waker);
        let mut iv = tokio::time::interval(Duration::from_millis(5));
        let t0 = tokio::time::Instant::now();
        // first tick
        println!("first: {:?}", iv.poll_tick(&mut cx).is_ready());
        println!("second: {:?}", iv.poll_tick(&mut cx).is_ready());
        flag.0.store(false, Ordering::SeqCst);
        if std::env::args().nth(2).is_none() { tokio::time::advance(Duration::from_millis(adv)).await; } else { std::thread::sleep(Duration::from_millis(adv)); tokio::task::yield_now().await; flag.0.store(true, Ordering::SeqCst); }
        let mut n = 0; let mut ready = 0; let mut last = None;
        loop { tokio::task::yield_now().await; if !(flag.0.swap(false, Ordering::SeqCst) && n < 3000) { break; }
            n += 1;
            match iv.poll_tick(&mut cx) { Poll::Ready(t) => { ready += 1; last = Some(t - t0); } Poll::Pending => {} }
        }
        println!("adv {} polls {} ready {} last {:?} now {:?}", adv, n, ready, last, tokio::time::Instant::now() - t0);
    });
}
