# Plugin of extract.py: index tables of the chunk layout (src/broker/store.rs, src/broker/query.rs)
ROLES = ["Normal", "FirstChunkMaster", "SecondChunkMaster"]


def _eval_arms(body, path, fname):
    """arms of `match (chunk_part, role_position) { (pat, pat) => expr, ... }` -> table[part][role]"""
    arms = re.findall(r"\(\s*(\w+)\s*,\s*([\w:]+)\s*\)\s*=>\s*([^,]+),", body)
    if len(arms) < 2:
        raise ExtractError(f"{path}: {fname}: match arms not recognised")
    table = []
    for part in (0, 1):
        row = []
        for role in ROLES:
            val = None
            for p, r, rhs in arms:
                pm = (p == str(part)) or (not p.isdigit())
                rm = (r == "_") or r.endswith("::" + role)
                if pm and rm:
                    rhs = rhs.strip()
                    env = {} if p.isdigit() else {p: part}
                    if not re.fullmatch(r"[\w\s\*\+]+", rhs):
                        raise ExtractError(f"{path}: {fname}: unsupported rhs {rhs!r}")
                    val = eval(rhs, {"__builtins__": {}}, env)
                    break
            if val is None:
                raise ExtractError(f"{path}: {fname}: no arm for ({part},{role})")
            row.append(int(val))
        table.append(row)
    return table


def gen_chunk_tables():
    p = "src/broker/store.rs"
    t = src(p)
    consts = {n: const_num(t, n, p) for n in ["NODES_PER_PROXY", "CHUNK_PARTS", "CHUNK_HALF_NODE_NUM", "CHUNK_NODE_NUM"]}
    proxy_idx = _eval_arms(fn_body(t, "chunk_part_to_proxy_index", p), p, "chunk_part_to_proxy_index")
    node_idx = _eval_arms(fn_body(t, "chunk_part_to_node_index", p), p, "chunk_part_to_node_index")
    q = "src/broker/query.rs"
    body = fn_body(src(q), "cluster_store_to_cluster", q)
    # (first_slot_index, second_slot_index) per role
    m = re.search(r"let\s*\(\s*first_slot_index\s*,\s*second_slot_index\s*\)\s*=\s*match\s+chunk\.role_position\s*\{(.*?)\};", body, re.S)
    if not m:
        raise ExtractError(f"{q}: slot index match not found")
    slot_idx = {}
    for role, a, b in re.findall(r"ChunkRolePosition::(\w+)\s*=>\s*\(\s*(\d+)\s*,\s*(\d+)\s*\)", m.group(1)):
        slot_idx[role] = (int(a), int(b))
    if sorted(slot_idx) != sorted(ROLES):
        raise ExtractError(f"{q}: slot index arms incomplete: {slot_idx}")
    # proxy of node i
    if not re.search(r"\.proxy_addresses\s*\.get\(\s*i\s*/\s*2\s*\)", body):
        raise ExtractError(f"{q}: node i is expected to belong to proxy i / 2")
    # replica arms
    m = re.search(r"let\s+mut\s+role\s*=\s*Role::Master\s*;\s*match\s+chunk\.role_position\s*\{(.*?)_\s*=>\s*\(\)", body, re.S)
    if not m:
        raise ExtractError(f"{q}: role match not found")
    replica = {r: [False] * consts["CHUNK_NODE_NUM"] for r in ROLES}
    arms = re.findall(r"ChunkRolePosition::(\w+)\s+if\s+([^=]*?(?:==|>=|<=|<|>)[^=]*?)=>\s*(?:\{\s*)?role\s*=\s*Role::Replica", m.group(1))
    if len(arms) != 3:
        raise ExtractError(f"{q}: expected 3 replica arms, found {len(arms)}")
    for role, guard in arms:
        g = guard.strip()
        for k, v in consts.items():
            g = g.replace(k, str(v))
        if not re.fullmatch(r"[\w\s%<>=]+", g):
            raise ExtractError(f"{q}: unsupported guard {guard!r}")
        for i in range(consts["CHUNK_NODE_NUM"]):
            replica[role][i] = bool(eval(g, {"__builtins__": {}}, {"i": i}))
    # peer index
    m = re.search(r"let\s+peer_index\s*=\s*match\s+i\s*\{(.*?)\};", body, re.S)
    if not m:
        raise ExtractError(f"{q}: peer_index match not found")
    peer = {}
    default = None
    for k, v in re.findall(r"(\d+|_)\s*=>\s*(\d+)", m.group(1)):
        if k == "_":
            default = int(v)
        else:
            peer[int(k)] = int(v)
    peer_tab = [peer.get(i, default) for i in range(consts["CHUNK_NODE_NUM"])]
    if None in peer_tab:
        raise ExtractError(f"{q}: peer_index incomplete")
    if not re.search(r"\.proxy_addresses\s*\.get\(\s*peer_index\s*/\s*2\s*\)", body):
        raise ExtractError(f"{q}: peer proxy is expected at peer_index / 2")
    # limit_migration constant
    lm = fn_body(t, "limit_migration", p)
    mm = re.search(r"const\s+MAX_MIGRATING_OUT\s*:\s*usize\s*=\s*(\d+)\s*;", lm)
    if not mm:
        raise ExtractError(f"{p}: MAX_MIGRATING_OUT not found")

    def tab2(tt):
        return "[" + ", ".join("[" + ", ".join(str(x) for x in row) + "]" for row in tt) + "]"

    out = [HEADER, "namespace Um.Gen.Chunk", "",
           "/- role positions are encoded 0 = Normal, 1 = FirstChunkMaster, 2 = SecondChunkMaster -/"]
    for k, v in consts.items():
        out.append(f"def {k} : Nat := {v}  -- {p}")
    out.append(f"def MAX_MIGRATING_OUT : Nat := {mm.group(1)}  -- {p} limit_migration")
    out.append(f"/-- `chunk_part_to_proxy_index`: table[part][role] -/\ndef partToProxyIndexTab : List (List Nat) := {tab2(proxy_idx)}")
    out.append(f"/-- `chunk_part_to_node_index`: table[part][role] -/\ndef partToNodeIndexTab : List (List Nat) := {tab2(node_idx)}")
    out.append("/-- `(first_slot_index, second_slot_index)` per role -/\ndef slotIndexTab : List (Nat × Nat) := ["
               + ", ".join(f"({slot_idx[r][0]}, {slot_idx[r][1]})" for r in ROLES) + "]")
    out.append("/-- node `i` of a chunk with role position `r` is a replica: table[role][i] -/\ndef replicaTab : List (List Bool) := ["
               + ", ".join("[" + ", ".join("true" if x else "false" for x in replica[r]) + "]" for r in ROLES) + "]")
    out.append(f"/-- `peer_index` of node `i` -/\ndef peerIndexTab : List Nat := [{', '.join(str(x) for x in peer_tab)}]")
    out.append("\nend Um.Gen.Chunk\n")
    return "\n".join(out)


MODULES = {"ChunkTables": gen_chunk_tables}
