# Plugin of tools/extract.py (exec'd with its helpers in scope): generates
# lean/UmGen/BackendConsts.lean from src/proxy/backend.rs:
#   * MAX_BACKEND_RETRY (value)
#   * shape guards: the fragments of handle_conn / handle_conn_err / handle_backend that
#     lean/UmModel/BackendConn.lean transliterates must still have the shape that was read
#     (retry threshold `>=`, timeout passes Some(MAX_BACKEND_RETRY), failed connect answers the
#     retry tasks with Canceled and the queued tasks with an error reply for one second, the
#     connection-lifetime retry count of the F08b fix 0e64416, the empty-queue early return of 24d4705).


def gen_backend_consts():
    p = "src/proxy/backend.rs"
    t = src(p)
    n = const_num(t, "MAX_BACKEND_RETRY", p)
    err = fn_body(t, "handle_conn_err", p)
    if not re.search(r"retry_times_opt\.unwrap_or\(0\)", err) or \
       not re.search(r"if\s+retry_times\s*>=\s*MAX_BACKEND_RETRY", err) or \
       not re.search(r"retry_times:\s*retry_times\s*\+\s*1", err):
        raise ExtractError(f"{p}: handle_conn_err no longer has the expected shape")
    # commit 24d4705: a failure with no held task yields no retry state (first statement of the body)
    if not re.match(r"\s*if\s+tasks\.is_empty\(\)\s*\{\s*return\s+None;\s*\}\s*let\s+retry_times\s*=", err):
        raise ExtractError(f"{p}: handle_conn_err no longer starts with `if tasks.is_empty() {{ return None; }}` "
                           "(fix 24d4705 missing or reshaped): UmModel/BackendConn.lean `connErr` and "
                           "C08_idle_failure_keeps_budget depend on it")
    conn = fn_body(t, "handle_conn", p)
    if not re.search(r"handle_conn_err\(Some\(MAX_BACKEND_RETRY\),\s*failed_tasks,\s*&err\)", conn):
        raise ExtractError(f"{p}: handle_conn: the timeout path no longer passes Some(MAX_BACKEND_RETRY)")
    if conn.count("handle_conn_err(retry_times_opt, failed_tasks, &err)") != 2:
        raise ExtractError(f"{p}: handle_conn: expected two handle_conn_err(retry_times_opt, ..) calls (write, read)")
    # F08b fix (commit 0e64416): the retry count lives as long as the connection (declared before
    # poll_fn, set when the inherited RetryState is taken) and is cleared only when a reply leaves the
    # task queue empty.  Any other shape (in particular the old per-poll `let retry_times_opt = match
    # retry_state_opt.take()`) breaks the tie: UmModel/BackendConn.lean `retryTimes` and
    # C08_retry_bounded depend on it.
    pf = conn.find("poll_fn")
    decl = re.search(r"let\s+mut\s+retry_times_opt\s*:\s*Option<usize>\s*=\s*None\s*;", conn)
    if pf < 0 or not decl or decl.start() > pf:
        raise ExtractError(f"{p}: handle_conn: `let mut retry_times_opt: Option<usize> = None;` is not declared "
                           "before poll_fn (F08b fix 0e64416 missing or reshaped)")
    if re.search(r"let\s+retry_times_opt\s*=", conn):
        raise ExtractError(f"{p}: handle_conn: retry_times_opt is computed per poll again (F08b regression)")
    assigns = re.findall(r"retry_times_opt\s*=\s*([^;=]+);", conn[pf:])
    if sorted(a.strip() for a in assigns) != ["None", "Some(retry_times)"]:
        raise ExtractError(f"{p}: handle_conn: unexpected assignments to retry_times_opt: {assigns}")
    if not re.search(r"if\s+let\s+Some\(RetryState\s*\{[^}]*\}\)\s*=\s*retry_state_opt\.take\(\)", conn):
        raise ExtractError(f"{p}: handle_conn: the inherited RetryState is no longer taken with `if let`")
    m_reset = re.search(r"handler\.handle_task\(task,\s*packet_res\);\s*if\s+tasks\.is_empty\(\)\s*\{\s*"
                        r"retry_times_opt\s*=\s*None;\s*\}", conn)
    if not m_reset:
        raise ExtractError(f"{p}: handle_conn: the count is no longer cleared exactly when a reply empties `tasks`")
    if not re.search(r"if\s+!task_empty\s*&&\s*!response_received", conn):
        raise ExtractError(f"{p}: handle_conn: timeout condition changed")
    back = fn_body(t, "handle_backend", p)
    m = re.search(r"tokio::time::sleep\(Duration::from_secs\((\d+)\)\)", back)
    if not m or "set_resp_result(Err(CommandError::Canceled))" not in back:
        raise ExtractError(f"{p}: handle_backend: failed-connect branch changed")
    out = [HEADER, "namespace Um.Gen.Backend\n"]
    out.append(f"/-- `MAX_BACKEND_RETRY` — {p} -/")
    out.append(f"def MAX_BACKEND_RETRY : Nat := {n}")
    out.append(f"/-- seconds during which queued tasks are answered with an error after a failed connect — {p} -/")
    out.append(f"def CONNECT_FAIL_WAIT_SECS : Nat := {int(m.group(1))}")
    return "\n".join(out) + "\n\nend Um.Gen.Backend\n"


MODULES = {"BackendConsts": gen_backend_consts}
