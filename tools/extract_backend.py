# Plugin of tools/extract.py (exec'd with its helpers in scope): generates
# lean/UmGen/BackendConsts.lean from src/proxy/backend.rs:
#   * MAX_BACKEND_RETRY (value)
#   * shape guards: the fragments of handle_conn / handle_conn_err / handle_backend that
#     lean/UmModel/BackendConn.lean transliterates must still have the shape that was read
#     (retry threshold `>=`, timeout passes Some(MAX_BACKEND_RETRY), failed connect answers the
#     retry tasks with Canceled and the queued tasks with an error reply for one second).


def gen_backend_consts():
    p = "src/proxy/backend.rs"
    t = src(p)
    n = const_num(t, "MAX_BACKEND_RETRY", p)
    err = fn_body(t, "handle_conn_err", p)
    if not re.search(r"retry_times_opt\.unwrap_or\(0\)", err) or \
       not re.search(r"if\s+retry_times\s*>=\s*MAX_BACKEND_RETRY", err) or \
       not re.search(r"retry_times:\s*retry_times\s*\+\s*1", err):
        raise ExtractError(f"{p}: handle_conn_err no longer has the expected shape")
    conn = fn_body(t, "handle_conn", p)
    if not re.search(r"handle_conn_err\(Some\(MAX_BACKEND_RETRY\),\s*failed_tasks,\s*&err\)", conn):
        raise ExtractError(f"{p}: handle_conn: the timeout path no longer passes Some(MAX_BACKEND_RETRY)")
    if conn.count("handle_conn_err(retry_times_opt, failed_tasks, &err)") != 2:
        raise ExtractError(f"{p}: handle_conn: expected two handle_conn_err(retry_times_opt, ..) calls (write, read)")
    if not re.search(r"let\s+retry_times_opt\s*=\s*match\s+retry_state_opt\.take\(\)", conn) or \
       conn.index("let retry_times_opt") < conn.index("poll_fn"):
        raise ExtractError(f"{p}: handle_conn: retry_times_opt is no longer computed per poll from "
                           "retry_state_opt.take() (F08b fix applied?): UmModel/BackendConn.lean `retryTimes` "
                           "and C08_retry_unbounded must be updated")
    if not re.search(r"if\s+!task_empty\s*&&\s*!response_received", conn):
        raise ExtractError(f"{p}: handle_conn: timeout condition changed")
    back = fn_body(t, "handle_backend", p)
    m = re.search(r"tokio::time::sleep\(Duration::from_secs\((\d+)\)\)", back)
    if not m or "set_resp_result(Err(CommandError::Canceled))" not in back:
        raise ExtractError(f"{p}: handle_backend: failed-connect branch changed")
    out = [HEADER, "namespace Um.Gen.Backend\n"]
    out.append(f"/-- `MAX_BACKEND_RETRY` — {p} -/")
    out.append(f"def MAX_BACKEND_RETRY : Nat := {n}")
    out.append(f"/-- seconds during which queued tasks are answered with an error after a failed connect — {p} -/")
    out.append(f"def CONNECT_FAIL_WAIT_SECS : Nat := {int(m.group(1))}")
    return "\n".join(out) + "\n\nend Um.Gen.Backend\n"


MODULES = {"BackendConsts": gen_backend_consts}
