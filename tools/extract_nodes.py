"""extract.py plugin for C14: source-derived tables of CLUSTER NODES / CLUSTER SLOTS.

UmGen/NodesTable.lean (namespace Um.Gen.Nodes):
  * `migrationStates` — variants of `enum MigrationState` with their discriminants
    (src/migration/task.rs);
  * `shouldIgnoreTable` — the complete truth table of `should_ignore_slots`
    (src/proxy/cluster.rs): one row per (tag kind, looked-up state or absent).  The function must have
    the shape `match &range.tag { Migrating(_) => states.get(rl).cloned() <op> Some(MigrationState::X),
    Importing(_) => … <op> Some(MigrationState::Y), _ => <bool> }` with `<op>` ∈ {==, !=}; the rows are
    computed from `<op>`, `X`, `Y` and the default;
  * the pieces of the `format!` line of `gen_cluster_nodes_helper` (field order, constant fields,
    flags, `@cport` suffix of V2), `CLUSTER_NODES_CPORT`, the two segment widths / pad byte of
    `gen_node_id`, the error prefix and the `split(':')` separator of `gen_cluster_slots_helper`,
    and which `MigrationState` the three `UMCTL` switch sub-commands store in an importing task
    (src/migration/scan_task.rs `handle_switch`).
Any other shape is refused (ExtractError ⇒ broken tie).
"""


def _sq(s):
    return re.sub(r"\s+", " ", s).strip()


def _bytes_of(s):
    return lean_bytes(list(s.encode("utf-8")))


def gen_nodestable():
    out = [HEADER, "namespace Um.Gen.Nodes\n"]

    # --- enum MigrationState -------------------------------------------------------------
    p = "src/migration/task.rs"
    t = strip_comments(src(p))
    m = re.search(r"pub enum MigrationState\s*\{(.*?)\}", t, flags=re.S)
    if not m:
        raise ExtractError(f"{p}: enum MigrationState not found")
    variants = []
    for item in m.group(1).split(","):
        item = item.strip()
        if not item:
            continue
        mm = re.fullmatch(r"(\w+)\s*=\s*(\d+)", item)
        if not mm:
            raise ExtractError(f"{p}: MigrationState variant `{item}` is not `Name = n`")
        variants.append((mm.group(1), int(mm.group(2))))
    if [d for _, d in variants] != list(range(len(variants))):
        raise ExtractError(f"{p}: MigrationState discriminants are not 0..n-1 in order")
    names = [n for n, _ in variants]
    out.append("/-- `enum MigrationState` (variant, discriminant) -- " + p + " -/")
    out.append("def migrationStates : List (String × Nat) := ["
               + ", ".join(f"({lean_str(n)}, {d})" for n, d in variants) + "]")

    # --- should_ignore_slots ---------------------------------------------------------------
    p = "src/proxy/cluster.rs"
    t = src(p)
    b = _sq(fn_body(t, "should_ignore_slots", p))
    m = re.fullmatch(
        r"match &range\.tag \{ "
        r"SlotRangeTag::Migrating\(_\) => \{ migration_states\.get\(range\.get_range_list\(\)\)\.cloned\(\) (==|!=) Some\(MigrationState::(\w+)\) \} "
        r"SlotRangeTag::Importing\(_\) => \{ migration_states\.get\(range\.get_range_list\(\)\)\.cloned\(\) (==|!=) Some\(MigrationState::(\w+)\) \} "
        r"_ => (true|false), \}", b)
    if not m:
        raise ExtractError(f"{p}: should_ignore_slots does not have the expected three-arm shape: {b[:200]}")
    mop, mst, iop, ist, dflt = m.groups()
    for s in (mst, ist):
        if s not in names:
            raise ExtractError(f"{p}: should_ignore_slots compares with unknown state {s}")
    rows = []

    def ev(op, cmp_state, st):
        eq = (st == cmp_state)  # st None = absent key: `None == Some(_)` is false
        return eq if op == "==" else (not eq)

    for tag, op, cs in (("Migrating", mop, mst), ("Importing", iop, ist)):
        for st in [None] + names:
            rows.append((tag, st, ev(op, cs, st)))
    for st in [None] + names:
        rows.append(("None", st, dflt == "true"))
    out.append("/-- truth table of `should_ignore_slots`: (tag kind, state found under the range list or `none`, ignored?) -- " + p + " -/")
    out.append("def shouldIgnoreTable : List (String × Option String × Bool) := [")
    out.append(",\n".join(
        "  (%s, %s, %s)" % (lean_str(tag), "none" if st is None else f"some {lean_str(st)}", "true" if r else "false")
        for tag, st, r in rows))
    out.append("]")

    # --- gen_cluster_nodes_helper ------------------------------------------------------------
    out.append(f"def CLUSTER_NODES_CPORT : Nat := {const_num(t, 'CLUSTER_NODES_CPORT', p)}  -- {p}")
    b = _sq(fn_body(t, "gen_cluster_nodes_helper", p))
    if not re.search(r"ClusterNodesVersion::V1 => addr\.clone\(\), ClusterNodesVersion::V2 => format!\(\"\{\}@\{\}\", addr, CLUSTER_NODES_CPORT\),", b):
        raise ExtractError(f"{p}: gen_cluster_nodes_helper: V1/V2 address arms not recognised")
    m = re.search(r'let flags = if local \{ "([^"]*)" \} else \{ "([^"]*)" \};', b)
    if not m:
        raise ExtractError(f"{p}: gen_cluster_nodes_helper: flags not recognised")
    out.append(f"def flagsLocal : List UInt8 := {_bytes_of(m.group(1))}  -- {lean_str(m.group(1))}")
    out.append(f"def flagsPeer : List UInt8 := {_bytes_of(m.group(2))}  -- {lean_str(m.group(2))}")
    m = re.search(r'let line = format!\( "([^"]*)", (.*?), \);', b)
    if not m:
        raise ExtractError(f"{p}: gen_cluster_nodes_helper: format! line not recognised")
    fmt, argtxt = m.group(1), m.group(2)
    if fmt != "{id} {address} {flags} {master} {ping_sent} {pong_recv} {epoch} {link_state}{slot_range}\\n":
        raise ExtractError(f"{p}: gen_cluster_nodes_helper: unexpected line format {fmt!r}")
    args = dict(re.findall(r'(\w+)\s*=\s*("[^"]*"|\w+)', argtxt))
    want = {"id": "id", "address": "address", "flags": "flags", "epoch": "epoch", "slot_range": "slot_range_str"}
    for k, v in want.items():
        if args.get(k) != v:
            raise ExtractError(f"{p}: gen_cluster_nodes_helper: format argument {k} is {args.get(k)!r}, expected {v}")
    consts = {}
    for k in ("master", "ping_sent", "pong_recv", "link_state"):
        v = args.get(k)
        if v is None:
            raise ExtractError(f"{p}: gen_cluster_nodes_helper: format argument {k} missing")
        consts[k] = v.strip('"')
    out.append(f"def fieldMaster : List UInt8 := {_bytes_of(consts['master'])}  -- {lean_str(consts['master'])}")
    out.append(f"def fieldPingSent : List UInt8 := {_bytes_of(consts['ping_sent'])}")
    out.append(f"def fieldPongRecv : List UInt8 := {_bytes_of(consts['pong_recv'])}")
    out.append(f"def fieldLinkState : List UInt8 := {_bytes_of(consts['link_state'])}  -- {lean_str(consts['link_state'])}")
    if not re.search(r'if range\.start\(\) == range\.end\(\) \{ range\.start\(\)\.to_string\(\) \} else \{ format!\("\{\}-\{\}", range\.start\(\), range\.end\(\)\) \}', b):
        raise ExtractError(f"{p}: gen_cluster_nodes_helper: range token shape not recognised")
    if not re.search(r'\.join\(" "\); if !slot_range\.is_empty\(\) \{ slot_range_str\.push\(\' \'\); slot_range_str\.push_str\(&slot_range\); \}', b):
        raise ExtractError(f"{p}: gen_cluster_nodes_helper: slot_range_str shape not recognised")

    # --- gen_node_id ---------------------------------------------------------------------------
    b = _sq(fn_body(t, "gen_node_id", p))
    m = re.fullmatch(
        r'let mut name_seg = format!\("\{:(.)<(\d+)\}", cluster_name\.to_string\(\)\); name_seg\.truncate\((\d+)\); '
        r'let mut addr_hash_seg = format!\("\{:(.)<(\d+)x\}", crc64\(0, addr\.as_bytes\(\)\)\); addr_hash_seg\.truncate\((\d+)\); '
        r'format!\("\{\}\{\}", name_seg, addr_hash_seg\)', b)
    if not m:
        raise ExtractError(f"{p}: gen_node_id shape not recognised: {b[:200]}")
    c1, w1, t1, c2, w2, t2 = m.groups()
    if w1 != t1 or w2 != t2 or c1 != c2:
        raise ExtractError(f"{p}: gen_node_id: pad width / truncate width / pad char differ")
    out.append(f"def nodeIdNameWidth : Nat := {w1}  -- {p} gen_node_id")
    out.append(f"def nodeIdHashWidth : Nat := {w2}")
    out.append(f"def nodeIdPad : UInt8 := {ord(c1)}  -- '{c1}'")

    # --- gen_cluster_slots_helper -----------------------------------------------------------------
    b = _sq(fn_body(t, "gen_cluster_slots_helper", p))
    if not re.search(r"let mut segs = addr\.split\(':'\); let host = segs \.next\(\) \.ok_or_else\(\|\| format!\(\"invalid address \{\}\", addr\)\)\?; "
                     r"let port = segs \.next\(\) \.ok_or_else\(\|\| format!\(\"invalid address \{\}\", addr\)\)\?;", b):
        raise ExtractError(f"{p}: gen_cluster_slots_helper: host/port split not recognised")
    out.append(f"def slotsInvalidAddressPrefix : List UInt8 := {_bytes_of('invalid address ')}  -- {p} gen_cluster_slots_helper")
    if not re.search(r"Resp::Bulk\(BulkStr::Str\(host\.as_bytes\(\)\.to_vec\(\)\)\), Resp::Integer\(port\.as_bytes\(\)\.to_vec\(\)\), "
                     r"Resp::Bulk\(BulkStr::Str\(node_id\.into_bytes\(\)\)\),", b):
        raise ExtractError(f"{p}: gen_cluster_slots_helper: ip_port_array shape not recognised")
    if not re.search(r"Resp::Integer\(range\.start\(\)\.to_string\(\)\.into_bytes\(\)\), Resp::Integer\(range\.end\(\)\.to_string\(\)\.into_bytes\(\)\),", b):
        raise ExtractError(f"{p}: gen_cluster_slots_helper: start/end shape not recognised")

    # --- importing task: state stored by the switch sub-commands -----------------------------------
    p = "src/migration/scan_task.rs"
    t = src(p)
    i = t.find("impl<RCF, TSF, DTSF, PTSF, CTF> ImportingTask for RedisScanImportingTask")
    if i < 0:
        raise ExtractError(f"{p}: impl ImportingTask for RedisScanImportingTask not found")
    b = _sq(fn_body(t[i:], "handle_switch", p))
    arms = re.findall(r"MgrSubCmd::(\w+) => self\.state\.set_state\(MigrationState::(\w+)\)", b)
    if [a for a, _ in arms] != ["PreCheck", "PreSwitch", "FinalSwitch"]:
        raise ExtractError(f"{p}: ImportingTask::handle_switch arms not recognised: {arms}")
    for _, s in arms:
        if s not in names:
            raise ExtractError(f"{p}: handle_switch stores unknown state {s}")
    out.append("/-- state an importing task stores on `UMCTL PRECHECK / PRESWITCH / FINALSWITCH` -- " + p + " -/")
    out.append("def importingSwitchStates : List (String × String) := ["
               + ", ".join(f"({lean_str(a)}, {lean_str(s)})" for a, s in arms) + "]")
    return "\n".join(out) + "\n\nend Um.Gen.Nodes\n"


MODULES = {"NodesTable": gen_nodestable}
