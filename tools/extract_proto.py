"""Extractor plugin for C17 (wire encodings): UmGen/ProtoConsts.lean.

Everything the C17 theorems depend on *by value*: the section/tag words, the API version,
the cluster-name limit and alphabet, the config field names / defaults / value words, the
flag words, the role words, and the *shape* of the element filter at the head of
`ProxyClusterMeta::from_resp` and `parse_repl_meta` (drop vs reject; finding F8).
Fails loudly (ExtractError) when a fragment no longer has the expected shape.
"""


def _str_match_arms(body, path, what):
    """`"lit" => ...` arms of a match inside `body` -> list of literals in order"""
    arms = re.findall(r'"([^"\\]*)"\s*=>', body)
    if not arms:
        raise ExtractError(f"{path}: {what}: no string match arms found")
    return arms


def _arith(expr, path, what):
    e = expr.replace("_", "").strip()
    if not re.fullmatch(r"[0-9*+\s()]+", e):
        raise ExtractError(f"{path}: {what}: unsupported constant expression {expr!r}")
    return int(eval(e, {"__builtins__": {}}, {}))


def _resp_filter_shape(body, path, what):
    """'drop' when the argument elements go through the `flat_map(... => None)` filter that
    silently discards non-bulk / non-UTF-8 elements; 'strict' when every such element makes the
    function return an error before the iterator is built."""
    has_flat = re.search(r"\.skip\(2\)\s*\.flat_map\(", body) is not None
    has_reject = re.search(r"for\s+\w+\s+in\s+arr\.iter\(\)\.skip\(2\)", body) is not None and \
        len(re.findall(r"return\s+Err\(CmdParseError::InvalidArgs\)", body)) >= 3
    if has_flat and not has_reject:
        return "drop"
    if has_reject and not has_flat:
        return "strict"
    raise ExtractError(f"{path}: {what}: element filter has neither the flat_map (drop) nor the "
                       f"for/return Err (strict) shape")


def gen_proto_consts():
    out = [HEADER, "namespace Um.Gen.Proto\n"]

    def bs(name, s, path):
        out.append(f"def {name} : List UInt8 := {lean_bytes(list(s.encode('utf-8')))}  -- {lean_str(s)} {path}")

    p = "src/common/utils.rs"
    t = src(p)
    bs("MIGRATING_TAG", const_str(t, "MIGRATING_TAG", p), p)
    bs("IMPORTING_TAG", const_str(t, "IMPORTING_TAG", p), p)

    p = "src/common/proto.rs"
    t = src(p)
    bs("PEER_PREFIX", const_str(t, "PEER_PREFIX", p), p)
    bs("CONFIG_PREFIX", const_str(t, "CONFIG_PREFIX", p), p)
    bs("SET_CLUSTER_API_VERSION", const_str(t, "SET_CLUSTER_API_VERSION", p), p)
    b = fn_body(t, "to_arg", p)
    pushed = re.findall(r'flags\.push\("([A-Z]+)"\)', b)
    noflag = re.search(r'"([A-Z]+)"\.to_string\(\)', b)
    if pushed != ["FORCE", "COMPRESS"] or not noflag:
        raise ExtractError(f"{p}: ClusterMapFlags::to_arg: unexpected shape {pushed}")
    bs("FLAG_FORCE", pushed[0], p)
    bs("FLAG_COMPRESS", pushed[1], p)
    bs("FLAG_NONE", noflag.group(1), p)
    b = fn_body(t, "from_arg", p)
    got = re.findall(r"has_flags\(flags_str,\s*'(.)',\s*\"([A-Z]+)\"\)", b)
    if got != [(",", "FORCE"), (",", "COMPRESS")]:
        raise ExtractError(f"{p}: ClusterMapFlags::from_arg: unexpected shape {got}")
    # compressed branch of ProxyClusterMeta::parse: both node maps are normalised (fix 23e5d8f)
    b = fn_body(t, "parse", p)
    if "from_compressed_data" not in b:
        raise ExtractError(f"{p}: the first fn parse is not ProxyClusterMeta::parse")
    loop = re.search(r"for\s+node_map\s+in\s+\[&mut local\.0,\s*&mut peer\.0\]\s*\{\s*for\s+slot_ranges\s+in\s+node_map\.values_mut\(\)\s*\{"
                     r"\s*for\s+slot_range\s+in\s+slot_ranges\.iter_mut\(\)\s*\{\s*slot_range\.get_mut_range_list\(\)\.compact\(\);", b)
    if not loop or b.index("from_compressed_data") > loop.start():
        raise ExtractError(f"{p}: ProxyClusterMeta::parse: the compressed branch does not compact the range lists of local and peer "
                           f"(expected the normalisation loop after from_compressed_data)")
    if len(re.findall(r"\.compact\(\)", b)) != 1:
        raise ExtractError(f"{p}: ProxyClusterMeta::parse: expected exactly one compact() call (the normalisation loop)")
    out.append(f"def compressedBranchCompacts : Bool := true  -- {p} parse: local and peer range lists compacted after from_compressed_data")
    shape = _resp_filter_shape(fn_body(t, "from_resp", p), p, "ProxyClusterMeta::from_resp")
    out.append(f"def fromRespStrict : Bool := {'true' if shape == 'strict' else 'false'}  -- {p} from_resp element filter: {shape}")

    p = "src/replication/replicator.rs"
    t = src(p)
    b = fn_body(t, "parse_repl_meta", p)
    shape = _resp_filter_shape(b, p, "parse_repl_meta")
    out.append(f"def replFromRespStrict : Bool := {'true' if shape == 'strict' else 'false'}  -- {p} parse_repl_meta element filter: {shape}")
    roles = re.findall(r'role\.to_uppercase\(\)\s*==\s*"([A-Z]+)"', b)
    if roles != ["MASTER", "REPLICA"]:
        raise ExtractError(f"{p}: parse_repl_meta: role words {roles}")
    bs("ROLE_MASTER_UPPER", roles[0], p)
    bs("ROLE_REPLICA_UPPER", roles[1], p)
    b = fn_body(t, "encode_repl_meta", p)
    enc = re.findall(r'args\.push\("([a-z]+)"\.to_string\(\)\)', b)
    if enc != ["master", "replica"]:
        raise ExtractError(f"{p}: encode_repl_meta: role words {enc}")
    bs("ROLE_MASTER_ENC", enc[0], p)
    bs("ROLE_REPLICA_ENC", enc[1], p)

    p = "src/common/cluster.rs"
    t = src(p)
    out.append(f"def CLUSTER_NAME_MAX_LENGTH : Nat := {const_num(t, 'CLUSTER_NAME_MAX_LENGTH', p)}  -- {p}")
    m = re.search(r"impl TryFrom<&str> for ClusterName\s*\{.*?fn try_from.*?\{(.*?)\n    \}", t, flags=re.S)
    if not m:
        raise ExtractError(f"{p}: ClusterName::try_from not found")
    b = strip_comments(m.group(1))
    extra = re.findall(r"c == '(.)'", b)
    if "is_ascii_alphanumeric()" not in b or not extra:
        raise ExtractError(f"{p}: ClusterName::try_from: alphabet test has an unexpected shape")
    out.append(f"def CLUSTER_NAME_EXTRA : List UInt8 := {lean_bytes([ord(c) for c in extra])}  -- besides ASCII alphanumerics: {' '.join(extra)} {p}")

    p = "src/common/config.rs"
    t = src(p)
    b = fn_body(t, "to_str_map", p)
    names = re.findall(r'\(\s*"([a-z_]+)",', b)
    want = ["compression_strategy", "migration_max_migration_time", "migration_max_blocking_time",
            "migration_scan_interval", "migration_scan_count"]
    if names != want:
        raise ExtractError(f"{p}: to_str_map: fields {names}")
    for i, n in enumerate(["CFG_COMPRESSION", "CFG_MAX_MIGRATION_TIME", "CFG_MAX_BLOCKING_TIME",
                           "CFG_SCAN_INTERVAL", "CFG_SCAN_COUNT"]):
        bs(n, names[i], p)
    # ClusterConfig::set_field: first arm literal + the migration_ prefix
    i0 = t.index("impl ClusterConfig")
    b = fn_body(t[i0:], "set_field", p)
    arms = _str_match_arms(b, p, "ClusterConfig::set_field")
    pref = re.search(r'starts_with\("([a-z_]+)"\)', b)
    if arms != ["compression_strategy"] or not pref or "split_once('_')" not in b:
        raise ExtractError(f"{p}: ClusterConfig::set_field: unexpected shape {arms}")
    bs("CFG_MIGRATION_PREFIX", pref.group(1), p)
    i1 = t.index("impl MigrationConfig")
    b = fn_body(t[i1:], "set_field", p)
    arms = _str_match_arms(b, p, "MigrationConfig::set_field")
    if arms != ["max_migration_time", "max_blocking_time", "scan_interval", "scan_count"]:
        raise ExtractError(f"{p}: MigrationConfig::set_field: arms {arms}")
    if len(re.findall(r"if v == 0", b)) != 1 or b.index("if v == 0") < b.index('"scan_count"'):
        raise ExtractError(f"{p}: MigrationConfig::set_field: the zero test is not (only) on scan_count")
    for n, a in zip(["MIG_MAX_MIGRATION_TIME", "MIG_MAX_BLOCKING_TIME", "MIG_SCAN_INTERVAL", "MIG_SCAN_COUNT"], arms):
        bs(n, a, p)
    i2 = t.index("impl FromStr for CompressionStrategy")
    b = fn_body(t[i2:], "from_str", p)
    arms = _str_match_arms(b, p, "CompressionStrategy::from_str")
    i3 = t.index("impl CompressionStrategy")
    b2 = fn_body(t[i3:], "to_str", p)
    outs = re.findall(r'=>\s*"([a-z_]+)"', b2)
    if arms != ["disabled", "set_get_only", "allow_all"] or outs != arms:
        raise ExtractError(f"{p}: CompressionStrategy words {arms} / {outs}")
    for n, a in zip(["COMP_DISABLED", "COMP_SET_GET_ONLY", "COMP_ALLOW_ALL"], arms):
        bs(n, a, p)
    i4 = t.index("impl Default for MigrationConfig")
    b = fn_body(t[i4:], "default", p)
    for n, f in [("DEFAULT_MAX_MIGRATION_TIME", "max_migration_time"), ("DEFAULT_MAX_BLOCKING_TIME", "max_blocking_time"),
                 ("DEFAULT_SCAN_INTERVAL", "scan_interval"), ("DEFAULT_SCAN_COUNT", "scan_count")]:
        m = re.search(f + r"\s*:\s*([0-9_*+\s()]+),", b)
        if not m:
            raise ExtractError(f"{p}: MigrationConfig::default: {f}")
        out.append(f"def {n} : Nat := {_arith(m.group(1), p, f)}  -- {p}")
    i5 = t.index("impl Default for CompressionStrategy")
    b = fn_body(t[i5:], "default", p)
    if "CompressionStrategy::Disabled" not in b:
        raise ExtractError(f"{p}: CompressionStrategy::default is not Disabled")

    p = "src/common/version.rs"
    t = src(p)
    bs("UNDERMOON_MIGRATION_VERSION", const_str(t, "UNDERMOON_MIGRATION_VERSION", p), p)
    return "\n".join(out) + "\n\nend Um.Gen.Proto\n"


MODULES = {"ProtoConsts": gen_proto_consts}
