#!/bin/sh
# One-time build of the framework from files on disk (offline).
set -e
cd "$(dirname "$0")/.."
export CARGO_NET_OFFLINE=true
python3 tools/mkmain.py
python3 tools/extract.py || true
(cd lean && lake build)
(cd harness && cargo build --release --offline --bins)
echo setup-ok
