#!/bin/sh
# One-time build of the framework from files on disk (offline). A theorem module that does not
# build is reported by that property's own check (tools/vcheck), not here: setup only fails
# when the shared machinery (driver, harness) cannot be built.
cd "$(dirname "$0")/.."
export CARGO_NET_OFFLINE=true
python3 tools/mkmain.py
python3 tools/extract.py || echo "setup: extractor reported failures (the affected checks will report them)"
(cd lean && lake build) || echo "setup: some Lean modules failed to build (the affected checks will report them)"
(cd lean && lake build umdriver) || { echo "setup: driver build failed"; exit 1; }
(cd harness && cargo build --release --offline --bins) || { echo "setup: harness build failed"; exit 1; }
(cd harness && RUSTFLAGS="--cfg undermoon_verif --check-cfg cfg(undermoon_verif) -Awarnings" CARGO_PROFILE_RELEASE_LTO=false CARGO_PROFILE_RELEASE_DEBUG=false CARGO_PROFILE_RELEASE_CODEGEN_UNITS=16 CARGO_PROFILE_RELEASE_OPT_LEVEL=2 cargo build --release --offline --manifest-path /repo/Cargo.toml --bin server_proxy --target-dir /verif/.build/target-repo) || echo "setup: server_proxy (child process of the C16 check) did not build; tools/vcheck C16 will retry and report it"
echo setup-ok
