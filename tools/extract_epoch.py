# Plugin of extract.py: the arithmetic of the epoch-recovery call chain and the guards of
# MetaStore::restore (src/broker/{service,storage,external,store}.rs).  C13 depends on these by value.


def _inc(expr, var, where):
    """`var + N` or `var` -> N"""
    e = expr.strip()
    if e == var:
        return 0
    m = re.fullmatch(re.escape(var) + r"\s*\+\s*(\d+)", e)
    if not m:
        raise ExtractError(f"{where}: argument {expr!r} is not `{var} + <literal>`")
    return int(m.group(1))


def _impl_fn_body(text, impl_pat, name, path):
    """body of `fn name` inside the first impl block whose header matches impl_pat"""
    m = re.search(impl_pat, text)
    if not m:
        raise ExtractError(f"{path}: impl {impl_pat!r} not found")
    return fn_body(text[m.end():], name, path)


def gen_epoch_recovery():
    out = [HEADER, "namespace Um.Gen.EpochRecovery", ""]
    # MemBrokerService::recover_epoch: self.storage.recover_epoch(max_epoch + 1)
    p = "src/broker/service.rs"
    body = _impl_fn_body(src(p), r"impl\s+MemBrokerService\s*\{", "recover_epoch", p)
    m = re.search(r"self\s*\.\s*storage\s*\.\s*recover_epoch\(([^)]*)\)", body)
    if not m or "fetch_max_epoch" not in body or not re.search(r"max_epoch\s*,", body):
        raise ExtractError(f"{p}: MemBrokerService::recover_epoch: call chain not recognised")
    service_inc = _inc(m.group(1), "max_epoch", p)
    # MemoryStorage::recover_epoch: self.store.write().recover_epoch(exsting_largest_epoch + 1)
    p = "src/broker/storage.rs"
    body = _impl_fn_body(src(p), r"impl\s+MetaStorage\s+for\s+MemoryStorage\s*\{", "recover_epoch", p)
    m = re.search(r"\.\s*recover_epoch\(([^)]*)\)", body)
    if not m:
        raise ExtractError(f"{p}: MemoryStorage::recover_epoch: store call not found")
    storage_inc = _inc(m.group(1), "exsting_largest_epoch", p)
    # the external-storage variant must add the same amount
    p2 = "src/broker/external.rs"
    body = fn_body(src(p2)[src(p2).index("async fn recover_epoch"):], "recover_epoch", p2)
    m = re.search(r"store\s*\.\s*recover_epoch\(([^)]*)\)", body)
    if not m:
        raise ExtractError(f"{p2}: recover_epoch: store call not found")
    ext_inc = _inc(m.group(1), "exsting_largest_epoch", p2)
    # MetaStore::recover_epoch: max(exsting_largest_epoch, self.global_epoch + 1), applied to all clusters
    p3 = "src/broker/store.rs"
    t3 = src(p3)
    body = _impl_fn_body(t3, r"impl\s+MetaStore\s*\{", "recover_epoch", p3)
    m = re.search(r"let\s+new_epoch\s*=\s*max\(\s*exsting_largest_epoch\s*,\s*self\.global_epoch\s*\+\s*(\d+)\s*\)\s*;", body)
    if not m or not re.search(r"self\.global_epoch\s*=\s*new_epoch\s*;", body) \
            or not re.search(r"for\s+cluster\s+in\s+self\.clusters\.values_mut\(\)\s*\{\s*cluster\.epoch\s*=\s*new_epoch\s*;\s*\}", body):
        raise ExtractError(f"{p3}: MetaStore::recover_epoch: shape not recognised")
    store_inc = int(m.group(1))
    # MetaStore::restore: version guard then epoch guard then `*self = other`
    body = _impl_fn_body(t3, r"impl\s+MetaStore\s*\{", "restore", p3)
    m = re.fullmatch(
        r"\s*if\s+self\.version\s*!=\s*other\.version\s*\{\s*return\s+Err\(MetaStoreError::InvalidMetaVersion\)\s*;\s*\}"
        r"\s*if\s+self\.global_epoch\s*(>=|>)\s*other\.global_epoch\s*\{\s*return\s+Err\(MetaStoreError::SmallEpoch\)\s*;\s*\}"
        r"\s*\*self\s*=\s*other\s*;\s*Ok\(\(\)\)\s*", body)
    if not m:
        raise ExtractError(f"{p3}: MetaStore::restore: guards not recognised")
    rejects_equal = m.group(1) == ">="
    out.append(f"/-- `self.storage.recover_epoch(max_epoch + N)` in MemBrokerService::recover_epoch -/")
    out.append(f"def SERVICE_INC : Nat := {service_inc}  -- src/broker/service.rs")
    out.append(f"/-- `recover_epoch(exsting_largest_epoch + N)` in MemoryStorage::recover_epoch -/")
    out.append(f"def STORAGE_INC : Nat := {storage_inc}  -- src/broker/storage.rs")
    out.append(f"/-- the same in the external-storage implementation -/")
    out.append(f"def EXTERNAL_STORAGE_INC : Nat := {ext_inc}  -- src/broker/external.rs")
    out.append(f"/-- `max(exsting_largest_epoch, self.global_epoch + N)` in MetaStore::recover_epoch -/")
    out.append(f"def STORE_GLOBAL_INC : Nat := {store_inc}  -- src/broker/store.rs")
    out.append(f"/-- MetaStore::restore rejects an equal global epoch (`>=`) or only a smaller one (`>`) -/")
    out.append(f"def RESTORE_REJECTS_EQUAL : Bool := {'true' if rejects_equal else 'false'}  -- src/broker/store.rs")
    out.append("\nend Um.Gen.EpochRecovery\n")
    return "\n".join(out)


MODULES = {"EpochRecovery": gen_epoch_recovery}
