#!/usr/bin/env python3
"""write the task text for a seeded-change sub-agent: only the property text, its scratch
worktree and the ideas already used (never anything from /verif).
usage: mk_mut_prompt.py C13 c13b "hint text" -> /tmp/mut/prompt_c13b.txt"""
import json, sys, glob, os
pid, name, hint = sys.argv[1], sys.argv[2], (sys.argv[3] if len(sys.argv) > 3 else "")
p = next(json.loads(l) for l in open('/verif/properties.jsonl') if json.loads(l)['id'] == pid)
prev = []
for m in sorted(glob.glob(f'/verif/seeded/{pid}-*/meta.json')):
    prev.append(json.load(open(m))['summary'])
os.makedirs('/tmp/mut', exist_ok=True)
head = f"""You are helping to evaluate verification tooling by writing *seeded defects* for a Rust project.

You have your own scratch git worktree of the project doyoubi/undermoon (a Redis Cluster proxy system: RESP proxy with slot routing and live slot migration, an in-memory metadata broker, a coordinator) at /tmp/mut/{name}. Work ONLY inside that directory (and /tmp for scratch files you create yourself). Do not read or touch /verif or /repo or any other directory: what you write must be independent of any existing verification machinery. There is no network. A warm build cache is in /tmp/mut/{name}/target; build and test with `cd /tmp/mut/{name} && CARGO_NET_OFFLINE=true cargo test --workspace --no-fail-fast --offline` (the 146 existing tests must all still pass; a full run takes a few minutes; use `cargo test --offline <filter>` while iterating).

Here is a semantic property of the system that should hold for every input/history/schedule:

{p['title']}

{p['statement']}

Quantified over: {p['quantifier']['text']}

Code the property is anchored in: {', '.join(p['anchors'].get('files', []))}

Earlier seeded changes for this property (do NOT repeat these ideas):
""" + "\n".join(f"({i+1}) {s}" for i, s in enumerate(prev)) + f"""
{hint}

Task: produce TWO different, independent changes to the source (two separate patches, each applied to the unmodified worktree) that each BREAK this property while the code still compiles and ALL existing tests still pass. Prefer realistic regressions a maintainer could plausibly introduce in a refactoring or "optimisation" (off-by-one, wrong branch order, dropped guard, reused variable, changed comparison, missing case, wrong index table entry, state updated in the wrong order…). Each change must need something SPECIFIC to manifest — a particular multi-step sequence of operations, an unusual input, a particular interleaving, a crash/fault at a particular point, or two cooperating sites that each look fine alone — not something ordinary use would expose at once. Keep each change small (a few lines). Do not touch code under `#[cfg(undermoon_verif)]` guards or the files src/verif_hook.rs / verif_export (test-only instrumentation that is compiled out).

For each change deliver, under /tmp/mut/deliver-{name}/<k>/ (k = 1, 2):
- `patch.diff` — `git diff` of the change against the unmodified worktree (source files under src/ only);
- a demonstration: a Rust test file or small program (e.g. a new `#[test]` in a separate file `demo_test.rs` with instructions how to drop it in, or a patch `demo.diff` adding a test) that FAILS with the change applied and PASSES without it — run it both ways and record the outputs;
- `README.md` — which clause of the property breaks, what exactly is needed for it to manifest, the commands you ran and their results (including the full existing test suite passing with the change).
Leave the worktree itself clean (no patch applied) when you finish: `git -C /tmp/mut/{name} status` must show no modifications to tracked files (untracked demo files are fine to remove too).
Finish with a short report listing the two changes in one paragraph each.
"""
open(f'/tmp/mut/prompt_{name}.txt', 'w').write(head)
print(f'/tmp/mut/prompt_{name}.txt')
