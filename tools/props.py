"""Per-property configuration: loads tools/props.d/Cxx.py (each defines PROP and CHECK)."""
import os

PROPS, CHECKS = {}, {}
_d = os.path.join(os.path.dirname(os.path.abspath(__file__)), "props.d")
for _fn in sorted(os.listdir(_d)):
    if _fn.endswith(".py"):
        _ns = {}
        with open(os.path.join(_d, _fn)) as _f:
            exec(compile(_f.read(), _fn, "exec"), _ns)
        _pid = _fn[:-3]
        PROPS[_pid] = _ns["PROP"]
        CHECKS[_pid] = _ns["CHECK"]
