"""Per-property configuration of vcheck: theorem module, correspondence streams, notes."""

PROPS = {
    "C19": {
        "module": "UmProps.C19",
        "gen_modules": ["Consts"],
        "streams": [{"name": "ttl", "harness": "umh_ttl", "driver": "ttl"}],
        "assumptions": [
            "Redis PTTL replies are canonical decimal i64 (-2 missing, -1 persistent, n>=0 ms left); RESTORE reads ttl 0 as 'no expiry'",
            "btoi 0.4.2 grammar as transliterated in UmModel/Bytes.lean (differentially checked on every run)",
        ],
        "gaps": [],
    },
}
