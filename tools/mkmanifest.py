#!/usr/bin/env python3
"""Regenerates MANIFEST.json from tools/props.py + tools/manifest_text.py (keeps it valid)."""
import json, os, sys
ROOT = os.path.dirname(os.path.dirname(os.path.abspath(__file__)))
sys.path.insert(0, os.path.join(ROOT, "tools"))
import props, manifest_text as T

ids = [json.loads(l)["id"] for l in open(os.path.join(ROOT, "properties.jsonl"))]
checks, na = [], []
for pid in ids:
    if pid in props.PROPS:
        c = props.CHECKS[pid]
        checks.append({
            "property_id": pid,
            "quick_cmd": f"tools/vcheck {pid} --tier quick",
            "thorough_cmd": f"tools/vcheck {pid} --tier thorough",
            "evidence_file": f"/verif/evidence/{pid}.json",
            "replay_cmd_template": f"tools/vcheck {pid} --replay {{path}}",
            "engine": "lean4-proof+correspondence",
            "level_claimed": {"category": "proof", "text": c["text"], "design_ref": c["design_ref"]},
            "level_note": c["note"],
            "technique": c["technique"],
        })
    else:
        na.append({"property_id": pid, "reason": T.NOT_CLAIMED.get(pid, "check not built yet (work in progress; see DESIGN.md §6 for the plan)")})
m = {
    "version": 1,
    "setup_cmd": "tools/setup.sh",
    "hooks": {
        "guard": "--cfg undermoon_verif",
        "enable": "RUSTFLAGS='--cfg undermoon_verif' via /verif/harness/.cargo/config.toml (the harness crate depends on /repo by path)",
        "baseline_off_cmd": "cd /repo && cargo test --workspace --no-fail-fast --offline",
        "source_commits": T.HOOK_COMMITS,
        "add_only": True,
    },
    "engines": [{
        "name": "lean4-proof+correspondence", "path": "/verif/tools/vcheck",
        "serves_properties": [c["property_id"] for c in checks],
        "kind_free_text": "Lean 4 theorems about hand-written executable models (lean/UmModel, lean/UmProps) + generated tables (tools/extract.py -> lean/UmGen) + differential correspondence of the compiled Lean driver against the real Rust code (harness/)",
    }],
    "checks": checks,
    "notes": T.NOTES,
    "not_applicable": na,
}
json.dump(m, open(os.path.join(ROOT, "MANIFEST.json"), "w"), indent=1, ensure_ascii=False)
print(f"claimed={len(checks)} not_claimed={len(na)}")
