"""C02 — vcheck configuration (PROP) and MANIFEST claim (CHECK)."""
PROP = {'module': 'UmProps.C02',
 'gen_modules': ['Consts', 'CmdTables', 'ChunkTables', 'ProtoConsts'],
 'streams': [{'name': 'route',
              'harness': 'umh_route',
              'driver': 'route',
              'timeout': {'quick': 600, 'thorough': 3000}}],
 'assumptions': ['long-lived proxies: within a case the same real MetaManagers receive every SETCLUSTER of the '
                 'broker history (epoch-increasing: balance_masters during a migration at every gate level, commit '
                 'of one of two concurrent migrations while the other runs, failover during a migration with the '
                 'failed process killed, commit rounds); after every re-sync one key per slot class (both ends of '
                 'every range of the view) is routed from every proxy. Model side: C02_install_last_only / '
                 'C02_install_seq_last_only / C02_route_last_only — the installed routing state is a function of the '
                 'last accepted metadata, only the phases of tasks with an unchanged key carry over',
                 'C02_stable_reachable / C02_migrating_reachable / C02_no_third_node_reachable: every operation list '
                 "whose prefixes satisfy C01's size bound PlanBound (<= 16384 masters per cluster), every cluster "
                 'found by name, every migration limit; SyncedWith = every proxy address of the stored cluster is '
                 'reachable and has Installed a meta WireFaithful to encodeFor of what proxyView '
                 '(get_proxy_by_address) serves for it. ViewOk is derived: PartitionView from C01 (cinv_run, '
                 'limitMigration_spec, partitionView_viewP), one peer entry per proxy and proxy-address uniqueness '
                 'from C12_accounting (ResInv) + proxy_peers_nodup, compacted pending ranges below 16384 from '
                 'SlotInv + PartitionView, distinct node addresses per proxy from C02_nodes_distinct_reachable '
                 '(every registered proxy of every reachable store has node0 != node1: add_proxy refuses equal node '
                 'addresses since /repo bf43b2d, the fix of F02a, and is the only operation that registers a proxy; '
                 "proved over all Ops in UmProofs/RouteE2ENodes.lean with C12's outcome characterisations). Explicit "
                 'hypotheses that are not broker invariants: name != "" (ClusterName::try_from("") succeeds at the '
                 'store API; validName name only ties v to the query) and, for a slot under migration, srcProxy != '
                 'dstProxy (no store invariant says that a migration connects halves on different proxies)',
                 'ViewOk v (view-level theorems C02_stable / C02_migrating / C02_no_third_node): a C01 PartitionView '
                 'with a non-empty cluster name, pairwise distinct addresses of the master nodes placed on one '
                 'proxy, one peer entry per proxy, pending range lists in compact normal form below 16384; all but '
                 'the non-empty name are discharged for reachable broker states in the *_reachable forms; the worked '
                 'example exView satisfies it (exViewOk)',
                 'Synced: every proxy hosting a node of the view is reachable under its address and has Installed a '
                 'meta that is WireFaithful to encodeFor of its own current view; WireFaithful is discharged from '
                 'C17 by C02_wire_plain (under WfMeta of the emitted meta) and C02_wire_compressed (for any lossless '
                 'Codec, under hcmp: the range lists are fixed points of the compaction the proxy applies to the '
                 'decoded blob since /repo 23e5d8f — what the broker serves by SlotInv), Installed from an accepted '
                 'set_meta by C02_install',
                 'active redirection off: the hop bounds are MOVED replies seen by the client',
                 'slot under migration: source proxy != destination proxy (not implied by PartitionView; with both '
                 'tasks on one proxy MigrationMap::send would pick whichever task the HashMap visits first) and a '
                 'phase triple (source task state, source node blocking, destination task state) produced by the '
                 'PRECHECK/PRESWITCH/FINALSWITCH handshake without timeouts: the 8 state pairs of Consistent, proved '
                 'to be exactly the reachable set of the transition system Reach read off scan_task.rs '
                 '(C02_phase_pairs). No stale handshake request is handled after the source left the phase that sent '
                 'it',
                 'a command for a node whose blocking controller is active is queued (held) and re-sent through '
                 'loop_send_cmd_ctx at release; "executed at the source before the switch" therefore reads "executed '
                 'at or queued for the source node", and in the switching window (PreSwitch, PreSwitch) the source '
                 'still queues',
                 'HashMap iteration orders (node maps, peer maps, task map) are arbitrary: theorems hold for every '
                 'visiting order; the harness reports the MOVED targets the implementation chose and the driver only '
                 'uses them to pick among the listers of an overlapping peer map',
                 'the importing handler (RestoreDataCmdTaskHandler) delivers the command to dst_node_address (fake '
                 'backends answer EXISTS with 1, so no key is pulled); its Retry path (handler stopped) is not '
                 'modelled'],
 'gaps': ['finding F02a (equal node addresses of one proxy) is fixed in /repo bf43b2d; '
          'C02_why_add_proxy_refuses_equal_nodes keeps the hand-built witness (a PartitionView on which a fully '
          'synced proxy answers "slot not covered") as the reason for the check, corpus/C02/route.f02a.ops and the '
          'generator class dup_node_address_refused_then_failover are the regression (registration refused, same '
          'layout with distinct addresses routes every slot); the oracle excuses nothing',
          'the (PreBlocking, PreCheck) pair is proved but not driven through the real code (the harness cannot hold '
          'blocking_done; routing at the source is the same code path as PreSwitch)',
          'timeout paths are outside Consistent: max_blocking_time expiry leads to (FinalSwitch, PreCheck), where '
          'source and destination proxy redirect to each other until FINALSWITCH is acknowledged '
          '(C02_inconsistent_pingpong; reproduced on the real code by corpus/C02/route.forced.ops and the '
          'forced_path generator class); max_migration_time expiry can commit the destination while the source still '
          'serves',
          'check_hosts of set_meta is modelled (NOT_MY_META) but its exclusion is C05; UMFORWARD / active '
          'redirection on is modelled in routeWithMigration but no theorem is stated for it',
          'srcProxy != dstProxy is not derived: PosInv/TwinInv/ResInv do not exclude a migration between the two '
          'halves of one chunk whose masters sit on one proxy (role First/Second); it follows whenever srcChunk != '
          'dstChunk or the chunk is in role Normal, but no invariant states that the planner only produces such '
          'migrations'],
 'trusted': ['harness in-memory network (NetClientFactory: delivers UMCTL commands to the addressed real '
             'ForwardHandler, gates handshake requests/replies and SCAN by level) and fake Redis backends (reply = '
             'own address)',
             'the broker model and its driver parser (shared with the broker stream); renaming of proxy indices in '
             'replays']}

CHECK = {'design_ref': '§6 C02, Appendix A (coordinator/wire, proxy)',
 'technique': 'Lean 4 theorems over every PartitionView, every slot, every start proxy, every HashMap order, both '
              'encodings + differential correspondence end to end: real MetaStore histories → real '
              'get_proxy_by_address → real ProxyMetaRespSender::send_meta (SETREPL+SETCLUSTER, plain and compressed) '
              '→ real ForwardHandler/MetaManager per proxy with real migration tasks driven through the real UMCTL '
              'PRECHECK/PRESWITCH/FINALSWITCH handlers → client following MOVED; the Lean side runs the broker '
              'model, proxyView, encodeFor, the C17 wire model, setMeta and routeWithMigration on the same op lines',
 'text': 'Proved: the coordinator sends proxy a exactly the slot ranges (tags kept, importing ranges included) of '
         'the masters placed on a, keyed by node address, and those of the masters elsewhere keyed by proxy address; '
         'slot-less masters vanish in the plain encoding only; both encodings are parsed to the generated meta up to '
         'group order (from C17); an accepted SETCLUSTER installs it whatever was served before. For every view '
         'satisfying ViewOk and every cluster in which each proxy serves its own current view: a slot no pending '
         "range covers has exactly one covering master range and every start proxy reaches that master's node at "
         "that master's proxy within 1 MOVED (C02_stable; C02_stable_reachable / C02_migrating_reachable / "
         'C02_no_third_node_reachable restate all three over every bounded run of the broker model, every cluster '
         'and every migration limit, with the proxies synced to what proxyView serves); a slot under migration is '
         'covered by exactly the migrating-out range on the source master and its importing twin on the destination '
         'master, both proxies hold a task for it, and for each of the 8 handshake phase pairs every start proxy '
         '(source, destination, bystander) ends within 2 MOVED at the source node before the destination has '
         'switched and at the destination node after (queued at the source while it is blocking) (C02_migrating); '
         'whatever the phases, a synced proxy executes or queues a command only on a master placed on itself that '
         'shows a range covering the slot — owner, migration source or destination (C02_no_third_node). The phase '
         'enumeration is exact for the handshake transition system (C02_phase_pairs); outside it the (FinalSwitch, '
         'PreCheck) pair of the max_blocking_time path makes source and destination redirect to each other '
         '(C02_inconsistent_pingpong), reproduced on the real code. F02a (add_proxy accepted two equal node '
         'addresses; such a proxy hosting both masters after a failover answered "slot not covered" for half of the '
         'slots) was found by this check and is fixed in /repo bf43b2d; the invariant "every registered proxy has '
         'two different node addresses" is now proved over all broker operations (C02_nodes_distinct_reachable) and '
         'discharges that hypothesis in the reachable forms. Every run replays >= 24 store histories (scale-out, '
         'commit, failover, failover mid-migration, scale-down, migration limit, forced path) through the real stack '
         'on long-lived proxies that re-apply the metadata of every later broker state (balance_masters / commit of '
         'one of two migrations / failover while tasks run: C02_install_last_only, C02_route_last_only), walks the '
         'handshake through 7 gate levels, follows >= 18 000 client runs (one sweep of all 16384 slots) and compares '
         'every reply kind, MOVED target, executing node, task state and SETCLUSTER reply with the model.',
 'note': 'Trusted: Lean kernel; generated tables; the harness network and fake backends; broker model (tied by the '
         'broker stream). Hypotheses left to the lead: ViewOk from reachable broker states, srcProxy != dstProxy. '
         'Not covered: active redirection, timeout paths (stated as a proved ping-pong witness), PreBlocking on the '
         'real code.'}
