"""C12 — vcheck configuration (PROP) and MANIFEST claim (CHECK)."""
PROP = {
    "module": "UmProps.C12",
    "gen_modules": ["ChunkTables", "Consts"],
    "oracle_prefix": "C12",
    "streams": [{"name": "broker", "harness": "umh_broker", "driver": "broker",
                 # the shared thorough tier (~2M op lines) can exceed the default 3000 s on a loaded machine
                 "timeout": {"thorough": 6000}}],
    "assumptions": [
        "C12_no_panic_run: at most 16384 masters per cluster along the history (PlanBound on every prefix)",
        "both modes of MetaStore are modelled (enable_ordered_proxy = false / true; a history of an ordered-mode broker starts with the pseudo-operation Op.setOrdered, see notes/ordered.md); about a quarter of the generated cases run MetaStore::new(true). The two-hosts clause is a property of the host-based allocator: C12_two_hosts_* carry the "
        "hypothesis s.ordered = false, the ordered-mode counterparts are C12_ordered_addCluster / _addNodes (chunks are "
        "filled with free healthy proxies in index order), C12_ordered_one_cluster, C12_ordered_failover / "
        "_no_replacement (a failed proxy is never replaced); the harness does not apply the two-hosts and "
        "replacement-host oracles to ordered-mode cases",
        "HashMap-order dependent picks (which free proxies form a chunk, which free proxy replaces a failed one) are "
        "arguments of the model validated against the set of picks the code can make; theorems hold for every "
        "choice; the correspondence feeds the implementation's actual pick (a rejected pick is a disagreement)",
        "allocation requests are even proxy counts (node numbers divisible by 4 - enforced by every caller: "
        "add_cluster, auto_add_nodes, auto_scale_up_nodes, auto_change_node_number); generate_free_chunks itself "
        "panics in the model for an odd request on (1,1,1) free hosts",
        "global_epoch does not wrap (u64; Nat in the model)",
    ],
    "gaps": [
        "C12_no_panic_run (every operation, every choice, incl. the four planner operations) is over bounded "
        "histories: every prefix of the run keeps every cluster at <= 16384 masters (Plan.PlanBound, the bounded "
        "reachability of C01/C10); it combines C12_no_panic (non-planner operations, plain Reachable) with C10's "
        "planner_noPanicB. Over plain Reachable (no bound) the planner operations are covered only conditionally: "
        "C12_no_panic_planner_partial with hypothesis PlannerPre (MigPre / DownPre of the addressed cluster, required "
        "only when the planner is reached - DownGuard); beyond 16384 masters the *model's* loop fuel runs out (the "
        "Rust code has no fuel), so no unbounded statement is attempted",
        "C12_replacement_host_partial: the replacement's host differs from the surviving partner's whenever a host "
        "other than the partner's AND other than the failed proxy's own host has a free healthy proxy (then the call "
        "is also never refused: C12_replacement_available_partial). The unrestricted statement of the property text "
        "is false for the code: proved negation C12_replacement_host_full_false with witness "
        "corpus/broker/broker.f1b.ops (KNOWN-FINDING F1b: the failed proxy's own host is never a candidate)",
        "C12_atomic_refusal excludes three operations, stated separately: replace_failed_proxy (takeover + failed mark "
        "persist by design, C12_refusal_failover), auto_change_node_number (the deletion of free chunks persists, "
        "C12_refusal_changeNum) and add_proxy (ALREADY_EXISTED clears the address's failed mark and failure reports, "
        "C12_refusal_addProxy)",
        "existence of an accepted allocation choice (progress) is not a theorem; it is exercised by the "
        "correspondence (the implementation's choice must be accepted by the model)",
    ],
    "trusted": [
        "hand-written transliteration UmModel/Broker.lean, BrokerView.lean, BrokerOps.lean of every MetaStore mutator, "
        "check_metadata and the allocator (differentially checked on ~70k lines per run)",
        "tools/extract.py (ChunkTables, Consts)",
    ],
}

CHECK = {
    "design_ref": "§6 C12",
    "technique": "Lean 4 invariant proofs (induction over all operation histories of the broker model, every "
                 "nondeterministic choice) + differential correspondence of the real MetaStore with the compiled model "
                 "+ Rust oracles on the implementation's observables",
    "text": "Proved for every operation history of the broker (add/remove proxy, add/remove cluster, add nodes, scale "
            "up/down, change node number, delete free nodes, migrate, commit, failover, balance, config, epoch bumps, "
            "failure reports), every allocation choice and every layout of hosts x free proxies: (1) accounting - proxy "
            "addresses and cluster names are unique, no address occupies two chunk halves, every chunk half is a "
            "registered proxy tagged with that cluster and carrying the chunk's host/node fields, every tagged proxy "
            "sits in a chunk of that cluster (tag, occupancy and free pool are exact complements), and check_metadata "
            "returns true; (2) no operation outside the migration planner panics: the allocator's expects are "
            "unreachable for every even request on ANY store (loop invariant 2*count(h) <= sum+1 and 2*pairs <= sum over "
            "the per-host free counts, link-table rows exist for all pairs of hosts with free proxies), create_slots, "
            "'failed to get back proxy', the link row of a failed in-cluster proxy and 'get cluster' in "
            "replace_failed_proxy; on histories with <= 16384 masters per cluster no operation at all panics "
            "(C12_no_panic_run, planner part via C10); (3) a refused operation leaves the store unchanged except global_epoch (three "
            "operations with by-design persistent effects are characterised exactly); (4) every chunk appended by "
            "add_cluster / auto_add_nodes / auto_scale_up_nodes / auto_change_node_number has its halves on different "
            "hosts and is built from free, non-failed, non-reported proxies; (5) a replacement installed by "
            "replace_failed_proxy is a free healthy proxy and sits on a host different from the surviving partner's "
            "whenever a third host has one (and the call is then never refused). KNOWN-FINDING F1b: when only the "
            "failed proxy's own host has a free healthy proxy the call fails or lands on the partner's host (proved "
            "negation of the unrestricted statement). Each run replays the real MetaStore against the model after "
            "every operation and evaluates the accounting, two-host, refusal, no-panic (catch_unwind) and "
            "replacement-host oracles on the implementation's state.",
    "note": "Trusted: Lean kernel; hand-written broker model (validated differentially each run); allocation choices "
            "taken from the implementation and checked against the model's allowed set; both proxy-allocation modes modelled. "
            "F1 (replacement on the partner host although a third host was free) was repaired in /repo 8b46892; the "
            "model is of the repaired code.",
}
