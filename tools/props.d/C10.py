"""C10 — vcheck configuration (PROP) and MANIFEST claim (CHECK)."""
PROP = {
    "module": "UmProps.C10",
    "gen_modules": ["ChunkTables", "Consts"],
    "oracle_prefix": "C10",
    "streams": [{"name": "broker", "harness": "umh_broker", "driver": "broker"}],
    "search_s": 300,
    "assumptions": [
        "non-ordered mode only (enable_ordered_proxy = true is not modelled)",
        "HashMap-order dependent allocation choices are fed from the implementation and validated by the model's "
        "allowed-set check; the C10 theorems hold for every choice",
        "at most SLOT_NUM = 16384 masters per cluster (beyond that create_slots / the planners cut zero-length ranges; "
        "the theorems carry the explicit hypothesis 2 * chunks <= SLOT_NUM)",
        "the commit theorems are stated for any cluster satisfying CommitInv = PosInv + TwinInv + 'stored migration "
        "range lists are compact-fixed' (BrokerDefs invariants, hypotheses here: their preservation by every "
        "operation is C01's obligation; SlotInv => the third part is proved as C10_commitInv_of_invs)",
        "commit_migration(clear=true) needs a valid cluster name (guaranteed by the ClusterName type in the code; "
        "the model takes a String)",
    ],
    "gaps": [
        "C10_balanced is proved in three pieces: add_cluster creates a balanced cluster (C10_balanced_create); the "
        "scale-out and scale-down planners on a balanced cluster leave/plan exactly the new quotas without panic "
        "or fuel exhaustion (C10_balanced_scale_out_plan_partial, C10_balanced_scale_down_plan_partial); commits "
        "in any order terminate after exactly #pending calls (C10_terminates). The composition 'plan -> "
        "assign_dst_slots -> all commits => Balanced with the new master number' is not assembled: it needs that the "
        "ranges of a destination half and of the entries imported into it are pairwise disjoint (slot-set "
        "invariant SlotInv, owned by C01) so that merge_another adds slot counts",
        "failovers interleaved with the commits are covered by the correspondence oracle only (takeover_master "
        "changes epochs/roles, not ranges; preservation of PosInv/TwinInv under failover is C04/C01's obligation)",
    ],
    "trusted": [
        "hand-written transliteration UmModel/Broker.lean of every MetaStore mutator (replayed against the real "
        "MetaStore after every op on every run)",
    ],
}

CHECK = {
    "design_ref": "§6 C10",
    "technique": "Lean 4 theorems over the broker state-machine model (invariants, induction over chunk lists / loop "
                 "fuel / commit chains; no bound on cluster size) + differential correspondence with the real "
                 "MetaStore + refusal/release/balance oracles on the implementation after every operation",
    "text": "Proved on the broker model, for any store and any cluster size: (refuse) while a cluster is migrating, "
            "auto_add_nodes, auto_scale_up_nodes, migrate_slots, migrate_slots_to_scale_down, auto_delete_free_nodes, "
            "change_config, auto_change_node_number and (when it would migrate) auto_scale_out_node_number answer an "
            "error and leave the store unchanged up to the global epoch; (release) auto_delete_free_nodes removes "
            "exactly the chunks with both stable halves None and both migration lists empty, keeps the rest in order "
            "and un-tags exactly the removed chunks' proxies, and commit_migration(clear) / auto_change_node_number "
            "release only through it; (commit) under PosInv+TwinInv+compact-fixed migration ranges every pending "
            "entry's descriptor is accepted, the commit removes exactly that entry and its importing twin and merges "
            "the ranges into the destination half, unknown descriptors get MIGRATION_TASK_NOT_FOUND without change, "
            "the invariants are preserved, and any chain of successful commits in any order (any clear flag) ends the "
            "migration after exactly #pending calls and can always be continued before; (balance, partial) add_cluster "
            "creates a balanced cluster (master i of m owns 16384/m + [i < 16384 % m] slots), and on a balanced "
            "cluster remove_slots_from_src (k extra empty chunks) and remove_slots_from_src_to_scale_down (to n' < n "
            "chunks, destinations already at their final count skipped) neither panic nor exhaust their loop fuel, "
            "leave every source master with exactly its new quota resp. empty, and plan for every destination master "
            "exactly new quota - old holding (greedy two-pointer lemma). The end-to-end composition through "
            "assign_dst_slots and the commits is checked by the balance oracle on the implementation after every "
            "operation (chains of resizes, random commit orders, failovers interleaved).",
    "note": "Trusted: Lean kernel; hand-written broker model (validated differentially each run). Gap: the composition "
            "plan + commits => balanced needs C01's slot-set invariant (disjointness) and is not assembled; failover "
            "interleavings are covered by the oracle only. Observation: the refusal code is not always "
            "MIGRATION_RUNNING (migrate_slots_to_scale_down answers FREE_NODE_FOUND during a scale-out; proved as "
            "C10_refuse_other_code).",
}
