"""C10 — vcheck configuration (PROP) and MANIFEST claim (CHECK)."""
PROP = {
    "module": "UmProps.C10",
    "gen_modules": ["ChunkTables", "Consts"],
    "oracle_prefix": "C10",
    "streams": [{"name": "broker", "harness": "umh_broker", "driver": "broker"}],
    "search_s": 300,
    "assumptions": [
        "non-ordered mode only (enable_ordered_proxy = true is not modelled)",
        "HashMap-order dependent allocation choices are fed from the implementation and validated by the model's "
        "allowed-set check; the C10 theorems hold for every choice",
        "at most SLOT_NUM = 16384 masters per cluster (beyond that create_slots / the planners cut zero-length ranges; "
        "the theorems carry the explicit hypothesis 2 * chunks <= SLOT_NUM)",
        "the commit theorems are stated for any cluster satisfying CommitInv = PosInv + TwinInv + 'stored migration "
        "range lists are compact-fixed' (BrokerDefs invariants, hypotheses here: their preservation by every "
        "operation is C01's obligation; SlotInv => the third part is proved as C10_commitInv_of_invs, and "
        "SlotInv + TwinInv => pairwise disjointness of stable and importing ranges as C10_projInv_of_invs)",
        "commit_migration(clear=true) needs a valid cluster name (guaranteed by the ClusterName type in the code; "
        "the model takes a String)",
    ],
    "gaps": [
        "C10_balanced_scale_out / C10_balanced_scale_down are conditional on the shared invariants PosInv, TwinInv, "
        "SlotInv (UmProofs/BrokerDefs.lean) holding for the cluster that migrate_slots* writes and for the cluster "
        "after every interleaved failover; that reachable states satisfy them is C01's (and C04's) obligation and is "
        "not re-proved here, so there is no single theorem over `Reachable s` yet. Everything else (planner "
        "arithmetic, assign_dst_slots, commits in any order, clear flags, release, failover-invariance of the "
        "profile) is proved outright",
        "the end-to-end theorems start from a cluster in the exact balanced shape without pending tasks and a "
        "single resize; chained resizes follow by re-applying them (the result is again in that shape), but the "
        "induction over arbitrary operation sequences is left to the combination with C01",
    ],
    "trusted": [
        "hand-written transliteration UmModel/Broker.lean of every MetaStore mutator (replayed against the real "
        "MetaStore after every op on every run)",
    ],
}

CHECK = {
    "design_ref": "§6 C10",
    "technique": "Lean 4 theorems over the broker state-machine model (invariants, induction over chunk lists / loop "
                 "fuel / commit chains; no bound on cluster size) + differential correspondence with the real "
                 "MetaStore + refusal/release/balance oracles on the implementation after every operation",
    "text": "Proved on the broker model, for any store and any cluster size: (refuse) while a cluster is migrating, "
            "auto_add_nodes, auto_scale_up_nodes, migrate_slots, migrate_slots_to_scale_down, auto_delete_free_nodes, "
            "change_config, auto_change_node_number and (when it would migrate) auto_scale_out_node_number answer an "
            "error and leave the store unchanged up to the global epoch; (release) auto_delete_free_nodes removes "
            "exactly the chunks with both stable halves None and both migration lists empty, keeps the rest in order "
            "and un-tags exactly the removed chunks' proxies, and commit_migration(clear) / auto_change_node_number "
            "release only through it; (commit) under PosInv+TwinInv+compact-fixed migration ranges every pending "
            "entry's descriptor is accepted, the commit removes exactly that entry and its importing twin and merges "
            "the ranges into the destination half, unknown descriptors get MIGRATION_TASK_NOT_FOUND without change, "
            "the invariants are preserved, and any chain of successful commits in any order (any clear flag) ends the "
            "migration after exactly #pending calls and can always be continued before; (balance) add_cluster creates "
            "a balanced cluster (master i of m owns 16384/m + [i < 16384 % m] slots); from a balanced idle cluster with "
            "k extra empty chunks migrate_slots, and to n' < n chunks migrate_slots_to_scale_down, succeed: neither "
            "planner panics or exhausts its loop fuel, every source master keeps exactly its new quota resp. is "
            "drained, every destination is planned exactly new quota - old holding (greedy two-pointer lemma; "
            "destinations already at their final count are skipped), assign_dst_slots does not panic; and if the "
            "written cluster satisfies the shared invariants PosInv/TwinInv/SlotInv, every chain of commits in any "
            "order, with any clear flags and with failovers interleaved, that exhausts the pending tasks ends in a "
            "balanced cluster with the new master number - after a scale-in exactly the chunks >= n' are slot-less "
            "(and released if a commit cleared them). Tie to the code: the model is replayed against the real "
            "MetaStore on every run and the refusal / release / balance oracles are evaluated on the implementation "
            "after every operation (chains of resizes, random commit orders, failovers interleaved).",
    "note": "Trusted: Lean kernel; hand-written broker model (validated differentially each run). Conditional part: "
            "that the clusters written by migrate_slots* and by interleaved failovers satisfy PosInv/TwinInv/SlotInv "
            "is C01's obligation (hypotheses of C10_balanced_scale_out/_down); a theorem over all reachable states "
            "needs that combination. Observation: the refusal code is not always MIGRATION_RUNNING "
            "(migrate_slots_to_scale_down answers FREE_NODE_FOUND during a scale-out; proved as "
            "C10_refuse_other_code).",
}
