"""C10 — vcheck configuration (PROP) and MANIFEST claim (CHECK)."""
PROP = {
    "module": "UmProps.C10",
    "gen_modules": ["ChunkTables", "Consts"],
    "oracle_prefix": "C10",
    "streams": [{"name": "broker", "harness": "umh_broker", "driver": "broker"}],
    "search_s": 300,
    "assumptions": [
        "both modes of MetaStore are modelled (enable_ordered_proxy = false / true; a history of an ordered-mode broker starts with the pseudo-operation Op.setOrdered, see notes/ordered.md); about a quarter of the generated cases run MetaStore::new(true)",
        "HashMap-order dependent allocation choices are fed from the implementation and validated by the model's "
        "allowed-set check; the C10 theorems hold for every choice",
        "at most SLOT_NUM = 16384 masters per cluster (beyond that create_slots / the planners cut zero-length ranges; "
        "the theorems carry the explicit hypothesis 2 * chunks <= SLOT_NUM)",
        "the commit theorems are stated for any cluster satisfying CommitInv = PosInv + TwinInv + 'stored migration "
        "range lists are compact-fixed' (BrokerDefs invariants, hypotheses here: their preservation by every "
        "operation is C01's obligation; SlotInv => the third part is proved as C10_commitInv_of_invs, and "
        "SlotInv + TwinInv => pairwise disjointness of stable and importing ranges as C10_projInv_of_invs)",
        "commit_migration(clear=true) needs a valid cluster name (guaranteed by the ClusterName type in the code; "
        "the model takes a String)",
    ],
    "gaps": [
        "the reachable-state theorems are stated over C01's `Plan.ReachableB` (every intermediate store keeps every "
        "cluster at <= SLOT_NUM masters), because add_cluster / the planners are only correct under that bound; they "
        "use C01's `cinv_reachableB` (PosInv, TwinInv, SlotInv on those stores) and C04's name uniqueness",
    ],
    "trusted": [
        "hand-written transliteration UmModel/Broker.lean of every MetaStore mutator (replayed against the real "
        "MetaStore after every op on every run)",
    ],
}

CHECK = {
    "design_ref": "§6 C10",
    "technique": "Lean 4 theorems over the broker state-machine model (invariants, induction over chunk lists / loop "
                 "fuel / commit chains; no bound on cluster size) + differential correspondence with the real "
                 "MetaStore + refusal/release/balance oracles on the implementation after every operation",
    "text": "Proved on the broker model, for any store and any cluster size: (refuse) while a cluster is migrating, "
            "auto_add_nodes, auto_scale_up_nodes, migrate_slots, migrate_slots_to_scale_down, auto_delete_free_nodes, "
            "change_config, auto_change_node_number and (when it would migrate) auto_scale_out_node_number answer an "
            "error and leave the store unchanged up to the global epoch; (release) auto_delete_free_nodes removes "
            "exactly the chunks with both stable halves None and both migration lists empty, keeps the rest in order "
            "and un-tags exactly the removed chunks' proxies, and commit_migration(clear) / auto_change_node_number "
            "release only through it; (commit) under PosInv+TwinInv+compact-fixed migration ranges every pending "
            "entry's descriptor is accepted, the commit removes exactly that entry and its importing twin and merges "
            "the ranges into the destination half, unknown descriptors get MIGRATION_TASK_NOT_FOUND without change, "
            "the invariants are preserved, and any chain of successful commits in any order (any clear flag) ends the "
            "migration after exactly #pending calls and can always be continued before; (balance) add_cluster creates "
            "a balanced cluster (master i of m owns 16384/m + [i < 16384 % m] slots); from a balanced idle cluster with "
            "k extra empty chunks migrate_slots, and to n' < n chunks migrate_slots_to_scale_down, succeed: neither "
            "planner panics or exhausts its loop fuel, every source master keeps exactly its new quota resp. is "
            "drained, every destination is planned exactly new quota - old holding (greedy two-pointer lemma; "
            "destinations already at their final count are skipped), assign_dst_slots does not panic; and if the "
            "written cluster satisfies the shared invariants PosInv/TwinInv/SlotInv, every chain of commits in any "
            "order, with any clear flags and with failovers interleaved, that exhausts the pending tasks ends in a "
            "balanced cluster with the new master number - after a scale-in exactly the chunks >= n' are slot-less "
            "(and released if a commit cleared them). Over all boundedly reachable stores (any operation sequence "
            "keeping every cluster at <= 16384 masters; C01's invariants discharge the hypotheses): every cluster "
            "that is not migrating is Balanced (C10_reachable_balanced), every cluster carries CommitInv and the "
            "profile of a balanced target so that committing its pending tasks in any order, failovers interleaved, "
            "reaches Balanced (C10_reachable_on_track / _chain_balanced), and the four planner operations never panic "
            "(C10_planner_no_panic, closing C12's PlannerPre). Tie to the code: the model is replayed against the real "
            "MetaStore on every run and the refusal / release / balance oracles are evaluated on the implementation "
            "after every operation (chains of resizes, random commit orders, failovers interleaved).",
    "note": "Trusted: Lean kernel; hand-written broker model (validated differentially each run). The reachable-state "
            "theorems are over bounded reachability (<= 16384 masters per cluster at every step) and rest on C01's "
            "cinv_reachableB. Observation: the refusal code is not always MIGRATION_RUNNING "
            "(migrate_slots_to_scale_down answers FREE_NODE_FOUND during a scale-out; proved as "
            "C10_refuse_other_code).",
}
