"""C01 — vcheck configuration (PROP) and MANIFEST claim (CHECK)."""
PROP = {
    "module": "UmProps.C01",
    "gen_modules": ["ChunkTables", "Consts"],
    "oracle_prefix": "C01",
    "streams": [{"name": "broker", "harness": "umh_broker", "driver": "broker"},
                # the same model against the broker's HTTP API (warp routes + JSON, the coordinator's HTTP clients): notes/http.md
                {"name": "http", "harness": "umh_http", "driver": "broker"}],
    "search_s": 300,
    "assumptions": [
        "both modes of MetaStore are modelled (enable_ordered_proxy = false / true; a history of an ordered-mode broker starts with the pseudo-operation Op.setOrdered, see notes/ordered.md); about a quarter of the generated cases run MetaStore::new(true)",
        "HashMap-order dependent allocation choices are fed from the implementation and validated by the model's allowed-set check",
        "masters <= 16384 per cluster",
    ],
    "gaps": [
        "explicit hypothesis PlanBound: every cluster of every intermediate state has at most 16384 masters (necessary: with more masters the code cuts zero-length ranges, DESIGN F11)",
    ],
}

CHECK = {
    "text": "Proved in Lean for every operation list (any order of create/scale/commit/failover/balance/config/delete, any allocation choice), every intermediate state, every migration limit: the store invariants PosInv/TwinInv/SlotInv hold and every served whole-cluster view is a PartitionView (each slot exactly one owner among stable+migrating ranges of masters, replicas own nothing, every migrating range has exactly one importing twin with identical range/epoch/addresses on the destination master); every per-proxy view is the projection of such a view and owns each slot once. Hypothesis: at most 16384 masters per cluster. Tie to the code: the hand-written broker model (every MetaStore mutator and query) is replayed against the real MetaStore on ~70k lines per run (full canonical store + digest of every served view for limits 0..2 after every op) and the partition oracle is evaluated on every served view for limits 0..3. Stream 'http' repeats the tie one layer up: the same model is replayed against a real run_server(MemBrokerService) on loopback, driven through the coordinator's own HTTP clients and reqwest (every route, JSON bodies, gzip, pagination, error bodies), and the partition oracle is evaluated on every view as decoded by HttpMetaBroker (known finding F01h: proxy addresses with URL-sensitive characters are accepted but cannot be addressed afterwards).",
    "design_ref": "§6 C01",
    "note": "Trusted: Lean kernel; hand-written broker model (validated differentially each run); generated chunk index tables; allocation choices taken from the implementation and checked against the model's allowed set; both proxy-allocation modes (enable_ordered_proxy off/on) modelled.",
    "technique": "Lean 4 invariant proofs over a broker state-machine model + differential correspondence with the real MetaStore",
}
