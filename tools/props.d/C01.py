"""C01 — vcheck configuration (PROP) and MANIFEST claim (CHECK)."""
PROP = {
    "module": "UmProps.C01",
    "gen_modules": ["ChunkTables", "Consts"],
    "oracle_prefix": "C01",
    "streams": [{"name": "broker", "harness": "umh_broker", "driver": "broker"}],
    "search_s": 300,
    "assumptions": [
        "non-ordered mode only (enable_ordered_proxy = true is not modelled)",
        "HashMap-order dependent allocation choices are fed from the implementation and validated by the model's allowed-set check",
        "masters <= 16384 per cluster",
    ],
    "gaps": [
        "the reachable-state theorem `forall s, Reachable s -> forall c in s.clusters, PartitionView (clusterView ..)` is not assembled yet: proved so far are the range-list layer (compact/merge keep the slot set); the invariants SlotInv/PosInv/TwinInv are *evaluated* on every visited state (driver op inv) but their preservation proofs are in progress",
    ],
}

CHECK = {
    "text": "partial: Lean theorems for the range-list layer (compact / merge_another keep the slot set and produce normal form) over all inputs; the full partition theorem over all reachable broker states is in progress. Tie to the code: the hand-written broker model (every MetaStore mutator and query) is replayed against the real MetaStore on ~70k lines per run (full canonical store + digest of every served view for limits 0..2 after every op) and the partition oracle is evaluated on every served view for limits 0..3.",
    "design_ref": "§6 C01",
    "note": "Trusted: Lean kernel; hand-written broker model (validated differentially each run); generated chunk index tables; allocation choices taken from the implementation and checked against the model's allowed set; ordered-proxy mode unmodelled.",
    "technique": "Lean 4 invariant proofs over a broker state-machine model + differential correspondence with the real MetaStore",
}
