"""C14 — vcheck configuration (PROP) and MANIFEST claim (CHECK)."""
PROP = {
    'module': 'UmProps.C14',
    'gen_modules': ['Consts', 'CmdTables', 'NodesTable', 'ChunkTables', 'ProtoConsts'],
    'streams': [{'name': 'nodes', 'harness': 'umh_nodes', 'driver': 'nodes'}],
    'assumptions': [
        'the installed view has the partition property (theorem hypothesis `Partition`, the harness checks it on the '
        'meta it installs): every slot 0..16383 is covered by exactly one range of a stable-or-migrating SlotRange, a '
        'migrating slot by exactly one range of an importing SlotRange with the same range list, nothing else is '
        'imported (C01 proves this of the broker\'s views)',
        'cluster name non-empty; the announce address is not the address of a peer; cluster name and addresses contain '
        'no blank / newline / `@`, every address is host:port with exactly one `:` (theorem hypotheses `WfView`, '
        '`ColonView`): with an IPv6-style or colon-less address CLUSTER SLOTS splits differently from CLUSTER NODES or '
        'fails as a whole (observation in notes/C14.md)',
        'epoch and slot numbers are machine integers (< 2^64)',
        'the phase map is whatever `MigrationMap::get_states` returns: theorems quantify over every map '
        'RangeList -> Option MigrationState; the bystander clause additionally uses that keys are range lists of local '
        'tagged ranges (`StatesOfLocalTasks`, what `update_from_old_task_map` builds)',
        'install histories: `set_meta` / `update_from_old_task_map` / `handle_switch` are C02\'s model (UmModel/RouteE2E.lean '
        '`setMeta`, `updateTasks`, `handleSwitch`; lemmas `setMeta_installed`, `setMeta_last_only`), reused through '
        'UmModel/ClusterNodesHist.lean; the driver keeps that task map across `install` lines and prints it (`tasks`) '
        'against `UMCTL INFO` after every SETCLUSTER',
        'HashMap iteration order (node maps, task map) is arbitrary: node maps are lists in visiting order, theorems '
        'hold for every list; the harness canonicalises the replies (sorts lines, slot tokens of a line, SLOTS entries)',
        'crc64 2.0.0 `crc64(0, ..)` = bit-serial reflected CRC-64/Jones of UmModel/ClusterNodes.lean (checked on the '
        'check value by `decide`, and differentially on every node id of every run)',
        'ClusterName is ASCII (validated by ClusterName::try_from), so `{:_<24}` (chars) and truncate(24) (bytes) agree',
    ],
    'gaps': [
        'routing of slots inside a local migration task is C02: clause (3) is about slots not under migration; for '
        'migrating slots the harness oracle compares the advertisement with the real routing in the phases that pin '
        'the serving side down (source PreCheck / Scanning / FinalSwitch / SwitchCommitted, destination PreCheck)',
        'the timer model is the identity (`Hist.timer`): that the real task stores no state on expiry is tied to the code '
        'only differentially (`tick` lines of the timeout family), not by a transliteration of the select!/timeout futures',
        'the source phase PreBlocking is transient (ms) and is not held by the harness; the truth table and the '
        'theorems cover it (it behaves like every state other than PreCheck)',
    ],
    'trusted': [
        'tools/extract_nodes.py (truth table of should_ignore_slots computed from the operator/state of its three arms; '
        'line format pieces, node-id widths, cport, importing-task switch states)',
        'harness: gated fake peer / fake Redis for the migrating tasks, recording fake backends (route_support.rs), '
        'canonicalisation of the two replies (mirrored in UmDriver/Nodes.lean)',
    ],
}

CHECK = {
    'design_ref': '§6 C14',
    'technique': 'Lean 4 theorems over all views with the partition property, all phase maps, both NODES formats, all '
                 '16384 slots + differential correspondence of the real CLUSTER NODES / CLUSTER SLOTS / routing of '
                 'ForwardHandler+MetaManager (phases driven through the real UMCTL handshake and the real migrating task) '
                 'against the compiled model',
    'text': 'Proved (C14_advertise): for every installed view with the partition property, every phase map '
            'RangeList -> MigrationState and both format versions, the generated CLUSTER NODES text and CLUSTER SLOTS reply '
            'parse back (parse∘gen lemmas), every slot is listed by exactly one token of one NODES line and exactly one SLOTS '
            'entry, under the same address (the two replies agree on every slot even without the partition property); a slot '
            'not under migration is advertised at its owner, the proxy executes it locally iff that is itself and otherwise '
            'answers MOVED to (or forwards to) exactly that address; a migrating slot is advertised at the source iff the state '
            'found under its range list is PreCheck and at the destination otherwise (every later state; bystanders have no '
            'state). On a long-lived proxy (C14_history_last_only / C14_install_history / C14_new_migration_at_source): after '
            'any accepted SETCLUSTER the replies are those of the last accepted metadata with the phase map of a task map that '
            'has a task for every tagged local range - kept ones in their phase, new ones in PreCheck - so a migration newly '
            'exposed next to running ones is advertised at its source until its own handshake; a switch command whose meta '
            'is not exactly the MigrationTaskMeta of an installed task is refused and leaves NODES/SLOTS unchanged '
            '(C14_stray_switch); timer expiry alone (max_migration_time / max_blocking_time) moves nothing '
            '(C14_timer_changes_nothing). should_ignore_slots is a '
            'generated truth table. Checked every run against the real proxy: hand-built '
            'partitions (source / destination / bystander), views served by the real broker MetaStore mid-migration, '
            'perturbed metas, install histories of 2-4 SETCLUSTERs on the same proxy process (migrations hidden by the migration '
            'limit, exposed later before/after running ones on the same node, re-issued over the same range with a new source '
            'and epoch, committed; task map compared after every install), stale / one-field-altered UMCTL switch commands '
            'between installs (must answer TASK_NOT_FOUND / NOT_READY and change nothing), a "peer never acknowledges, '
            'max_migration_time = 1 s expires" family on the paused clock, '
            'both formats, textual and compressed SETCLUSTER, phases driven through UMCTL PRECHECK/PRESWITCH/'
            'FINALSWITCH and the real RedisScanMigratingTask; oracle on the implementation: all 16384 slots advertised once, '
            'NODES = SLOTS, advertisement = routing probes.',
    'note': 'Trusted: Lean kernel; extract_nodes.py; harness fakes and canonicalisation; crc64 crate tied differentially. '
            'Reading of the property for bystanders: destination (DESIGN §6 C14). Observations (not C14 violations) in '
            'notes/C14.md: bystander MOVED target for migrating slots is HashMap-order dependent (source or destination); '
            'compressed SETCLUSTER with a descending range list on a tagged range panics in RangeMap::from.',
}
