"""C06 — vcheck configuration (PROP) and MANIFEST claim (CHECK)."""
PROP = {
    "module": "UmProps.C06",
    "gen_modules": ["ChunkTables", "Consts"],
    "oracle_prefix": "C06",
    "streams": [{"name": "broker", "harness": "umh_broker", "driver": "broker",
                 "timeout": {"quick": 900, "thorough": 9000}}],  # shared thorough stream: ~15 min unloaded, far more
                                                                 # when several broker checks run concurrently
    "search_s": 300,
    "assumptions": [
        "both modes of MetaStore are modelled (enable_ordered_proxy = false / true; a history of an ordered-mode broker starts with the pseudo-operation Op.setOrdered, see notes/ordered.md); about a quarter of the generated cases run MetaStore::new(true); in ordered mode replace_failed_proxy is takeover_master plus a second epoch bump and Ok(None): "
        "C06_failover / FailoverClauses carry the mode-dependent clause (failed mark vs. untouched failed set), "
        "C06_failover_ordered and C06_e_repeat_failover_ordered are the ordered-mode statements",
        "HashMap-order dependent allocation choices (replacement proxy, new chunks) are fed from the implementation "
        "and validated by the model's allowed-set check; every C06 theorem holds for every choice, allowed or not",
        "C06_failover_run / C06_epochs_run have one premise left: every prefix of the history keeps every cluster at "
        "<= SLOT_NUM = 16384 masters (PlanBound, needed by C01's planner theorems). The invariants are discharged "
        "with the other properties' theorems: PosInv/TwinInv from Plan.cinv_run (C01, UmProofs/BrokerSlotsPlanJ), "
        "EpochInv from Epoch.epochInv_reachable (C04), ResInv from resInv_reachable (C12); the per-store theorems "
        "(C06_a..g, C06_failover_at, C06_epochs_at) keep them as explicit hypotheses and C06_reachable_* take the "
        "lifted forms as premises",
        "registered proxy tagged with a cluster (findProxy p = some pr, pr.cluster = some name) is the premise of "
        "the in-cluster failover; the healthy-partner premise of the property text is not needed by any clause",
        "(a)-(d) are stated for the unlimited view clusterStoreToCluster cl and carried over to every "
        "migration_limit by C06_limited (limit_migration commutes with the entry map of takeover_master and keeps "
        "roles/addresses; no invariant needed); (c) holds for every cluster value",
        "epochs do not wrap (u64; modelled as Nat)",
    ],
    "gaps": [
        "'chunk partner is healthy' is not needed by (a), (c), (d), (e); for (b) the theorem is about the proxy "
        "that is failed over (no node of p is master afterwards). That no node of *any other* failed, unreplaced "
        "proxy is master is not an invariant of the code when both halves of a chunk fail one after the other "
        "and one is re-registered (outside the property's premise); not stated",
    ],
    "trusted": [
        "hand-written transliteration UmModel/Broker.lean + BrokerView.lean of takeover_master, "
        "replace_failed_proxy, balance_masters, generate_new_free_proxy, generate_free_chunks, "
        "cluster_store_to_cluster, to_slot_range (replayed against the real MetaStore after every op on every run)",
        "index tables UmGen/ChunkTables.lean are re-extracted from src/broker/store.rs and query.rs on every run",
    ],
}

CHECK = {
    "text": "Proved on the broker model, for every store (hence every reachable one), every cluster satisfying the "
            "stated invariants, every proxy p sitting on half h of chunk k of its cluster, every role position "
            "before the call (Normal, FirstChunkMaster, SecondChunkMaster) and every allocation choice: "
            "(view) cluster_store_to_cluster is exactly a pure function specView of the stored cluster and succeeds "
            "iff all stored migration indices are in range; "
            "(a) after takeover_master / replace_failed_proxy the view has the same nodes at the same positions and "
            "node j of chunk i holds: outside chunk k exactly the slot ranges (stable, migrating, importing) it held; on "
            "the failed half of chunk k nothing; on the partner half what it held followed by what its chunk peer "
            "(peer_index 0<->3, 1<->2) held - equivalently every range moves to the peer of its owner iff the owner "
            "was on p, and no other range changes owner; "
            "(b) no node served by p is master or holds a range afterwards, with or without replacement; a "
            "replacement takes over the addresses of the failed half only, changes no slot list and no tag, and was "
            "free, not failed and unreported before the call; "
            "(c) in every view of every cluster: 4 nodes per chunk, exactly 2 masters per chunk, each node's single "
            "peer record is the node at its peer index, on the other proxy of the chunk, with the opposite role and "
            "pointing back; replicas hold no slots; migration tags name the node/proxy that owns the part; "
            "(d) a non-repeat takeover_master sets global and cluster epoch to e = old+1, changes nothing of a stored "
            "entry but mm.epoch, and sets mm.epoch := e exactly for the entries whose source or destination position "
            "occurs in peer_position (= positions named by the entries stored in the parts the failing half served); "
            "given PosInv+TwinInv every entry whose served source or destination address differs afterwards has "
            "epoch e > every epoch served before (EpochInv), moved ends are served with the partner proxy and the "
            "promoted node (a master of the view that holds the part), unmoved ends keep their addresses - covers "
            "both parts when the chunk was already in First/SecondChunkMaster (the F2 case, fixed in 2ba2638); "
            "(limit) for every migration_limit: limit_migration succeeds after the call if it did before, the limited "
            "cluster after is the limited cluster before with the same entry map and role flip, (a) and (b) hold "
            "between the two limited views and every limited entry is served with the descriptor of the stored entry "
            "of the same meta, so (d) transfers; "
            "(e) a second takeover_master for the same proxy changes nothing but the global epoch, and a repeated "
            "replace_failed_proxy that again finds no replacement likewise; "
            "(f) generate_free_chunks / generate_new_free_proxy return only members of freeProxies = registered, in "
            "no cluster, not in failed_proxies, without failure report, and for every operation every proxy address "
            "in a chunk afterwards was in a same-named cluster before or was such a free proxy before; "
            "(run) C06_failover_run / C06_epochs_run: for every operation list whose prefixes keep <= 16384 masters per "
            "cluster and every registered, cluster-tagged proxy, the appended failover step satisfies (a), (b), (c), "
            "(e) and the replacement clause, and takeover_master satisfies (d), with no further premise (invariants "
            "discharged by C01 cinv_run, C04 epochInv_reachable, C12 resInv_reachable); "
            "(g) balance_masters changes only role positions, resets exactly the chunks none of whose proxies is "
            "failed or reported, and in the view every part keeps its ranges, held by the node the Normal position "
            "designates. Tie to the code: the model is replayed against the real MetaStore after every operation, "
            "and the C06 oracle (owner map before/after per slot, master-on-failed, peer records, "
            "address-change => fresh epoch, failed/reported never allocated) runs on the implementation's views.",
    "design_ref": "§6 C06, §7 F2",
    "note": "Trusted: Lean kernel; hand-written broker model (validated differentially each run); generated index "
            "tables. Hypotheses PosInv/TwinInv/EpochInv/ResInv are proved by C01/C04/C09/C10/C12 and only plugged in. "
            "Observation (outside the property text, not registered): balance_masters changes the served "
            "source/destination addresses of pending migrations of a reset chunk without changing their migration "
            "epoch (witness in UmProps/C06.lean, last balance example).",
    "technique": "Lean 4 proofs: exact pure characterisation of the served view, decide on the generated index tables "
                 "(role position x failed half x node/part), list lemmas lifting the table facts over chunks and "
                 "views, per-operation allocation lemma; differential correspondence with the real MetaStore",
}
