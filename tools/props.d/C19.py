"""C19 — vcheck configuration (PROP) and MANIFEST claim (CHECK)."""
PROP = {'assumptions': ['Redis PTTL replies are canonical decimal i64 (-2 missing, -1 persistent, n>=0 ms left); '
                 "RESTORE reads ttl 0 as 'no expiry'",
                 'btoi 0.4.2 grammar as transliterated in UmModel/Bytes.lean (differentially checked on '
                 'every run)'],
 'gaps': ['the scan loop (produce_entries on SCAN batches) is exercised through the UMSYNC path which shares produce_entries/forward_entries; key expiry firing between the two pipelined commands and before the RESTORE is inside the Lean model (C19_scan_move / C19_pull_move, clock advancing between PTTL, DUMP and RESTORE) but the Redis servers there are the assumed command semantics, not a real Redis'],
 'gen_modules': ['Consts'],
 'module': 'UmProps.C19',
 'streams': [{'driver': 'ttl', 'harness': 'umh_ttl', 'name': 'ttl'}]}

CHECK = {'design_ref': '§6 C19',
 'note': 'Trusted: Lean kernel; btoi grammar transliteration (checked differentially); Redis PTTL/RESTORE '
         'semantics as stated; path models (produce_entries/get_data_entry reply matching) are hand-written.',
 'technique': 'Lean 4 theorems over all i64 PTTL values on both transfer-path models + differential correspondence (real function, real UMSYNC path, real pull path vs model)',
 'text': 'Proved for all PTTL replies n in [0, i64::MAX], -1 and -2 and every payload, on both transfer-path '
         'models (scan/UMSYNC and pull): RESTORE ttl t satisfies 1 <= t <= max(n,1); persistent stays '
         'persistent; missing keys are not restored. End to end (C19_scan_move, C19_pull_move): for every key record (data, absolute expiry or none), every timing t1 <= t2 <= t3 of the two reads and the RESTORE (the key may expire in between), the destination holds nothing, or the same data persistent iff the source was persistent, or the same data with an expiry e2 with t3 < e2 <= e + (t3 - tRead); a key still alive at the second read does arrive. The model is tied to the code by generated constants '
         'and by running, every run, three real code paths against the Lean model on boundary/structured/random replies: '
         'pttl_to_restore_expire_time itself, the UMSYNC push path (ScanMigrationTask::handle_sync_task -> produce_entries -> '
         'forward_entries with a scripted Redis stand-in recording the RESTORE that reaches the destination) and the pull path '
         '(get_data_entry + gen_restore_resp through a cfg hook).'}
