"""C15 — vcheck configuration (PROP) and MANIFEST claim (CHECK)."""
PROP = {
    'module': 'UmProps.C15',
    'gen_modules': ['RespCfg'],
    'streams': [{'name': 'resp', 'harness': 'umh_resp', 'driver': 'resp',
                 'timeout': {'quick': 600, 'thorough': 3000}}],
    'assumptions': [
        'Values are in-memory Rust values: bulk and array lengths fit i64 (Wf); line payloads '
        '(Simple/Error/Integer) contain no LF - the hypothesis of the round trip, shown necessary by '
        'C15_roundtrip_needs_wf; arrays (nil ones included) are nested at most MAX_NESTING = 128 deep '
        '(NestOk 0 v, C15_nesting_bound) - deeper values are rejected by design (C15_nesting)',
        'btoi 0.4.2 grammar as transliterated in UmModel/Bytes.lean (differentially checked on every run)',
        'parse_array reserves min(array_size, bytes remaining) elements (generated switch capRemaining): the '
        'model has no panic there, assuming buf.len() * size_of::<RespIndex>() <= isize::MAX (buffers below '
        '2^58 bytes); for a tree without the cap the capacity-overflow panic is modelled (n*32 > isize::MAX, '
        'size_of checked by op `sizeof`) and allocation failure (abort) is outside the model (F4, C16)',
        'FramedRead is modelled by hand: append the read, call decode until Ok(None), stop at the first Err; '
        'decode_eof is not modelled',
    ],
    'gaps': [
        'C15_strict (last sentence of the property) is the live statement since fix 08d356f (strictTerm = true is '
        'extracted from the source); C15_strict_violated is kept but its hypothesis strictTerm = false no longer holds',
        'length fields: any btoi::<i64> spelling is taken (+3, 03, any negative = nil) in both variants: '
        'recorded as normalisations (DESIGN §7), part of the grammar Accepts',
        'C15_static_multi_partial: the stateless <OptionalMulti<T> as DecodedPacket>::decode loses complete '
        'packets when a later one is incomplete (C15_static_multi_loses, finding F15a; no caller in the crate)',
    ],
    'trusted': [
        'tools/extract_resp.py: detection of the terminator checks (strictTerm), of the nesting limit '
        '(maxNesting = MAX_NESTING, shape of parse_resp_nested / parse_array_nested), of the capped reservation '
        '(capRemaining) and the type bytes / nil encodings (a wrong detection shows as a model/implementation '
        'disagreement; an unknown shape stops the extractor)',
        'the reference RESP recogniser inside umh_resp (oracle for the strictness clause)',
    ],
    'search_s': 120,
}

CHECK = {
    'design_ref': '§6 C15, §7 F7',
    'technique': 'Lean 4 theorems over all values / byte strings / chunkings (induction, no enumeration) + '
                 'differential correspondence (real undermoon::protocol vs compiled Lean model)',
    'text': 'Proved for the index parser of stateless.rs, encode_resp, IndexedResp/RespVec decode, the '
            'decode-until-None loop over RespCodec and the OptionalMultiPacketDecoder hint machine, for both '
            'variants of the terminator checks and every setting of the nesting limit / reservation policy: '
            '(roundtrip) decode(encode v ++ rest) = v consuming exactly encode v for every frameable value '
            'nested at most MAX_NESTING deep; (nesting) everything decoded is within the limit and a deeper '
            'value is rejected; (no panic) with the capped reservation no decode call panics; (prefix) every strict prefix of an encoding answers Ok(None) '
            'and leaves the buffer; (extension) a verdict other than Ok(None) never changes when bytes are '
            'appended; (chunking) packets, error position and left-over buffer depend only on the '
            'concatenation of the reads; (forward) packets ++ left-over = bytes read, each packet resolves '
            'without panic to the value its bytes spell; (multi) the hint machine returns exactly the first n '
            'replies in order, independent of chunking; (strict) decoded bytes are in the grammar Accepts. '
            'The full strictness clause (only CRLF terminators) holds for the current tree (F7 fixed) and is '
            'refuted for a tree without the checks ("+OK\\n" decoded to Simple "O"). The model is tied to the '
            'code by generated constants (type bytes, nil encodings, terminator checks, MAX_NESTING, capped '
            'reservation) and by running the real parser/decoder/codec/hint machine against the compiled model on '
            'generated values (depth<=6, nil, empty, CR/LF payloads, <=64 KiB), every strict prefix and '
            'every split point of short streams, pipelines of 1-8 packets, mutated encodings and exhaustive '
            'short strings over {*,$,+,-,:,0,1,CR,LF}.',
    'note': 'Trusted: Lean kernel; hand transliteration of stateless.rs/encoder.rs/resp.rs/packet.rs '
            '(checked differentially, index trees included); FramedRead loop modelled by hand; allocation '
            'no-panic assumes buffers below 2^58 bytes. Findings: F7 fixed (08d356f); F4/F16b fixes (C16) are '
            'followed by generated switches; F15a known (stateless OptionalMulti::decode drops packets; dead '
            'code).',
}
