"""C15 — vcheck configuration (PROP) and MANIFEST claim (CHECK)."""
PROP = {
    'module': 'UmProps.C15',
    'gen_modules': ['RespCfg'],
    'streams': [{'name': 'resp', 'harness': 'umh_resp', 'driver': 'resp',
                 'timeout': {'quick': 600, 'thorough': 3000}}],
    'assumptions': [
        'Values are in-memory Rust values: a bulk length fits i64 and Vec::with_capacity(len) of an array '
        'does not overflow (Wf); line payloads (Simple/Error/Integer) contain no LF - the hypothesis of the '
        'round trip, shown necessary by C15_roundtrip_needs_wf',
        'btoi 0.4.2 grammar as transliterated in UmModel/Bytes.lean (differentially checked on every run)',
        'Vec::<RespIndex>::with_capacity(n) either panics with `capacity overflow` (n*32 > isize::MAX, modelled; '
        'size_of checked by op `sizeof`) or succeeds: allocation failure (abort) is outside the model (F4, C16)',
        'FramedRead is modelled by hand: append the read, call decode until Ok(None), stop at the first Err; '
        'decode_eof is not modelled',
    ],
    'gaps': [
        'C15_strict (last sentence of the property) is the live statement since fix 08d356f (strictTerm = true is '
        'extracted from the source); C15_strict_violated is kept but its hypothesis strictTerm = false no longer holds',
        'length fields: any btoi::<i64> spelling is taken (+3, 03, any negative = nil) in both variants: '
        'recorded as normalisations (DESIGN §7), part of the grammar Accepts',
        'C15_static_multi_partial: the stateless <OptionalMulti<T> as DecodedPacket>::decode loses complete '
        'packets when a later one is incomplete (C15_static_multi_loses, finding F15a; no caller in the crate)',
    ],
    'trusted': [
        'tools/extract_resp.py: detection of the terminator checks in stateless.rs (strictTerm) and the type '
        'bytes / nil encodings (a wrong detection shows as a model/implementation disagreement)',
        'the reference RESP recogniser inside umh_resp (oracle for the strictness clause)',
    ],
    'search_s': 120,
}

CHECK = {
    'design_ref': '§6 C15, §7 F7',
    'technique': 'Lean 4 theorems over all values / byte strings / chunkings (induction, no enumeration) + '
                 'differential correspondence (real undermoon::protocol vs compiled Lean model)',
    'text': 'Proved for the index parser of stateless.rs, encode_resp, IndexedResp/RespVec decode, the '
            'decode-until-None loop over RespCodec and the OptionalMultiPacketDecoder hint machine, for both '
            'variants of the terminator checks: (roundtrip) decode(encode v ++ rest) = v consuming exactly '
            'encode v for every frameable value; (prefix) every strict prefix of an encoding answers Ok(None) '
            'and leaves the buffer; (extension) a verdict other than Ok(None) never changes when bytes are '
            'appended; (chunking) packets, error position and left-over buffer depend only on the '
            'concatenation of the reads; (forward) packets ++ left-over = bytes read, each packet resolves '
            'without panic to the value its bytes spell; (multi) the hint machine returns exactly the first n '
            'replies in order, independent of chunking; (strict) decoded bytes are in the grammar Accepts. '
            'The full strictness clause is proved for the tree with the proposed fix and refuted for the '
            'pinned tree (F7: "+OK\\n" decodes to Simple "O"; "$3\\r\\nabcXY" to Bulk "abc"). The model is '
            'tied to the code by generated constants (type bytes, nil encodings, presence of the terminator '
            'checks) and by running the real parser/decoder/codec/hint machine against the compiled model on '
            'generated values (depth<=6, nil, empty, CR/LF payloads, <=64 KiB), every strict prefix and '
            'every split point of short streams, pipelines of 1-8 packets, mutated encodings and exhaustive '
            'short strings over {*,$,+,-,:,0,1,CR,LF}.',
    'note': 'Trusted: Lean kernel; hand transliteration of stateless.rs/encoder.rs/resp.rs/packet.rs '
            '(checked differentially, index trees included); FramedRead loop modelled by hand; allocation '
            'failure of Vec::with_capacity outside the model (F4/C16: generators cap declared array lengths '
            'at 999999 and nesting at 200). Known findings: F7 (terminators unchecked; fix in '
            '.build/patches/f7.diff), F15a (stateless OptionalMulti::decode drops packets; dead code).',
}
