"""C17 — vcheck configuration (PROP) and MANIFEST claim (CHECK)."""
PROP = {
 'module': 'UmProps.C17',
 'gen_modules': ['ProtoConsts', 'ChunkTables', 'Consts'],
 'streams': [{'name': 'proto', 'harness': 'umh_proto', 'driver': 'proto',
              'timeout': {'quick': 600, 'thorough': 3000}}],
 'assumptions': [
  'C17_task_commit is stated for clusters satisfying PosInv ∧ TwinInv ∧ SlotInv (C01 proves them for every bounded run: '
  'C17_task_commit_run via cinv_run), a migration epoch within u64, a valid cluster name and space-free node/proxy '
  'addresses; the broker model is UmModel/Broker.lean + BrokerView.lean (tied to the code by the broker stream and by the '
  'commit leg of this stream)',
  'usize is 64 bit and the crate is built without overflow checks (release profile): `end + 1` in RangeList::compact wraps',
  'Rust str::parse::<u64>/<usize>, str::from_utf8, to_uppercase/to_lowercase as transliterated in UmModel/Proto.lean '
  '(parseUnsigned, validUtf8, upperA/lowerA); the two case tables are compared with Rust\'s Unicode tables over all '
  'scalar values by the harness on every run, the rest differentially',
  'JSON∘gzip∘base64 of ProxyClusterMetaData is lossless: `Codec.dec_enc` (a structure field used as hypothesis, not an '
  'axiom); sampled against serde_json/flate2/base64 on every run (every generated meta, every corrupted blob)',
  'BdMeta = WfMeta without the condition that range lists are fixed points of compact (C17_rt_cluster_any, '
  'C17_rt_compressed, C17_plain_eq_compressed need only this)',
  'well-formed (WfMeta) = what the plain encoder can express: distinct addresses that are not section words, no address '
  'with an empty slot list, range lists that are fixed points of compact, numbers within u64, scan_count != 0, '
  'valid cluster name, COMPRESS flag clear',
  'reading of "corrupted encodings are rejected": an accepted vector is an encoding of the value it parses to '
  '(C17_no_misparse); a mutation that yields another well-formed message is accepted as that message; a config section '
  'that fails to parse while local and peer are non-empty is accepted with Err(ParseExtendedMetaError) '
  '(reply "WARNING: ignored invalid config") and counted separately',
 ],
 'gaps': [
  'the proxy-side producer of the INFOMGR reply (handle_umctl_info_migration: into_strings().join(" ")) is mirrored in '
  'the harness, not driven through the executor; the coordinator-side consumer is the real MigrationStateRespChecker',
  'C17_from_resp_partial is the filter-independent part; the full statement (vectors containing an element that is not '
  'a UTF-8 bulk string are rejected) holds for the code as repaired in 942fdd0 (C17_from_resp_strict / '
  'C17_repl_from_resp_strict, generated flag fromRespStrict = true) and was false before (F8, C17_F8_counterexample)',
 ],
 'trusted': [
  'tools/extract_proto.py (words, limits, defaults, the drop/strict shape of the from_resp element filter, and the '
  'presence of the normalisation loop in the compressed branch of ProxyClusterMeta::parse — it fails loudly without it)',
  'description syntax printer/parser in harness/src/proto_support.rs and lean/UmDriver/Proto.lean',
 ],
}

CHECK = {
 'design_ref': '§6 C17, §7 F8',
 'technique': 'Lean 4 theorems over all metas / token lists (structural induction, no bound) + differential '
              'correspondence of the real encoders/decoders against the compiled Lean model',
 'text': 'Proved for every well-formed cluster meta (any number of nodes, ranges, all tag kinds, peers, any config, any '
         'HashMap iteration order): parse(to_args m) = m; for any meta the plain encoder can express, whatever its range lists look like (BdMeta), '
         'parse(to_args m) = compacted m and, for any lossless codec, parse(to_compressed_args m) ≃ compacted m: both '
         'encodings decode to the same compacted value (the compressed branch normalises since fix 23e5d8f); parse_repl_meta(encode_repl_meta m) = m; a MigrationTaskMeta survives '
         'join(" ")/split(\' \')/from_strings and SwitchArg its command; the descriptor reported for any stored migration entry — by the source (MIGRATING) or the destination (IMPORTING) proxy — is accepted by commit_migration and commits exactly that migration, in every state of every bounded broker run (C17_task_commit, over the broker model with C10/C01 lemmas), tag None is refused. A range token that is not start-end (or a list that ends early) is never skipped: RangeList::parse answers None, in every tag form, and the SETCLUSTER message / task descriptor is rejected (C17_reject_damaged_*). Proved for every token list: whatever parse '
         'accepts is a well-formed value whose own encoding decodes to exactly it (no misparse), truncation inside a '
         'local or peer group, non-numeric epochs/counts, bad tags, bad range tokens and unknown section words are '
         'rejected; RangeList::compact never hits its expect()s and is idempotent. Finding F8 (from_resp / '
         'parse_repl_meta silently drop non-bulk / non-UTF-8 elements) is proved as a counterexample for the present '
         'filter and the full statement for the repaired one. Every run drives the real to_args / to_compressed_args / '
         'parse / from_resp / encode_repl_meta / ReplicatorMeta::from_resp / MigrationTaskMeta / SwitchArg / '
         'parse_switch_command / MigrationStateRespChecker on generated values and on all single-token deletions plus '
         'sampled corruptions, and compares verdict and value with the model line by line; a commit leg builds a real MetaStore with pending migrations (scale-out, scale-down, failover in between), serves every proxy (real get_proxy_by_address), takes each tagged slot range through the INFOMGR string and the real coordinator parser into the real commit_migration from both sides (each migration accepted exactly once, second report MIGRATION_TASK_NOT_FOUND), with the full store compared after every step; and an implementation-only oracle damages ONE range token (or cuts the list) of every real plain SETCLUSTER vector and task descriptor, at every position class, and requires an error.',
 'note': 'Trusted: Lean kernel; hand transliteration (checked differentially each run); generated constants; the Codec '
         'hypothesis; Unicode case tables (swept against Rust each run). Not covered: the executor-side INFOMGR producer (mirrored).',
}
