"""C03 — vcheck configuration (PROP) and MANIFEST claim (CHECK)."""
PROP = {
 'module': 'UmProps.C03',
 'gen_modules': ['MigCmd', 'CmdTables'],
 'streams': [{'name': 'migration', 'harness': 'umh_migration', 'driver': 'migration',
              'timeout': {'quick': 900, 'thorough': 3000}}],
 'search_s': 200,
 'assumptions': [
  'Redis executes each command atomically; RESTORE without REPLACE answers BUSYKEY when the key exists; SCAN '
  'returns every key that is present during the whole iteration (encoded as the guard of the model step scanFinish)',
  'barrier contract of C11: blocking_done is observed only when no command of the source proxy is in flight at the '
  'source Redis, and none reaches it until the handle is dropped (encoded as the guard of blockingDone / route)',
  'max_blocking_time / max_migration_time do not fire, no key expiry during the migration; connection errors are '
  'covered only for the Redis clients of the migrating task (scan loop, UMSYNC fast/slow path: labels syncFault / '
  'scanFault, harness fault plan); backend connections of the proxies never fail in the harness',
  'the coordinator commits only after both proxies report SwitchCommitted',
  'TRUSTED table canDeleteNames (Redis documentation): which supported commands can remove their first key'],
 'gaps': [
  'C03_register (full statement: RegisterStep for every step of every execution, no hypothesis) is FALSE for the '
  'code as it is: proved negation C03_register_full_false_commit_race (F03b, not repaired: needs a design decision). '
  'C03_register_partial carries the single hypothesis GoodStep = the destination installs the committed metadata only '
  'while the key-lock holder of the key owns no DUMP it may still RESTORE; everything else (slow path, all connection '
  'counts, both redirect modes, any number of concurrent ops, spurious slot-mutex contention) is covered. The former '
  'hypothesis about deleting commands outside requires_blocking_migration (F03a) is discharged by '
  'classification_sound / model_classification since fix ddfb301',
  'per-key model: cross-key effects enter only as spurious SlotMutex contention and lock-step scan batches',
  'liveness (every op eventually answers, the scan terminates) is not stated',
  'at-least-once RESTORE: a scan batch whose RESTORE pipeline is reset after some of its RESTOREs ran re-sends all of '
  'them (answered BUSYKEY); this re-send is neither modelled nor injected (the fault plan resets a RESTORE only as '
  'first command of its pipeline)',
  'thorough tier: random + adversarial gate schedules; the exhaustive DFS for 1 key / 3 ops planned in DESIGN was not built',
 ],
 'trusted': [
  'hand-written per-key model UmModel/Migration.lean (tied to the code by trace inclusion on gate-scheduled runs of '
  'the real SharedForwardHandler/MetaManager/migration tasks; internal proxy decisions are matched as tau steps)',
  'fake Redis of the harness (GET/SET/GETSET/DEL/EXISTS/DUMP/PTTL/RESTORE/SCAN/SINTERSTORE)'],
}

CHECK = {
 'design_ref': '§6 C03',
 'technique': 'Lean 4 theorems over a per-key small-step model + trace-inclusion correspondence on gate-scheduled '
              'runs of two real proxies + register-linearizability oracle on the implementation',
 'text': 'partial: proved for the full per-key model (pull path, UMSYNC fast and slow path, scan batches, handshake, '
         'commit, both redirect modes, unordered in-flight commands = every backend_conn_num, unboundedly many '
         'concurrent client ops, UMSYNC answered with an error after a Redis connection of the migrating task failed) that '
         'every step refines an atomic register (linearization point = execution of the '
         'client command; nothing else changes dst<|>src) and that at quiescence after both commits the source is '
         'empty and the destination holds the register content - UNDER one hypothesis that excludes exactly the '
         'remaining defect F03b (a DEL acknowledged after the destination commit is overtaken by the RESTORE of a pull '
         'that started before it; proved as negation of the full statement in the model and reproduced on the real '
         'proxies with the gate scheduler, replay corpus/C03/migration.f03b.ops). classification_sound (every command '
         'that can delete its key requires blocking migration, over the generated table) holds in full since fix '
         'ddfb301 of F03a (the *STORE family), which removed the second hypothesis; corpus/C03/migration.f03a.ops is '
         'the regression case. The model is tied to the code by trace inclusion: every backend command, '
         'proxy-to-proxy command, client reply and task-state change of gate-scheduled runs of two real '
         'SharedForwardHandlers must be a step of the model (tau-closed state sets per key). A failed push never lets the '
         'command through (C03_failed_push_not_executed); the harness injects connection resets into the UMSYNC '
         'PTTL/DUMP pipeline, its RESTORE and DEL, and lets the client retry.',
 'note': 'Trusted: Lean kernel; model transliteration (checked by trace inclusion every run); Redis semantics of '
         'the fake node; canDeleteNames table; C11 barrier contract; SCAN guarantee.',
}
