"""C03 — vcheck configuration (PROP) and MANIFEST claim (CHECK)."""
PROP = {
 'module': 'UmProps.C03',
 'gen_modules': ['MigCmd', 'CmdTables'],
 'streams': [{'name': 'migration', 'harness': 'umh_migration', 'driver': 'migration',
              'timeout': {'quick': 900, 'thorough': 3000}}],
 'search_s': 200,
 'assumptions': [
  'Redis executes each command atomically; RESTORE without REPLACE answers BUSYKEY when the key exists; SCAN '
  'returns every key that is present during the whole iteration (encoded as the guard of the model step scanFinish)',
  'barrier contract of C11: blocking_done is observed only when no command of the source proxy is in flight at the '
  'source Redis, and none reaches it until the handle is dropped (encoded as the guard of blockingDone / route)',
  'max_blocking_time / max_migration_time do not fire, no connection errors, no key expiry during the migration',
  'the coordinator commits only after both proxies report SwitchCommitted',
  'TRUSTED table canDeleteNames (Redis documentation): which supported commands can remove their first key'],
 'gaps': [
  'stage 1 delivered: model + trace-inclusion correspondence + classification theorems + proved negations of the '
  'full statement (F03a, F03b); C03_register_partial (invariant MigInv) is stage 2',
  'per-key model: cross-key effects enter only as spurious SlotMutex contention and lock-step scan batches',
 ],
 'trusted': [
  'hand-written per-key model UmModel/Migration.lean (tied to the code by trace inclusion on gate-scheduled runs of '
  'the real SharedForwardHandler/MetaManager/migration tasks; internal proxy decisions are matched as tau steps)',
  'fake Redis of the harness (GET/SET/GETSET/DEL/EXISTS/DUMP/PTTL/RESTORE/SCAN/SINTERSTORE)'],
}

CHECK = {
 'design_ref': '§6 C03',
 'technique': 'Lean 4 theorems over a per-key small-step model + trace-inclusion correspondence on gate-scheduled '
              'runs of two real proxies + register-linearizability oracle on the implementation',
 'text': 'partial: stage 1. Proved: every deleting command with its own DataCmdType takes the UMSYNC push path '
         '(generated requires_blocking_migration table, BLPOP.. through the rewrite), and exactly '
         'SDIFFSTORE/SINTERSTORE/ZINTERSTORE/ZUNIONSTORE (typed Others) do not (F03a). Proved negations of the '
         'full register statement by two concrete executions, both reproduced on the real code with the gate '
         'scheduler: F03a (pull-path delete resurrected by the scan) and F03b (post-commit DEL overtaken by the '
         'RESTORE of a pull that started before the commit).',
 'note': 'Trusted: Lean kernel; model transliteration (checked by trace inclusion every run); Redis semantics of '
         'the fake node; canDeleteNames table; C11 barrier contract; SCAN guarantee.',
}
