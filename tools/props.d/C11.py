"""C11 — vcheck configuration (PROP) and MANIFEST claim (CHECK)."""
PROP = {
    'module': 'UmProps.C11',
    'gen_modules': [],
    'streams': [{'name': 'barrier', 'harness': 'umh_barrier', 'driver': 'barrier',
                 'timeout': {'quick': 900, 'thorough': 3000}}],
    'assumptions': [
        'sequential consistency: every shared access of src/proxy/blocking.rs and src/common/biatomic.rs is '
        'Ordering::SeqCst, so the interleaving semantics of the model is exact for them',
        'atomic steps = the operations that follow the verif_hook::point calls placed in the source (one '
        'point before every shared access); code between two points is thread-local',
        'the crossbeam unbounded channel is a linearizable FIFO queue (send = push back, try_recv = pop front) '
        'and is never disconnected (both ends are owned by the TaskBlockingQueue)',
        'caller protocol: the theorems C11_barrier_ctrl / C11_pre_block_protocol are about blocking_done() read '
        'while the handle is held (program start; await); the real RedisScanMigratingTask::start() (pre_check, '
        'pre_block, pre_switch, handle.stop()) is driven as controller command B of the threaded harness with a '
        'stand-in peer proxy (OK to PING/PRECHECK/PRESWITCH; PRESWITCH marks "pre_block returned"), tokio '
        'current-thread runtime with paused clock; the scan phase after handle.stop() is not driven',
        'BlockingMap: DashMap::entry is atomic per address (get_or_create is one atomic step of the map '
        'model); a queue dies exactly when its last holder (sender or Arc) is dropped - the map itself and '
        'CachedSenderFactory only hold Weak references; a BlockingHandle is not held beyond its controller',
        'fewer than 2^32 controller threads / live BlockingHandles (u32 blocker count does not wrap); '
        'running_cmd (i64) does not wrap',
        'the inner (backend) sender either accepts a task (keeps the CounterTask until the reply) or answers '
        'Retry(task); a re-dispatch sender that re-enters TaskBlockingQueue::send synchronously (production: '
        'loop_send_cmd_ctx) is over-approximated by a fresh sender thread of the (arbitrary) pool',
    ],
    'gaps': [
        'C11_redisp_timing_partial: "re-dispatched only after blocking stops" is proved under the hypothesis '
        'that no release_all is in progress and no stop_blocking() is pending when the window starts; '
        'without it the clause is false of the code (C11_redisp_timing_full_false, finding F11a)',
        'termination of executions is not a theorem (C11_no_deadlock: every unfinished thread can step; the '
        'only loop is the lock-free CAS retry); no-loss is stated for executions that reach quiescence',
    ],
    'trusted': [
        'hand-written transliteration UmModel/Barrier.lean of blocking.rs/biatomic.rs (checked differentially: '
        'same schedule on the real TaskBlockingQueue under the deterministic scheduler and on step?)',
        'hand-written UmModel/BarrierMap.lean (addr -> registered queue id, liveness = some live holder); '
        'tied to the code by random acquire/drop/drop-all/probe histories on one real BlockingMap: queue '
        'creations are counted at the injected sender factory, queue identity is observed by Arc::ptr_eq and '
        'behaviourally (start_blocking through the controller side must queue a command sent through the '
        'sender side)',
        'harness scheduler umh_barrier (parks OS threads at the hook points; a thread that fails to reach '
        'a point within 20 s aborts the run as a harness failure)',
    ],
}

CHECK = {
    'design_ref': '§6 C11',
    'technique': 'Lean 4 invariant proofs over an interleaving small-step model (all thread pools, all '
                 'schedules) + deterministic-scheduler differential correspondence on the real '
                 'TaskBlockingQueue (DFS with sleep sets / seeded random schedules)',
    'text': 'Proved for every number of sender threads with every BlockingHint, every set of controller '
            'programs (start_blocking / blocking_done / drop / stop_blocking, < 2^32 threads) and every '
            'interleaving of the individual SeqCst operations: (barrier) from any state with running_cmd = 0 '
            'and blocker count > 0 - in particular after a handle holder saw blocking_done() = true - no task '
            'is handed to the backend sender until the count is back to 0; (no loss) running_cmd and the count '
            'are exact, every enqueue is matched by exactly one of queued / popped / re-dispatched, a '
            'task is never both handed and queued, Retry results leave the task untouched with the caller, and '
            'in every quiescent state the queue is empty and each queued task was re-dispatched exactly once; '
            'a Blocking hint is never handed; (caller protocol) the wait loop of pre_block (start_blocking, then '
            'poll blocking_done until true) is left only with the barrier closed, and the program poll-then-start '
            'is shown to break it; (which queue) after any history of acquiring and dropping senders / '
            'controllers on a BlockingMap - including complete release and re-use of an address - live holders '
            'have the same queue iff they have the same address, so the per-queue theorems apply to the '
            'client-path / migration-path pair the proxy actually uses. Known finding F11a: a release_all that outlives its blocking '
            'period re-dispatches commands of the next period while it is still blocking (proved witness; the '
            'timing clause is proved only for windows that start with no release_all in progress).',
    'note': 'Trusted: Lean kernel; SeqCst => interleaving semantics; crossbeam channel as FIFO; model '
            'transliteration (tied to the code by replaying every harness schedule - exhaustive up to '
            'independence for k=2 senders x 1 blocking period and k=1 x 2 periods, sampled beyond - on the '
            'model and diffing every step: events, return values, next hook point, blocking_done(), '
            'get_blocking_state()).',
}
