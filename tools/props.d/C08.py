"""C08 — vcheck configuration (PROP) and MANIFEST claim (CHECK)."""
PROP = {
 'module': 'UmProps.C08',
 'gen_modules': ['BackendConsts'],
 'streams': [
  {'name': 'backend', 'harness': 'umh_backend', 'driver': 'backend'},
  {'name': 'session', 'harness': 'umh_session', 'driver': 'session'},
 ],
 'assumptions': [
  'in-order backend (explicit hypothesis InOrder of C08_exactly_once(4), not an axiom): on one connection the k-th '
  'item read answers the k-th request written on it (an echo of its ids in its shape, or an undecodable item), and '
  'nothing is read when no written request is outstanding; the fake backend of umh_backend behaves so except in the '
  'scripted byzantine classes (unsolicited reply, garbage), where only exactly-once is checked',
  'task ids are unique per run (Nodup hypothesis of the at-most-once / exactly-once parts)',
  'the result handler behaves like ReplyCommitHandler (Ok => set_result(Ok), Err => error reply); the P-mode harness '
  'uses a handler written that way for ReqTask<CmdCtx>',
  'retrying an unanswered request on a fresh connection may execute it more than once (at-least-once); not claimed otherwise',
  'the socket delivers to the client, in order, the bytes that poll_flush managed to write; the model counts '
  'packets, not bytes, and merges the one-item slot of SplitSink into the Framed write buffer',
 ],
 'gaps': [
  'liveness of wake-ups (tokio/futures poll wake-up loss) and the BatchState/flush logic are not modelled: batching '
  'only decides when write/item events occur; the harness exercises Disabled/Fixed/Dynamic',
  'RoundRobinSenderGroup (backend_conn_num > 1) is not modelled: one BackendNode = one queue machine',
 ],
 'trusted': [
  'hand-written transliterations UmModel/BackendConn.lean (handle_backend/handle_conn/handle_conn_err, '
  'ReqTask::set_result, send refusal) and UmModel/Session.lean (handle_session FIFOs, CmdReplySender), both '
  'differentially checked on every run',
  'umh_backend event observation: logging Sink/Stream/ConnFactory wrappers, manual polling of the handle_backend '
  'future on a paused current-thread runtime, mirror of timeout_interval for the pe:<tick> event, copy of the '
  'create_conn codec glue over the scripted socket, copy of RecoverableBackendNode::send refusal handling',
  'tools/extract_backend.py (MAX_BACKEND_RETRY + shape guards of handle_conn_err / handle_conn / handle_backend, '
  'including the connection-lifetime retry count of fix 0e64416 and the empty-queue early return of 24d4705)',
 ],
}

CHECK = {
 'design_ref': '§6 C08',
 'technique': 'Lean 4 theorems over all event sequences of the transliterated queue machines (invariants + induction '
              'on the run) + differential correspondence: real BackendNode/handle_backend over a scripted in-memory '
              'connection and real handle_session over loopback TCP against the compiled models',
 'text': 'Proved for every event sequence of the backend queue machine (any interleaving of enqueues, batching '
         'decisions, reply fragmentation, connection breaks at any point of the write or read side, refused '
         'reconnects, time-outs, shutdown; Simple and Multi tasks): every enqueued task is, with multiplicity, either '
         'still owed a result or has received one; with unique ids no task gets two results; when nothing is owed '
         '(queue closed, retries exhausted, time-out, refused connect) every task has exactly one; under the in-order '
         'backend hypothesis a backend reply delivered to a task carries that task\'s id (FIFO-matching invariant: the '
         'i-th unanswered task is the i-th outstanding request of the current connection); every result not produced by '
         'reading a backend item is an error; Multi replies are zipped, any shape mismatch is InnerError for all. '
         'Session: for every event sequence the packets written to the client followed by those queued are exactly '
         'the owed replies of requests 0..k-1 in request order, one each, the rest wait in order; a live session with '
         'all requests completed writes exactly one reply per request; CmdReplySender delivers the first value sent '
         'or Dropped. No reply byte is left behind (C08_session_flush): for every poll-structured run (any number of '
         'requests per poll, any socket capacity per poll, any backpressure boundary) a reply still in the write '
         'buffer or still queued implies that the latest poll ended in a Pending flush, i.e. the session is registered '
         'for socket writability and flushes again; a session not waiting for the socket has put every popped reply '
         'on the socket, and a poll with enough socket room completes the flush. Never silence (C08_retry_bounded, after fix 0e64416 of finding F08b): the retry level is at most '
         'MAX_BACKEND_RETRY, never drops while a task is held and grows by one per connection failure, so a held '
         'request sees at most 1 + MAX_BACKEND_RETRY exchanges before the failure at the top level (or any time-out) '
         'answers every held task with an error; a failure with no held task carries no count over '
         '(C08_idle_failure_keeps_budget, fix 24d4705). Tied to the code by replaying, poll by poll, the events observed at the '
         'ConnFactory/Sink/Stream boundary of the real handle_backend (byte-level scripted socket under the real '
         'RespCodec with arbitrary write capacity, reply fragmentation, stalls, break before/after any request or '
         'reply byte, refused connects, batching Disabled/Fixed/Dynamic, paused clock; packet-level Multi fan-out '
         'and wrong shapes) and the replies read by a TCP client of the real handle_session (pipelines of 1-200 '
         'requests, split writes, out-of-order completions, drops, double sends, half-close, idle time-out; write '
         'backpressure: SO_SNDBUF/SO_RCVBUF of 2-8 KiB or kernel defaults, replies of 64 KiB - 4 MiB mixed with small '
         'ones, a client that starts reading late in small chunks with pauses and sends nothing more - every reply '
         'must arrive completely, a reply prefix followed by 3 s without a byte is silence).',
 'note': 'Trusted: Lean kernel; model transliterations (checked differentially every run); harness event observation. '
         'At-least-once execution on retry is allowed by the property. backend_conn_num > 1 (round robin over '
         'several BackendNodes) is outside the model. Finding F08b (unbounded retry) fixed in /repo by 0e64416 + 24d4705; '
         'tools/extract_backend.py pins the repaired shape and corpus/C08/backend.f08b.ops is the regression case.',
}
