"""C13 — vcheck configuration (PROP) and MANIFEST claim (CHECK)."""
PROP = {
    "module": "UmProps.C13",
    "gen_modules": ["ChunkTables", "Consts", "EpochRecovery"],
    "oracle_prefix": "C13",
    "streams": [{"name": "broker", "harness": "umh_broker", "driver": "broker",
                 "timeout": {"quick": 900, "thorough": 6000}},
                {"name": "recover", "harness": "umh_recover", "driver": "broker"},
                {"name": "http", "harness": "umh_http", "driver": "broker"}],  # the shared thorough stream needs ~15 min unloaded, far more when
                                                                 # several broker checks run concurrently
    "search_s": 300,
    "assumptions": [
        "E is the largest epoch installed on any proxy: fetch_max_epoch takes the maximum over the proxies that "
        "answer UMCTL GETEPOCH within 1 s; proxies it lists as failed are assumed not to hold a larger epoch "
        "(the API returns them so that the operator can re-run recovery)",
        "the snapshot the restarted broker loads is a state reachable by broker operations (any prefix of any history)",
        "epochs do not wrap (u64; modelled as Nat)",
        "both modes of MetaStore (enable_ordered_proxy off/on; the snapshot carries the mode); allocation choices as in C01/C04",
    ],
    "gaps": [
        "re-convergence ('after the next sync rounds all reachable proxies adopt the recovered view and the routing "
        "guarantees hold again') is not proved here: it needs the proxy acceptance rule (C05) and the coordinator "
        "rounds (C07); this check delivers their premise (every served epoch > E, BrokerInv carried over)",
        "re-convergence after recovery is proved in C07 (C07_reconverge_after_recovery)",
    ],
    "trusted": [
        "hand-written transliteration of MetaStore::recover_epoch / force_bump_all_epoch (UmModel/Broker.lean, "
        "replayed against the real MetaStore on every run) and of MetaStore::restore (UmProps/C13.lean `restore`; "
        "its guards and the call-chain increments are re-extracted from src/broker/{service,storage,external,store}.rs "
        "by tools/extract_epoch.py, which fails when their shape changes)",
    ],
}

CHECK = {
    "text": "Proved for every reachable broker state s taken as the snapshot (any prefix of any history, mid-migration "
            "and mid-failover included) and every E (largest epoch held by any proxy), with s' = the result of "
            "MemBrokerService::recover_epoch (= MetaStore::recover_epoch(E+1+1), increments generated from the source): "
            "E < s'.global_epoch, the global epoch grew, every cluster epoch equals the global epoch; 'global epoch and "
            "all cluster epochs >= K' is preserved by every broker operation, hence every view served by s' or by any "
            "state reached from s' by further operations (get_proxy_by_address and get_cluster_by_name, any "
            "migration_limit) carries an epoch > E; s' is itself a reachable state, so EpochInv and all C04 theorems hold "
            "for the recovered broker; recovery changes nothing but the global and cluster epochs, so every invariant "
            "that does not read them (ResInv, PosInv, TwinInv, SlotInv) is carried over and BrokerInv is preserved; "
            "MetaStore::restore (version guard, SmallEpoch guard) never lowers the global epoch when it accepts, "
            "changes nothing when it rejects, and restore followed by recovery gives the same guarantee. Tie to the "
            "code: the recover oracle is evaluated on the real MetaStore after every recover op of the broker stream.",
    "design_ref": "§6 C13",
    "note": "Trusted: Lean kernel; broker model (validated differentially each run); extractor for the +1 chain and the "
            "restore guards. Not covered: proxy-side adoption and coordinator rounds (C05/C07), fetch_max_epoch over "
            "TCP, proxies that do not answer. Observation: restore alone guards only the global epoch (an equal global "
            "epoch with older cluster epochs is accepted); monotonicity of served epochs on the replica path relies on "
            "running epoch recovery afterwards, as docs/mem_broker_replica.md prescribes.",
    "technique": "Lean 4 invariant proofs over the broker state-machine model + generated constants for the recovery "
                 "call chain + differential correspondence with the real MetaStore",
}
