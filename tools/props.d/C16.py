"""C16 — vcheck configuration (PROP) and MANIFEST claim (CHECK)."""
PROP = {
 'module': 'UmProps.C16',
 'gen_modules': ['HostileCfg', 'CmdTables', 'Consts'],
 'streams': [
  {'name': 'hostile_inproc', 'harness': 'umh_hostile', 'driver': 'hostile', 'args': ['--mode', 'inproc']},
  {'name': 'hostile', 'harness': 'umh_hostile', 'driver': 'hostile', 'args': ['--mode', 'child'],
   'timeout': {'quick': 3600, 'thorough': 7200}},
 ],
 'assumptions': [
  'size_of::<RespIndex>() = 32 and usize = 64 bits (x86-64); the element size is measured by the harness and passed '
  'to the model, the theorems are parametric in it',
  'cost semantics: allocRequested = sum of Vec::with_capacity arguments x element size (array.push never '
  'reallocates: capacity >= pushes); steps = bytes examined by memchr/btoi + parse_resp activations + loop '
  'iterations + nodes visited by every advance(); the allocation part is checked byte-exactly against a counting '
  'global allocator on every run, the step part is an annotation of the transliterated control flow',
  'every (sub-)command handed to the routing layer is answered exactly once (property C08); handlers of UMCTL / '
  'CLUSTER / CONFIG / COMMAND / UMSYNC are outside the handler model (exercised through the child process only; of '
  'UMCTL SETCLUSTER only RangeMap::from of a tagged range is modelled)',
  'buffers are shorter than isize::MAX / 32 bytes; commands have fewer than 2^64 - 3 arguments',
  'the UMCTL parsers (SETCLUSTER, SETREPL, switch commands) are not re-modelled here (c17 / C05 own them): C16 pins their '
  'memory reservations by extractor (only Vec::with_capacity(arr.len() - 2) and the RangeMap flags; anything sized by a '
  'client-declared count is refused) and models the counted item loops and gen_node_id only; the parsers themselves are '
  'run in-process on hostile arguments (no panic, requested bytes <= 64*argument bytes + 256 KiB) and through the child',
  'btoi 0.4.2 / atoi 1.0 / str::parse::<usize> / str::from_utf8 grammars as transliterated (btoi, parse::<usize> '
  'and from_utf8 are checked differentially; atoi::<usize> of UMCTL SLOWLOG GET is not)',
 ],
 'gaps': [
  'the *_cur theorems instantiate the full statements at the switch values the extractor reads from /repo/src on '
  'every run (capRemaining, maxNesting = 128, numkeysBounded, blockingEmptyGuard, slowlogBoundarySafe, '
  'rangeMapBounded, compressedCompact): reverting a fix makes them fail to build; the _partial / _full_false '
  'theorems are statements about the other switch values (the tree before the fixes) and stay as documentation',
  'C16_steps: one parse_resp call is linear only through the nesting limit (2*(M+1)*(n+1), M = 128); re-parsing an '
  'incomplete buffer after every received byte is quadratic by design (C16_steps_reparse)',
  'compressed SETCLUSTER: not re-modelled as a parser; the extractor pins that the textual-only parser '
  '(NodeMap::parse_tagged_slot_range) validates nothing the serde form would skip, and both consumers of a range list '
  '(RangeMap::from, SlotMapData::new) are proved bounded for arbitrary lists (C16_rangemap_cur, C16_slotmap_cur)',
  'stack depth: recursion height <= MAX_NESTING + 1 is proved; that this fits the 2 MiB worker stack is measured '
  '(the frame size is not modelled)',
  'runtime part (RSS, wall time, "other connections keep being served", allocator and tokio behaviour) is measured '
  'by the child-process stream as supporting evidence, not proved',
 ],
 'trusted': [
  'umh_hostile child-process driver (segmentation of the input with the real decoder, 5 s stall threshold, '
  '/proc/<pid>/status RSS, stderr scan for panics), the fake nil-answering backend',
 ],
}

CHECK = {
 'design_ref': '§6 C16, §7 F4 F5',
 'technique': 'Lean 4 theorems over all byte strings / argument vectors on a cost-instrumented parser and '
              'executor model + differential correspondence (in-process real decoder with a counting allocator; '
              'the real server_proxy binary as a child process)',
 'text': 'Proved (Lean 4, induction on the parser) for the code variant the extractor finds in /repo/src (capacity '
         'capped by the bytes left, nesting limit M = 128, numkeys <= argc, empty sub-command list answered, slow-log '
         'truncation on a char boundary, total RangeMap::from, compressed SETCLUSTER compacted): one parse_resp call '
         'requests at most 32*(M+1)*(n+1) bytes, takes at most 2*(M+1)*(n+1) steps and recurses at most M+1 deep; no '
         'decode call and no connection byte stream ends in a panic; no modelled handler (EVAL/EVALSHA numkeys, '
         'blocking arity/timeout/keys, UMFORWARD, MSET/MGET/DEL/EXISTS, SLOWLOG GET, slow-log record, command-name '
         'scan, ClusterName (ASCII-only, so gen_node_id never cuts inside a character), counted item loops of the UMCTL '
         'parsers (nothing reserved by a declared count), RangeMap of a tagged SETCLUSTER range) panics or leaves a request unanswered, and its '
         'iterations are <= 6*argument bytes + 2*argc + 1 (<= 16384 per slot range). The seven defects this check '
         'found (F4 alloc abort, F5 EVAL spin, F16a blocking wedge, F16b stack overflow, F16c slow-log panic, F16d/F16e '
         'SETCLUSTER range panic / spin under the metadata lock) are fixed in /repo; their inputs are regression cases '
         'and their old behaviour stays proved about the old switch values. The model is tied to the code by '
         'source-derived switches/tables and by running every generated input through the real decoder (allocation '
         'measured byte-exactly) and through the real binary (reply / close / pending / abort / stall, RSS, wall time), '
         'including a control-plane family: every UMCTL / CONFIG / CLUSTER / UMFORWARD / UMSYNC / COMMAND form with one field '
         'at a time replaced by boundary numbers, names and addresses, each followed by CLUSTER NODES / SLOTS, UMCTL INFO / '
         'GETEPOCH / INFOREPL / INFOMGR and data commands on the same and on a second connection; routing keys with every '
         'brace pattern in every key-carrying command; CONFIG SET of every field of set_value (read from the source) x boundary '
         'values followed by ordinary traffic on the same, an established and a fresh connection; negative bulk / array '
         'lengths other than -1 at every position; every hostile slot-range shape on local / peer / tagged ranges both in the '
         'textual and in a well-formed COMPRESS SETCLUSTER, each followed by a second SETCLUSTER from another connection.',
 'note': 'Trusted: Lean kernel; cost annotation of steps; child-process observer. Not covered: accept-loop fd '
         'exhaustion, gzip/zstd bombs, UMCTL admin commands as an attack surface (SHUTDOWN, CONFIG SET).',
}
