"""C16 — vcheck configuration (PROP) and MANIFEST claim (CHECK)."""
PROP = {
 'module': 'UmProps.C16',
 'gen_modules': ['HostileCfg', 'RespCfg', 'CmdTables', 'Consts'],
 'streams': [
  {'name': 'hostile_inproc', 'harness': 'umh_hostile', 'driver': 'hostile', 'args': ['--mode', 'inproc']},
  {'name': 'hostile', 'harness': 'umh_hostile', 'driver': 'hostile', 'args': ['--mode', 'child'],
   'timeout': {'quick': 3600, 'thorough': 7200}},
 ],
 'assumptions': [
  'size_of::<RespIndex>() = 32 and usize = 64 bits (x86-64); the element size is measured by the harness and passed '
  'to the model, the theorems are parametric in it',
  'cost semantics: allocRequested = sum of Vec::with_capacity arguments x element size (array.push never '
  'reallocates: capacity >= pushes); steps = bytes examined by memchr/btoi + parse_resp activations + loop '
  'iterations + nodes visited by every advance(); the allocation part is checked byte-exactly against a counting '
  'global allocator on every run, the step part is an annotation of the transliterated control flow',
  'every (sub-)command handed to the routing layer is answered exactly once (property C08); handlers of UMCTL / '
  'CLUSTER / CONFIG / COMMAND / UMSYNC are outside the handler model (they are exercised through the child '
  'process only)',
  'buffers are shorter than isize::MAX / 32 bytes; commands have fewer than 2^64 - 3 arguments',
  'btoi 0.4.2 / atoi 1.0 / str::parse::<usize> / str::from_utf8 grammars as transliterated (btoi, parse::<usize> '
  'and from_utf8 are checked differentially; atoi::<usize> of UMCTL SLOWLOG GET is not)',
 ],
 'gaps': [
  'C16_alloc (linear allocation bound) is proved for the parser variant with f4.diff + f16b.diff; on the current '
  'tree it is false (F4: C16_alloc_full_false) and C16_alloc_partial holds under the guard "no array header '
  'declares more elements than bytes remain" with a bound linear in input x nesting height',
  'C16_total is proved for the variants with f5.diff / f16a.diff / f16c.diff (handlers) and f4.diff (decoder); on '
  'the current tree the decoder panics on *9223372036854775807 (F4), BLPOP <non-bulk> k t is never answered (F16a) '
  'and the slow log can panic on a char boundary (F16c): C16_total_full_false, C16_total_decode_full_false',
  'C16_steps: the parser bound is quadratic per parse_resp call (advance re-walks the sub-tree per nesting level) '
  'and linear only with the nesting limit of f16b.diff; the handler bound needs numkeys <= argc (f5.diff), false '
  'on the current tree (F5: C16_steps_handlers_full_false)',
  'stack depth: recursion height is linear in the input without f16b.diff; the overflow itself (F16b) is '
  'measured on the real binary, not proved (the frame size is not modelled)',
  'runtime part (RSS, wall time, "other connections keep being served", allocator and tokio behaviour) is measured '
  'by the child-process stream as supporting evidence, not proved',
 ],
 'trusted': [
  'umh_hostile child-process driver (segmentation of the input with the real decoder, 5 s stall threshold, '
  '/proc/<pid>/status RSS, stderr scan for panics), the fake nil-answering backend',
 ],
}

CHECK = {
 'design_ref': '§6 C16, §7 F4 F5',
 'technique': 'Lean 4 theorems over all byte strings / argument vectors on a cost-instrumented parser and '
              'executor model + differential correspondence (in-process real decoder with a counting allocator; '
              'the real server_proxy binary as a child process)',
 'text': 'Proved (Lean 4, induction on the parser): one parse_resp call requests at most 32*(n+1)*height bytes '
         'when no header over-declares, takes at most 2*(n+1)*height steps, height <= n+1; with the capacity cap '
         '(f4.diff) and the nesting limit M (f16b.diff): alloc <= 32*(M+1)*(n+1), steps <= 2*(M+1)*(n+1), no '
         'decode call and no connection stream ends in a panic; with f5/f16a/f16c.diff no modelled handler '
         '(EVAL/EVALSHA numkeys, blocking arity/timeout, UMFORWARD, MSET/MGET/DEL/EXISTS, SLOWLOG GET, slow-log '
         'record, command-name scan, ClusterName) panics or leaves a request unanswered and its iterations are '
         '<= 6*argument bytes + 2*argc + 1. On the current tree the full statements are refuted by proved '
         'witnesses and shown on the real server_proxy binary: F4 (*99999999999 aborts the process), F5 (EVAL s '
         '10^18 k spins a worker), F16a (BLPOP <nil> k 1 never answered), F16b (56 KB of nested arrays overflow '
         'the worker stack: SIGABRT), F16c (slow-log truncation panics). The model is tied to the code by '
         'source-derived switches/tables and by running every generated input through the real decoder (allocation '
         'measured byte-exactly) and through the real binary (reply / close / pending / abort / stall).',
 'note': 'Trusted: Lean kernel; cost annotation of steps; child-process observer. Not covered: accept-loop fd '
         'exhaustion, zstd bombs in replies, UMCTL admin commands as an attack surface (SHUTDOWN, CONFIG SET).',
}
