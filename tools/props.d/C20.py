"""C20 — vcheck configuration (PROP) and MANIFEST claim (CHECK)."""
PROP = {
    'module': 'UmProps.C20',
    'gen_modules': ['CompressTable'],
    'streams': [{'name': 'compress', 'harness': 'umh_compress', 'driver': 'compress',
                 'timeout': {'quick': 600, 'thorough': 2400}}],
    'assumptions': [
        'zstd is abstracted by a Codec whose only law is dec (enc v) = some v (structure field, not an axiom); '
        'zstd::encode_all on an in-memory buffer does not fail',
        'client requests are arrays of bulk strings; all proxies hold the same slot->owner map (consistent '
        'metadata), no migration in progress, no password, backend replies arrive (no connection failure)',
        'the backend is a string-only key-value stand-in whose replies to write forms other than GETSET carry no '
        'stored value (Redis <= 6.0 SET; the 6.2 `SET .. GET` option, GETDEL, GETEX, SUBSTR, LCS are '
        'DataCmdType::Others for the proxy and outside the supported families)',
        'sequential semantics: sub-commands of MGET/MSET/MSETNX are issued in order (MSETNX groups: the code '
        'iterates a HashMap, the model uses first-appearance order; observable only in the order of the backend '
        'log, which is compared as a sorted multiset)',
    ],
    'gaps': [
        'not modelled: multi-key DEL/EXISTS, blocking commands, EVAL/EVALSHA, non-data commands, requests with '
        'non-bulk elements, compression while a slot is migrating (MigrationBackend paths), strategy change on live data',
        'a command carrying the internal UMFORWARD mark is trusted (not re-checked against the restricted list, not '
        'compressed): C20_restricted_refused and C20_transparent speak about commands sent by clients, and UMFORWARD '
        'itself is not a Supported client command',
    ],
    'trusted': [
        'UmModel/Compress.lean is a hand transliteration (tables, dispatch arms, error mapping and constants are '
        'generated; shapes of the transliterated functions are pinned by tools/extract_compress.py)',
        'the fake Redis of harness/src/compress_support.rs and redisExec of the model are the same stand-in written '
        'twice (differentially compared on every run)',
        'harness mapping real zstd frames <-> toy frames (real_to_toy / toy_to_real): stored bytes are only ever '
        'compared through decode',
    ],
    'search_s': 200,
}

CHECK = {
    'design_ref': '§6 C20, §7 F10 (fixed 04a2318)',
    'technique': 'Lean 4 theorems (simulation against the compression-disabled cluster, unbounded command '
                 'sequences, any codec/layout/strategy) + differential correspondence (two real ForwardHandlers, '
                 'storing fake Redis, real zstd) + property oracle on the implementation',
    'text': 'Proved for every lawful codec, enabled strategy, slot/owner layout, redirection mode (client-followed MOVED '
            'or active redirection with UMFORWARD hops), hop budget and sequence of supported commands (SET+any options, '
            'SETEX, PSETEX, SETNX, GETSET, MSET, MSETNX, GET, MGET, pass-through commands) sent to arbitrary proxies '
            '(C20_transparent, full statement): client replies equal those of the same cluster with compression disabled, '
            'stores hold exactly enc(plain store), backends receive exactly the rewritten commands (only value positions '
            'changed; keys, options, ttl arguments untouched); non-bulk replies are never altered; in set_get_only every '
            'string command that inspects value bytes is refused before routing. F10 (forwarded writes compressed '
            'twice) was found by this check, fixed in repo commit 04a2318 and is kept as a regression corpus case; the '
            'oracle now treats any double compression as a violation. Model tied to the code by generated tables, '
            'shape pins of the transliterated functions, and by replaying corpus + generated command sequences '
            'through two real ForwardHandlers with real zstd.',
    'note': 'Trusted: Lean kernel; Codec law as the only fact about zstd; hand transliteration of the executor/'
            'manager control flow (differentially checked: replies, backend command logs, logical store contents); '
            'consistent cluster metadata; no migration; commands carrying the UMFORWARD mark come from peer proxies.',
}
