"""C20 — vcheck configuration (PROP) and MANIFEST claim (CHECK)."""
PROP = {
    'module': 'UmProps.C20',
    'gen_modules': ['CompressTable'],
    'streams': [{'name': 'compress', 'harness': 'umh_compress', 'driver': 'compress',
                 'timeout': {'quick': 600, 'thorough': 2400}}],
    'assumptions': [
        'zstd is abstracted by a Codec whose only law is dec (enc v) = some v (structure field, not an axiom); '
        'zstd::encode_all on an in-memory buffer does not fail',
        'client requests are arrays of bulk strings; all proxies hold the same slot->owner map (consistent '
        'metadata), no migration in progress, no password, backend replies arrive (no connection failure)',
        'the backend is a string-only key-value stand-in whose replies to write forms other than GETSET carry no '
        'stored value (Redis <= 6.0 SET; the 6.2 `SET .. GET` option, GETDEL, GETEX, SUBSTR, LCS are '
        'DataCmdType::Others for the proxy and outside the supported families)',
        'sequential semantics: sub-commands of MGET/MSET/MSETNX are issued in order (MSETNX groups: the code '
        'iterates a HashMap, the model uses first-appearance order; observable only in the order of the backend '
        'log, which is compared as a sorted multiset)',
    ],
    'gaps': [
        'C20_transparent (full statement: writes at any proxy under active redirection) is FALSE on the current '
        'code (F10, proved: C20_transparent_false); C20_transparent_partial covers every redirection mode provided '
        'that, when active redirection is on, write forms are sent to the proxy owning their keys (reads anywhere)',
        'not modelled: multi-key DEL/EXISTS, blocking commands, EVAL/EVALSHA, non-data commands, requests with '
        'non-bulk elements, compression while a slot is migrating (MigrationBackend paths), strategy change on live data',
    ],
    'trusted': [
        'UmModel/Compress.lean is a hand transliteration (tables, dispatch arms, error mapping and constants are '
        'generated; shapes of the transliterated functions are pinned by tools/extract_compress.py)',
        'the fake Redis of harness/src/compress_support.rs and redisExec of the model are the same stand-in written '
        'twice (differentially compared on every run)',
        'harness mapping real zstd frames <-> toy frames (real_to_toy / toy_to_real): stored bytes are only ever '
        'compared through decode',
    ],
    'search_s': 200,
}

CHECK = {
    'design_ref': '§6 C20, §7 F10',
    'technique': 'Lean 4 theorems (simulation against the compression-disabled cluster, unbounded command '
                 'sequences, any codec/layout/strategy) + differential correspondence (two real ForwardHandlers, '
                 'storing fake Redis, real zstd) + property oracle on the implementation',
    'text': 'Proved for every lawful codec, enabled strategy, slot/owner layout, hop budget and sequence of supported '
            'commands (SET+any options, SETEX, PSETEX, SETNX, GETSET, MSET, MSETNX, GET, MGET, pass-through commands) '
            'sent to arbitrary proxies: client replies equal those of the same cluster with compression disabled, stores '
            'hold exactly enc(plain store), backends receive exactly the rewritten commands (only value positions '
            'changed; keys, options, ttl arguments untouched); non-bulk replies are never altered; in set_get_only '
            'every string command that inspects value bytes is refused before routing (also inside UMFORWARD). '
            'Restriction: with active redirection, writes must be issued at the owner proxy — the unrestricted '
            'statement is proved FALSE (known finding F10: forwarded writes are compressed twice; reproduced on the '
            'real handlers with real zstd, fix proposed in .build/patches/f10.diff). Model tied to the code by '
            'generated tables and by replaying corpus + generated command sequences through the real handlers.',
    'note': 'Trusted: Lean kernel; Codec law as the only fact about zstd; hand transliteration of the executor/'
            'manager control flow (differentially checked: replies, backend command logs, logical store contents); '
            'consistent cluster metadata; no migration. F10 is reported as KNOWN-FINDING until the patch is applied; '
            'after applying it the model (handleSingle, sendCmd, handleMsetnx) must follow and C20_transparent becomes provable.',
}
