"""C04 — vcheck configuration (PROP) and MANIFEST claim (CHECK)."""
PROP = {
    "module": "UmProps.C04",
    "gen_modules": ["ChunkTables", "Consts"],
    "oracle_prefix": "C04",
    "streams": [{"name": "broker", "harness": "umh_broker", "driver": "broker",
                 "timeout": {"quick": 900, "thorough": 9000}},  # the shared thorough stream needs ~15 min unloaded, far more when
                                                                # several broker checks run concurrently
                # the same model against the broker's HTTP API (warp routes + JSON, the coordinator's HTTP clients): notes/http.md
                {"name": "http", "harness": "umh_http", "driver": "broker"}],
    "search_s": 300,
    "assumptions": [
        "both modes of MetaStore are modelled (enable_ordered_proxy = false / true; a history of an ordered-mode broker starts with the pseudo-operation Op.setOrdered, see notes/ordered.md); about a quarter of the generated cases run MetaStore::new(true)",
        "HashMap-order dependent allocation choices are fed from the implementation and validated by the model's "
        "allowed-set check; the epoch theorems hold for every choice, allowed or not",
        "epochs do not wrap (u64; modelled as Nat)",
        "MetaStore::restore (PUT /metadata) is not one of the operations quantified over (see C13)",
        "the migration_limit is the same at the two observation points compared (it is a broker start-up option)",
    ],
    "gaps": [],
    "trusted": [
        "hand-written transliteration UmModel/Broker.lean + BrokerView.lean of every MetaStore mutator and of "
        "get_proxy_by_address (replayed against the real MetaStore after every op on every run)",
    ],
}

CHECK = {
    "text": "Proved for every state reachable by any sequence of broker operations (all MetaStore mutators incl. "
            "the node-number convenience API, commits, failovers, failure reports, force_bump_all_epoch and "
            "recover_epoch; any allocation choice, any argument), every address and every migration_limit: the global "
            "epoch never decreases (for any store at all); cluster epochs never exceed the global epoch and migration "
            "epochs never exceed their cluster's epoch; cluster names stay unique; one operation leaves the cluster "
            "registered under a name unchanged, or removes it while bumping the global epoch, or writes a cluster whose "
            "epoch lies in (old global, new global]; the epoch of the view served to an address never decreases from "
            "one operation to the next nor between any two points of a history (also across unregister/re-register), "
            "and whenever the served view differs in anything but the epoch the epoch is strictly larger; an address "
            "that is registered again is served an epoch above every epoch served for it (or anyone) before; hence a "
            "receiver that installs only strictly newer epochs and is offered the current view holds exactly the "
            "current view. Tie to the code: the model is replayed against the real MetaStore on every run and the "
            "two-state epoch oracle (incl. the ghost map of the largest epoch ever served per address) is evaluated on "
            "the implementation's served views after every operation. Stream 'http' repeats both one layer up, on the views, "
            "GET /epoch and GET /metadata served by a real run_server(MemBrokerService) through the coordinator's HTTP clients "
            "(incl. PUT /epoch/<n>, PUT /epoch/recovery, the composite auto-scale endpoint and the PUT /metadata guards).",
    "design_ref": "§6 C04",
    "note": "Trusted: Lean kernel; hand-written broker model (validated differentially each run); both proxy-allocation modes "
            "modelled; restore excluded here (C13). Observation (not a violation): the written cluster's epoch is not "
            "always the new global epoch - auto_change_node_number that frees nodes and then fails in "
            "migrate_slots_to_scale_down leaves cluster epoch G+1 under global epoch G+2 and returns an error although "
            "the store changed (proved as C04_cluster_frame_not_exact, replay corpus/C04/broker.changenum.ops).",
    "technique": "Lean 4 invariant + frame proofs over the broker state-machine model (induction over operation "
                 "sequences) + differential correspondence with the real MetaStore",
}
