"""C05 — vcheck configuration (PROP) and MANIFEST claim (CHECK)."""
PROP = {
 'module': 'UmProps.C05',
 'gen_modules': ['MetaConsts'],
 'streams': [
  {'name': 'setmeta', 'harness': 'umh_setmeta', 'driver': 'setmeta', 'timeout': {'quick': 300, 'thorough': 1500}},
  {'name': 'setmeta_conc', 'harness': 'umh_setmeta_conc', 'driver': 'setmeta_conc',
   'timeout': {'quick': 300, 'thorough': 1500}},
  {'name': 'setrepl', 'harness': 'umh_setrepl', 'driver': 'setrepl', 'timeout': {'quick': 300, 'thorough': 3000}},
 ],
 'assumptions': [
  'set_meta, sequential model (UmModel/ProxyMeta): everything after the host check runs under MetaManager.lock '
  '(tools/extract_setmeta.py checks on every run that the epoch test and both stores sit inside the locked section, '
  'that the host check precedes the lock, and reads the comparison operator and the store order from the source); '
  'this is no longer only assumed: UmModel/SetMetaConc models the mutex as a shared variable and C05_cluster_concurrent '
  'proves every interleaving equivalent to the sequential machine in lock-acquisition order',
  'set_meta, concurrent model: the steps of a caller are the code between two of the six scheduling points of hook H4 '
  '(setmeta.check_hosts, .lock, .epoch_test, .map_store, .epoch_store, .unlock; the extractor checks their order and that '
  'each sits directly in front of the access it names); a thread released at setmeta.lock while another thread is inside '
  'the locked section would block in parking_lot::Mutex::lock and reach no point: that step does not exist in the model '
  'and the scheduler never releases such a thread; meta_map (ArcSwap) and epoch (SeqCst atomic) are read lock-free by the '
  'controller between steps',
  'update_replicators: the atomic steps of a caller are exactly the four shared accesses preceded by the scheduling '
  'points repl.updating_load / repl.updating_store / repl.read_lock / repl.write_lock (the extractor checks that these '
  'are the only accesses to updating_epoch and replicators and that each point directly precedes its access); the '
  'write-locked section is one step because replicators cannot change while the lock is held and the section makes at '
  'exactly one access to updating_epoch (a store in either branch; the store after the install, fix be85753, has no '
  'scheduling point of its own and belongs to the repl.write_lock step); SeqCst atomics and parking_lot locks give a total order of these steps',
  'the content of a SETCLUSTER message (cluster name, local/peer slot maps, config) is an opaque value in the model; '
  'the harness measures it as a routing fingerprint on a scratch proxy that has seen only this message',
  'a replicator record is its metadata (role, cluster, node address, peers); HashMaps are association lists compared as '
  'sorted sets',
  'reading of the property for concurrent SETREPL delivery: an OLD_EPOCH answer is justified when its epoch is <= the '
  'epoch installed at quiescence (a caller refused because a newer message is already in flight)',
 ],
 'gaps': [
  'C05_repl covers all flags: host rule, justification of every OLD_EPOCH at the moment it is answered, and health '
  '(updating_epoch <= installed) at quiescence hold for every interleaving including forced callers; the clauses '
  '"installed epoch never decreases" and "final installed = max delivered" (C05_repl_max) are stated for executions '
  'without forced callers, as the property text does (a forced message may lower the epoch by design)',
  'migration tasks carried by a SETCLUSTER message (created/reused by create_new_migration_map from the previous '
  'snapshot) are outside the model; generated messages carry no migration tags',
  'the replicator tasks spawned after an install (their Redis traffic) are not modelled (DESIGN: not covered)',
  'UMCTL SETREPL parsing is C17\'s; the setrepl stream calls ReplicatorManager::update_replicators directly '
  '(the executor\'s reply mapping for SETREPL is tied by generated constants only)',
 ],
 'trusted': [
  'tools/extract_setmeta.py (reply strings, comparison operators, store order, scheduling-point names, shape checks)',
  'the deterministic schedulers of harness/src/bin/umh_setrepl.rs and umh_setmeta_conc.rs (one OS thread runs between '
  'two scheduling points; lock ownership tracked as "released from setmeta.lock and not yet returned")',
  'routing fingerprint = hash of the replies to 7 probe keys + UMCTL LISTCLUSTER (two contents that route these probes '
  'identically are not distinguished)',
 ],
}

CHECK = {
 'design_ref': '§6 C05, Appendix A (Proxy)',
 'technique': 'Lean 4 theorems (sequential machine for SETCLUSTER; interleaving semantics with unbounded thread pool and '
              'one numeric invariant for SETREPL) + differential correspondence: real ForwardHandler/MetaManager and real '
              'ReplicatorManager under a deterministic OS-thread scheduler vs the compiled Lean step functions',
 'text': 'SETCLUSTER, proved for every message list: the reply is OK/WARNING iff the local nodes are on the announce host '
         'and (FORCE or epoch > installed), ERR_NOT_MY_META iff a local address is foreign or malformed (FORCE does not '
         'help), OLD_EPOCH otherwise; the installed epoch never decreases along a non-forced suffix; the reported epoch '
         'and the routing snapshot are always those of one and the same accepted message; between the two stores a '
         'reader sees the new snapshot with the old epoch, never the reverse, and a reader that loads the epoch first '
         '(handle_switch) never gets a snapshot older than that epoch. Concurrent SETCLUSTER, proved without assuming the mutex '
         '(it is a shared variable of the model): every interleaving of any number of callers over the six scheduling '
         'points of set_meta is linearizable at lock acquisition - replies and final (epoch, snapshot) are those of the '
         'sequential machine run over the callers in the order in which they took the lock, so every OK was forced or '
         'strictly newer at its linearization point and the epoch never decreases without force, not even inside a '
         'critical section. SETREPL, proved for all interleavings of any '
         'number of non-forced callers of update_replicators from any healthy state: the installed epoch never '
         'decreases, every OK was installed when its epoch exceeded the installed one, at quiescence the installed epoch '
         'is the maximum of the previous one and of all delivered epochs whose hosts match (so every OLD_EPOCH is '
         'justified), NOT_MY_META iff foreign host, and updating_epoch <= installed again; sequential delivery is exact '
         'for all flags; the installed epoch and roles always come from one caller and, for a message listing no node in '
         'both roles, depend on that message alone. partial: with a forced message racing another caller the property '
         'is false of the code (finding F05a, proved witness + replay). Every run replays generated SETCLUSTER sequences '
         '(replies, UMCTL GETEPOCH, routing probes), concurrent SETCLUSTER schedules (2-3 OS threads parked at the six '
         'points of set_meta, all interleavings of two callers for lo<hi / hi<lo / equal / forced / foreign, thorough: of '
         'three callers; epoch and routing observed after every step, also inside a critical section) and SETREPL schedules (2-4 OS threads parked at the four scheduling '
         'points; thorough: all interleavings of three callers for five epoch/force patterns, ~86k schedules) against the model line by line.',
 'note': 'Trusted: Lean kernel; extractor shape checks; the scheduler harness; fingerprint probes. Not covered: migration '
         'tasks inside SETCLUSTER, replicator task traffic.',
}
