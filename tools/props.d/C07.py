"""C07 — vcheck configuration (PROP) and MANIFEST claim (CHECK)."""
PROP = {
 'module': 'UmProps.C07',
 'gen_modules': ['CoordTables', 'ChunkTables', 'Consts', 'MetaConsts'],
 'streams': [
  {'name': 'coordinator', 'harness': 'umh_coordinator', 'driver': 'coordinator',
   'timeout': {'quick': 900, 'thorough': 3000}},
  # overlapping pushes to one proxy ("never replaced by an older version" under concurrency): the interleaving
  # model of MetaManager::set_meta and its correspondence stream, shared with C05 (C07_overlapping_pushes)
  {'name': 'setmeta_conc', 'harness': 'umh_setmeta_conc', 'driver': 'setmeta_conc',
   'timeout': {'quick': 300, 'thorough': 1500}},
 ],
 'assumptions': [
  'the broker-side hypotheses of C07_coherent / C07_convergence / C07_commit_once (EpochVersioning, CommitInv, views '
  'never panic) are discharged in the *_reachable corollaries by C04 (view_steps, Frame), C01 (cinv_reachableB, '
  'proxyView_partition), C10 (commitInv_of_invs) and C13 (recovered epochs); what remains there is environmental:',
  'PlanBound: the broker history never has a cluster with more than 16384 masters (C01)',
  'EnvOk in the fault-free suffix: every address the broker serves has a running process whose announce host is the '
  'host of its registered nodes (otherwise the proxy answers NOT_MY_META forever)',
  'targets is the permutation of the expected proxies that BrokerOrderedProxiesRetriever produced (validated by the model)',
  'failure reports do not expire during a run (failure_ttl is large; the clock of get_failures is C18)',
  'fewer than 100 proxies / 10 clusters per listing page and chunk (one page + the empty page; the chunked '
  'streams of the retrievers then issue their calls in the modelled order)',
 ],
 'gaps': [
  'C07_convergence(_reachable) assumes that every registered proxy is reachable during the two fault-free rounds (EnvOk); with '
  'a registered proxy that stays down, check_and_sync aborts the remaining tasks of a proxy whose task names it and '
  'more (sync, migration) round pairs are needed - not bounded by a constant',
  'the sync round takes the order in which BrokerOrderedProxiesRetriever yields the proxies as an input (it depends on '
  'sort_unstable_by with a non-total comparator, DESIGN 7 F6); the model checks it is a permutation of the '
  'expected set, the theorems hold for every order',
  'finer interleavings of several coordinators than whole rounds nested at call boundaries are covered by '
  'C07_safety / C07_coherent (arbitrary sequences of delivered calls) but not by the correspondence stream',
 ],
 'trusted': [
  'hand-written transliteration UmModel/Coordinator.lean of the four coordinator rounds, the proxy install rules '
  'and the broker adapter semantics (differentially checked on every run, per call)',
  'the in-process broker adapter and fake network of umh_coordinator (shape of HttpMetaBroker / '
  'HttpMetaManipulationBroker: paging, serde round trip, status mapping; listings sorted) and its fault layer',
  'the migration data path of the proxies is gated: a task reaches SwitchCommitted exactly when the plan says '
  '`finish` (PRECHECK/PRESWITCH/FINALSWITCH between the real proxies are let through only then; Redis is a stub)',
 ],
}

CHECK = {
 'design_ref': '§6 C07 (+ C13 re-convergence), §7 F6',
 'technique': 'Lean 4 theorems over all executions (any fault plan per call: dropped request, dropped reply, '
              'duplicate, delay, crash; nested rounds of other coordinators; any broker operations in between) + '
              'differential correspondence of the real coordinator components, the real MemBrokerService and real '
              'proxy command handlers (ForwardHandler/MetaManager) with the compiled model, call by call, under '
              'seeded fault plans',
 'text': 'Proved: (safety) along every execution no proxy process replaces its cluster map or its replication map by '
         'one with a smaller or equal epoch (coordinator calls are never forced; FORCE and a restart are the only '
         'exceptions) and no call makes a proxy report a finished task it did not report before; a migration task is '
         'committed at most once - the second commit is MIGRATION_TASK_NOT_FOUND, mapped to success (HTTP 404) and '
         'changes nothing, and any commit request whose (ranges, epoch) is not a pending migration (e.g. a delayed '
         'duplicate of an earlier migration of the same ranges while a later one is running) is refused and '
         'changes nothing; inside one sync_migration_state the calls are: commit, then only the destination, then only '
         'the source, and the source only after the destination returned Ok - under every fault plan. (coherence, '
         'assuming C04 EpochVersioning) nothing a process holds and nothing a round sends is ahead of the view the '
         'broker serves for that address. (convergence) from any coherent state with nothing in flight, K = 2 '
         'fault-free rounds (migration sync, then proxy sync) leave every target proxy with exactly '
         'proxyView broker a limit (epoch, cluster map, replication map; OLD_EPOCH counted as success) and no polled '
         'running proxy reporting a finished task that is still pending; the *_reachable corollaries state this for every state of '
         'every execution (SysReach) with the broker-side hypotheses discharged by C01/C04/C10, and '
         'C07_reconverge_after_recovery for a broker restored from any bounded snapshot + recover_epoch (C13). The model is tied to the code by running the '
         'real coordinator rounds against the real broker service and real proxies under seeded fault plans and '
         'comparing, after every call, the reply, every proxy (epoch, view digest) and the broker (pending tasks, '
         'store digest); an oracle on the implementation alone checks no epoch regression, single commit, dst before '
         'src and convergence after the fault-free suffix.',
 'note': 'Trusted: Lean kernel; model transliteration (checked per call every run); broker adapter / fake network / '
         'migration gating of the harness. Remaining hypotheses are environmental (PlanBound, EnvOk, targets). '
         'F6 (non-total comparator in BrokerOrderedProxiesRetriever): no panic observed on rustc 1.95 in any run; the '
         'harness wraps every component in catch_unwind and reports a panic as an oracle failure.',
}
