"""C18 — vcheck configuration (PROP) and MANIFEST claim (CHECK)."""
PROP = {
 'module': 'UmProps.C18',
 'gen_modules': [],
 'streams': [
  {'name': 'failures', 'harness': 'umh_failures', 'driver': 'failures', 'args': ['--clock', 'fake']},
  {'name': 'failures_real', 'harness': 'umh_failures', 'driver': 'failures', 'args': ['--clock', 'real']},
 ],
 'assumptions': [
  'the broker clock (Utc::now) and report times are representable by chrono (years -262144..262143); '
  'restored metadata blobs are maps (serde HashMap) with representable report times (OpOk); outside that '
  'get_failures panics, which the model and the correspondence show as PANIC',
  'global_epoch does not wrap (u64; modelled as Nat)',
  'usize is 64 bit (failure_quorum as usize is the identity)',
  'the in-cluster half of replace_failed_proxy and the cluster operations are abstract in this sub-model: '
  'their footprint on the sub-state (failed mark, cluster.is_some(), epoch bumps) is an observed parameter',
 ],
 'gaps': [],
 'trusted': [
  'hand-written transliteration UmModel/Failures.lean of add_failure/get_failures/cleanup_failures/add_proxy/'
  'remove_proxy/replace_failed_proxy(free)/restore (differentially checked on every run)',
  'clock interposition in umh_failures (defines clock_gettime; self-test against chrono::Utc::now at start) and the '
  'second stream on the real clock',
 ],
}

CHECK = {
 'design_ref': '§6 C18',
 'technique': 'Lean 4 theorems over all operation sequences (invariants + induction on the run) + differential '
              'correspondence of the real MemBrokerService/MetaStore with the compiled model under a controlled clock',
 'text': 'Proved for every sequence of reports, queries, clean-ups, registrations, removals, failovers, allocations '
         'and restores, every clock value, every ttl (any chrono::Duration) and every quorum >= 1: get_failures '
         'does not panic and lists a iff a is registered and >= quorum distinct reporters have a stored report with '
         'now - t*1s < ttl (quorum 0 behaves like 1); add_failure changes the store only for a reporter without a '
         'stored report (first timestamp kept, whole seconds, epoch bump exactly then), so repeated reports never '
         'raise the count; listed implies quorum distinct reporters really issued a report about a at a true time '
         'tau with now - tau < ttl since the last accepted add_proxy a (never late), and a stored report of true age '
         '<= ttl - 1s is always counted (at most 1 s early); expired reports are physically removed by the query; an '
         'accepted add_proxy a (new or existing) leaves a registered, without reports and without the failed mark; '
         'remove_proxy and replace_failed_proxy on a free proxy forget the reports. The model is tied to the code by '
         'running the real MemBrokerService and MetaStore against it after every operation (result, epoch, '
         'all_proxies, failed_proxies, failures map) with the clock set to the nanosecond, including ttl boundaries '
         '+-1 ns, backwards clocks, unknown/invalid addresses, ordered mode, restore-injected ages and '
         'unrepresentable times.',
 'note': 'Trusted: Lean kernel; model transliteration (checked differentially every run); the in-cluster part of '
         'replace_failed_proxy and cluster allocation are abstract here (full model: UmModel/Broker.lean). The '
         'history theorem excludes restore (which imports reports nobody made). Observation, not a violation: '
         'because the first timestamp is kept, a reporter that keeps reporting still expires ttl after its first '
         'report and must report again after the purge.',
}
