"""C09 — vcheck configuration (PROP) and MANIFEST claim (CHECK)."""
PROP = {
    'module': 'UmProps.C09',
    'gen_modules': ['Consts', 'CmdTables'],
    'streams': [{'name': 'route9', 'harness': 'umh_route9', 'driver': 'route9'}],
    'assumptions': [
        'no migration task is installed on the proxy (MigrationMap::send answers SlotNotFound): routing of '
        'migrating/importing slots is C02',
        'no password configured, compression disabled, backends answer every (sub-)command',
        'crc16 0.4.0 State::<XMODEM>/<ARC>::calculate = the bit-serial CRC-16/XMODEM and CRC-16/ARC of '
        'UmModel/Crc16.lean (checked differentially on >= 10^5 random keys + one key per slot every run)',
        'HashMap iteration order inside SlotMap::from_ranges is arbitrary: theorems are stated for every '
        'visiting order; the harness resolves the order the implementation used by probing each overlap '
        'segment and the model must agree on every other slot',
    ],
    'gaps': [
        'C09_multikey_partial covers the commands the proxy handles as multi-key (MGET, MSET, MSETNX, DEL/EXISTS '
        'with >= 2 arguments, BLPOP/BRPOP/BZPOPMIN/BZPOPMAX/BRPOPLPUSH, EVAL, EVALSHA). The full statement ("every '
        'multi-key command whose keys hash to different slots is refused when active redirection is off") is false for '
        'the code: proved negation C09_multikey_full_false / C09_unguarded_two_key (RENAME & co, F09b known)',
        'blocking commands: only the first pass of the polling loop is modelled (backends that answer non-empty)',
        'CLUSTER NODES/SLOTS, INFO/AUTH/UMCTL/CONFIG/COMMAND are not modelled here; nested UMFORWARD wrappers are modelled '
        'but not generated',
    ],
    'trusted': [
        'tools/extract_cmd.py (command-type, key-position and handler-dispatch tables from command.rs / executor.rs; pins that '
        'wrap_cmd / extract_inner_cmd rebuild the cached CommandInfo)',
        'harness fake backends (reply is a function of node address and command name; mirrored in UmDriver/Route9.lean)',
    ],
}

CHECK = {
    'design_ref': '§6 C09',
    'technique': 'Lean 4 theorems over all keys, all node maps in every visiting order, all commands + differential '
                 'correspondence of the real ForwardHandler/MetaManager/SlotMap/generate_slot against the compiled model',
    'text': 'Proved: hash-tag characterisation, slot < 16384, SlotMapData::new/get = "last listing node in visiting order" '
            '(array-filling code transliterated), routing of a key on a proxy with an installed map: Exec n only on a local '
            'node listing the slot (exactly the lister when local ranges are disjoint), else MOVED <slot> to a peer listing '
            'it (forward / ERR_TOO_MANY_REDIRECTIONS under active redirection), else "slot not covered"; ERR_CLUSTER_NOT_FOUND '
            'iff nothing installed; a command received as UMFORWARD <times> <cmd> is handled as <cmd> with the budget <times> '
            '(C09_umforward*: routed by its own key, executed locally iff the plain command would be, the counter text never '
            'reaches the routing); CLUSTER KEYSLOT = slotOf; guarded multi-key commands with keys in different slots dispatch '
            'nothing and reply an error (EVAL/EVALSHA in both modes), accepted ones send every sub-command to one target. Checked every '
            'run against the real code on >= 10^5 keys (all brace placements, binary, one per slot), raw SlotMapData layouts '
            'and >= 150 proxy configurations x hand-built layouts x 13 command shapes, a quarter of them also as a peer proxy delivers them (UMFORWARD with '
            'counters 0/1/2/usize::MAX-1/malformed and counters whose text hashes to the other side of the layout than the key). F09a (EVALSHA bypassed the EVAL guard) was found by this check and is fixed in /repo 7ad1e99 (regression theorem '
            'C09_evalsha_refused). KNOWN-FINDING F09b: first-key-routed two-key commands (RENAME, RENAMENX, SMOVE, RPOPLPUSH; '
            'BRPOPLPUSH under active redirection) are executed on the owner of the first key although the other key hashes '
            'elsewhere (documented caller obligation in docs/command_table.md).',
    'note': 'Trusted: Lean kernel; generated command tables; harness fakes; crc16 crate tied differentially only. '
            'Scope: no migration tasks (C02), no CLUSTER NODES/SLOTS (C14).',
}
