#!/usr/bin/env python3
"""regenerate the table of DESIGN.md §11.2 from known_findings.json"""
import json, re
V = '/verif'
d = json.load(open(f'{V}/known_findings.json'))['findings']
rows = []
for f in sorted(d, key=lambda f: (f['property'], f['id'])):
    what = re.sub(r'^fixed: property=\S+ \S+ ', '', f['what']).replace('|', '/').replace('\n', ' ')
    disp = f"**fixed** {f.get('commit','')}" if f['status'] == 'fixed' else '**known**'
    rows.append(f"| {f['id']} | {f['property']} | {disp} | {what} |")
table = "| id | property | disposition | what |\n|---|---|---|---|\n" + "\n".join(rows) + "\n"
s = open(f'{V}/DESIGN.md').read()
a = s.index("| id | property | disposition | what |")
b = s.index("\nFindings that needed a decision", a)
s = s[:a] + table + s[b:]
open(f'{V}/DESIGN.md', 'w').write(s)
print(len(rows), sum(1 for f in d if f['status'] == 'fixed'))
