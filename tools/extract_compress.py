# Plugin of tools/extract.py (exec'd with its helpers in scope): generates
# lean/UmGen/CompressTable.lean from
#   src/proxy/command.rs   enum CmdType / DataCmdType and their from_cmd_name name tables
#   src/proxy/compress.rs  CmdCompressor::try_compressing_cmd_ctx (value index per command type,
#                          restricted list) and CmdReplyDecompressor::decompress (arms)
#   src/proxy/executor.rs  handle_data_cmd dispatch, handle_single_key_data_cmd error mapping
#   src/proxy/reply.rs     DecompressCommitHandler error mapping
#   src/common/response.rs reply constants
# Every fragment is matched against the exact shape that the hand-written model
# (lean/UmModel/Compress.lean) transliterates; any other shape raises ExtractError.


def _find_matching(text, i, open_c="{", close_c="}"):
    depth = 0
    j = i
    while j < len(text):
        c = text[j]
        if c == open_c:
            depth += 1
        elif c == close_c:
            depth -= 1
            if depth == 0:
                return j
        j += 1
    raise ExtractError("unbalanced braces")


def _block_after(text, head_re, what):
    m = re.search(head_re, text)
    if not m:
        raise ExtractError(f"{what}: `{head_re}` not found")
    i = text.index("{", m.end() - 1)
    j = _find_matching(text, i)
    return text[i + 1 : j]


def _match_arms(text, scrutinee_re, what):
    """arms [(pattern, body)] of the first `match <scrutinee> {` in text"""
    body = _block_after(text, r"match\s+" + scrutinee_re + r"\s*\{", what)
    arms, i, n = [], 0, len(body)
    while True:
        while i < n and body[i] in " \t\r\n,":
            i += 1
        if i >= n:
            break
        k = body.find("=>", i)
        if k < 0:
            raise ExtractError(f"{what}: arm without =>")
        pat = " ".join(body[i:k].split())
        i = k + 2
        while i < n and body[i] in " \t\r\n":
            i += 1
        if i < n and body[i] == "{":
            j = _find_matching(body, i)
            arms.append((pat, body[i : j + 1]))
            i = j + 1
        else:
            depth, j = 0, i
            while j < n:
                c = body[j]
                if c in "([{":
                    depth += 1
                elif c in ")]}":
                    depth -= 1
                elif c == "," and depth == 0:
                    break
                j += 1
            arms.append((pat, body[i:j].strip()))
            i = j + 1
    return arms


def _variants_of(pat, enum, what):
    """`E::A | E::B` (optionally with an `if` guard) -> (["A","B"], guard or None)"""
    guard = None
    m = re.match(r"^(.*?)\s+if\s+(.*)$", pat)
    if m:
        pat, guard = m.group(1), m.group(2)
    names = []
    for alt in pat.split("|"):
        alt = alt.strip()
        m = re.fullmatch(r"(?:" + enum + r"::)(\w+)", alt)
        if not m:
            raise ExtractError(f"{what}: unexpected pattern `{alt}`")
        names.append(m.group(1))
    return names, guard


def _enum_variants(text, name, path):
    body = _block_after(strip_comments(text), r"pub\s+enum\s+" + name + r"\s*\{", f"{path}: enum {name}")
    vs = [v.strip() for v in body.split(",") if v.strip()]
    for v in vs:
        if not re.fullmatch(r"\w+", v):
            raise ExtractError(f"{path}: enum {name}: variant `{v}` is not a unit variant")
    return vs


def _name_table(text, enum, path):
    """b"NAME" => Enum::Variant arms of `impl Enum { fn from_cmd_name }`"""
    impl = _block_after(strip_comments(text), r"impl\s+" + enum + r"\s*\{", f"{path}: impl {enum}")
    body = fn_body(impl, "from_cmd_name", path)
    if "byte_to_uppercase" not in body or "MAX_COMMAND_NAME_LENGTH" not in body:
        raise ExtractError(f"{path}: {enum}::from_cmd_name no longer upper-cases into a bounded stack buffer")
    arms = _match_arms(body, r"cmd_name", f"{path}: {enum}::from_cmd_name")
    table, default = [], None
    for pat, b in arms:
        m = re.fullmatch(enum + r"::(\w+)", b)
        if not m:
            raise ExtractError(f"{path}: {enum}::from_cmd_name: arm body `{b}`")
        if pat == "_":
            default = m.group(1)
            continue
        mp = re.fullmatch(r'b"((?:[^"\\]|\\.)*)"', pat)
        if not mp:
            raise ExtractError(f"{path}: {enum}::from_cmd_name: pattern `{pat}`")
        table.append((rust_bytes_literal(mp.group(1)), m.group(1)))
    if default is None:
        raise ExtractError(f"{path}: {enum}::from_cmd_name: no default arm")
    # the overflow branch (name longer than the stack buffer) must return the same default
    m = re.search(r"try_push.*?return\s+" + enum + r"::(\w+)\s*;", body, flags=re.S)
    if not m or m.group(1) != default:
        raise ExtractError(f"{path}: {enum}::from_cmd_name: overflow branch does not return the default variant")
    return table, default


def _lean_inductive(name, variants):
    out = [f"inductive {name} where"]
    line = " "
    for v in variants:
        if len(line) + len(v) > 95:
            out.append(line)
            line = " "
        line += f" | {v}"
    out.append(line)
    out.append("  deriving DecidableEq, Repr, Inhabited")
    return "\n".join(out)


def _lean_match(fn_name, dom, cod, groups, default, doc):
    """groups: [(variants, rhs)]"""
    out = [f"/-- {doc} -/", f"def {fn_name} : {dom} → {cod}"]
    for vs, rhs in groups:
        out.append("  | " + " | ".join("." + v for v in vs) + " => " + rhs)
    out.append(f"  | _ => {default}")
    return "\n".join(out)


def gen_compress_table():
    out = [HEADER, "namespace Um.Gen.Compress\n"]

    # ---- command.rs: enums and name tables
    p = "src/proxy/command.rs"
    t = src(p)
    out.append(f"def MAX_COMMAND_NAME_LENGTH : Nat := {const_num(t, 'MAX_COMMAND_NAME_LENGTH', p)}  -- {p}\n")
    cmd_variants = _enum_variants(t, "CmdType", p)
    data_variants = _enum_variants(t, "DataCmdType", p)
    out.append(_lean_inductive("CmdType", cmd_variants) + "\n")
    out.append(_lean_inductive("DataCmdType", data_variants) + "\n")
    for enum, variants, lean_name in (("CmdType", cmd_variants, "cmdTypeNames"),
                                      ("DataCmdType", data_variants, "dataCmdNames")):
        table, default = _name_table(t, enum, p)
        for _, v in table:
            if v not in variants:
                raise ExtractError(f"{p}: {enum}::from_cmd_name maps to unknown variant {v}")
        out.append(f"/-- `{enum}::from_cmd_name` ({p}): upper-cased name ↦ variant; anything else (and names\n"
                   f"longer than MAX_COMMAND_NAME_LENGTH) ↦ `{default}` -/")
        out.append(f"def {lean_name} : List (List UInt8 × {enum}) := [")
        out.append(",\n".join(f"  ({lean_bytes(bs)}, .{v})" for bs, v in table))
        out.append("]")
        out.append(f"def {lean_name}Default : {enum} := .{default}\n")
    # CmdType::from_packet / DataCmdType::from_packet: element 0, defaults
    impl = _block_after(strip_comments(t), r"impl\s+CmdType\s*\{", p)
    b = fn_body(impl, "from_packet", p)
    m = re.search(r"get_array_element\(0\).*?None\s*=>\s*return\s+CmdType::(\w+)", b, flags=re.S)
    if not m:
        raise ExtractError(f"{p}: CmdType::from_packet shape")
    out.append(f"def cmdTypeNoName : CmdType := .{m.group(1)}  -- CmdType::from_packet without element 0")
    impl = _block_after(strip_comments(t), r"impl\s+DataCmdType\s*\{", p)
    b = fn_body(impl, "from_packet", p)
    m = re.search(r"get_array_element\(0\).*?None\s*=>\s*return\s+DataCmdType::(\w+)", b, flags=re.S)
    if not m:
        raise ExtractError(f"{p}: DataCmdType::from_packet shape")
    out.append(f"def dataCmdNoName : DataCmdType := .{m.group(1)}  -- DataCmdType::from_packet without element 0")
    # CommandInfo::get_key: Eval|Evalsha -> element 3, else element 1
    impl = _block_after(strip_comments(t), r"impl\s+CommandInfo\s*\{", p)
    b = fn_body(impl, "get_key", p)
    arms = _match_arms(b, r"data_cmd_type", f"{p}: CommandInfo::get_key")
    groups, default = [], None
    for pat, body in arms:
        m = re.fullmatch(r"packet\.get_array_element\((\d+)\)", body)
        if not m:
            raise ExtractError(f"{p}: CommandInfo::get_key arm `{body}`")
        if pat == "_":
            default = m.group(1)
        else:
            vs, g = _variants_of(pat, "DataCmdType", p)
            if g:
                raise ExtractError(f"{p}: CommandInfo::get_key guard")
            groups.append((vs, m.group(1)))
    out.append("")
    out.append(_lean_match("keyIndex", "DataCmdType", "Nat", groups, default,
                           f"`CommandInfo::get_key` ({p}): index of the routing key"))
    out.append("")

    # ---- compress.rs: try_compressing_cmd_ctx
    p = "src/proxy/compress.rs"
    t = src(p)
    impl = _block_after(strip_comments(t), r"impl<C:\s*CompressionStrategyConfig>\s*CmdCompressor<C>\s*\{", p)
    body = fn_body(impl, "try_compressing_cmd_ctx", p)
    if not re.search(r"if\s+strategy\s*==\s*CompressionStrategy::Disabled\s*\{\s*return\s+Err\(CompressionError::Disabled\)", body):
        raise ExtractError(f"{p}: try_compressing_cmd_ctx: Disabled guard changed")
    arms = _match_arms(body, r"cmd_ctx\.get_data_cmd_type\(\)", f"{p}: try_compressing_cmd_ctx")
    groups, default, restricted = [], None, None
    for pat, b in arms:
        if pat == "_":
            if b != "return Ok(())":
                raise ExtractError(f"{p}: try_compressing_cmd_ctx: default arm `{b}`")
            default = ".pass"
            continue
        vs, g = _variants_of(pat, "DataCmdType", p)
        if g:
            raise ExtractError(f"{p}: try_compressing_cmd_ctx: guard")
        m = re.fullmatch(r"OptionalMulti::Single\((\d+)\)", b)
        if m:
            groups.append((vs, f".single {m.group(1)}"))
            continue
        flat = " ".join(b.split())
        m = re.search(r"get_command_len\(\) \{ None => return Err\(CompressionError::InvalidRequest\), Some\(l\) => l, \}; "
                      r"let key_indices = \((\d+)\.\.l\)\.step_by\((\d+)\)\.collect\(\); OptionalMulti::Multi\(key_indices\)", flat)
        if m:
            groups.append((vs, f".multi {m.group(1)} {m.group(2)}"))
            continue
        if re.fullmatch(r"match strategy \{ CompressionStrategy::SetGetOnly => return Err\(CompressionError::RestrictedCmd\), "
                        r"_ => return Err\(CompressionError::UnsupportedCmdType\), \}", flat):
            groups.append((vs, ".restricted"))
            restricted = vs
            continue
        raise ExtractError(f"{p}: try_compressing_cmd_ctx: unrecognised arm body for {vs}: {flat[:120]}")
    if default is None or restricted is None:
        raise ExtractError(f"{p}: try_compressing_cmd_ctx: missing default or restricted arm")
    tail = " ".join(body[body.index("match index"):].split()) if "match index" in body else ""
    if not re.search(r"OptionalMulti::Single\(index\) => Self::compress_one_element\(cmd_ctx, index\), "
                     r"OptionalMulti::Multi\(indices\) => \{ for index in indices\.into_iter\(\) \{ "
                     r"Self::compress_one_element\(cmd_ctx, index\)\?; \} Ok\(\(\)\) \}", tail):
        raise ExtractError(f"{p}: try_compressing_cmd_ctx: index application loop changed")
    one = " ".join(fn_body(impl, "compress_one_element", p).split())
    if not ("get_command_element(index)" in one and "None => return Err(CompressionError::InvalidRequest)" in one
            and "zstd::encode_all(value, 1)" in one and "change_cmd_element(index, compressed)" in one):
        raise ExtractError(f"{p}: compress_one_element changed")
    out.append("inductive CompressRule where\n  | single (index : Nat)\n  | multi (start step : Nat)   -- `(start..len).step_by(step)`\n"
               "  | restricted                -- RestrictedCmd in set_get_only, UnsupportedCmdType otherwise\n"
               "  | pass                      -- `_ => return Ok(())`\n  deriving DecidableEq, Repr\n")
    out.append(_lean_match("compressRule", "DataCmdType", "CompressRule", groups, default,
                           f"arms of `CmdCompressor::try_compressing_cmd_ctx` ({p})"))
    out.append("")
    out.append("/-- the restricted list of `try_compressing_cmd_ctx` -/")
    out.append("def restrictedCmds : List DataCmdType := [" + ", ".join("." + v for v in restricted) + "]\n")

    # ---- compress.rs: decompress
    impl = _block_after(strip_comments(t), r"impl<C:\s*CompressionStrategyConfig>\s*CmdReplyDecompressor<C>\s*\{", p)
    body = fn_body(impl, "decompress", p)
    if not re.search(r"if\s+strategy\s*==\s*CompressionStrategy::Disabled\s*\{\s*return\s+Err\(CompressionError::Disabled\)", body):
        raise ExtractError(f"{p}: decompress: Disabled guard changed")
    arms = _match_arms(body, r"data_cmd_type", f"{p}: decompress")
    groups, default = [], None
    for pat, b in arms:
        flat = " ".join(b.split())
        if pat == "_":
            if flat != "Err(CompressionError::UnsupportedCmdType)":
                raise ExtractError(f"{p}: decompress default arm `{flat}`")
            default = ".unsupported"
            continue
        vs, g = _variants_of(pat, "DataCmdType", p)
        if g:
            raise ExtractError(f"{p}: decompress guard")
        if "change_bulk_str(c)" in flat and "Resp::Bulk(BulkStr::Str(s)) = packet.to_resp_slice()" in flat \
                and "zstd::decode_all(s)" in flat and "return Err(CompressionError::Io(err))" in flat:
            groups.append((vs, ".bulk"))
        elif "change_bulk_array_element(i, c)" in flat and "Resp::Arr(Array::Arr(arr)) = packet.to_resp_slice()" in flat \
                and "zstd::decode_all(*s)" in flat and "return Err(CompressionError::Io(err))" in flat:
            groups.append((vs, ".array"))
        else:
            raise ExtractError(f"{p}: decompress: unrecognised arm for {vs}")
    out.append("inductive DecompressRule where\n  | bulk | array | unsupported\n  deriving DecidableEq, Repr\n")
    out.append(_lean_match("decompressRule", "DataCmdType", "DecompressRule", groups, default,
                           f"arms of `CmdReplyDecompressor::decompress` ({p})"))
    out.append("")

    # ---- executor.rs: handle_data_cmd dispatch
    p = "src/proxy/executor.rs"
    t = strip_comments(src(p))
    body = fn_body(t, "handle_data_cmd", p)
    arms = _match_arms(body, r"cmd_ctx\.get_data_cmd_type\(\)", f"{p}: handle_data_cmd")
    handlers = {"handle_mget": "mget", "handle_mset": "mset", "handle_msetnx": "msetnx",
                "handle_multi_int_cmd": "multiInt", "handle_blocking_commands": "blocking",
                "handle_eval_cmd": "eval"}
    groups, default = [], None
    for pat, b in arms:
        if pat == "_":
            if "self.handle_single_key_data_cmd(cmd_ctx)" not in b:
                raise ExtractError(f"{p}: handle_data_cmd default arm")
            default = ".single"
            continue
        vs, g = _variants_of(pat, "DataCmdType", p)
        called = re.findall(r"self\.(handle_\w+)\(", b)
        if len(called) != 1 or called[0] not in handlers:
            raise ExtractError(f"{p}: handle_data_cmd arm for {vs} calls {called}")
        kind = handlers[called[0]]
        if g is not None:
            if kind != "multiInt" or g != "cmd_ctx.get_cmd().get_command_element(2).is_some()":
                raise ExtractError(f"{p}: handle_data_cmd guard `{g}`")
        elif kind == "multiInt":
            raise ExtractError(f"{p}: handle_data_cmd: multi-int arm lost its guard")
        groups.append((vs, "." + kind))
    out.append("inductive Dispatch where\n  | mget | mset | msetnx\n  | multiInt   -- only when element 2 exists, otherwise `single`\n"
               "  | blocking | eval | single\n  deriving DecidableEq, Repr\n")
    out.append(_lean_match("dispatchRule", "DataCmdType", "Dispatch", groups, default,
                           f"arms of `ForwardHandler::handle_data_cmd` ({p})"))
    out.append("")
    # handle_single_key_data_cmd error mapping
    body = " ".join(fn_body(t, "handle_single_key_data_cmd", p).split())
    if not re.search(r"let compress_res = if cmd_ctx\.get_redirection_times\(\)\.is_some\(\) \{ Ok\(\(\)\) \} else \{ "
                     r"self\.compressor\.try_compressing_cmd_ctx\(&mut cmd_ctx\) \}; match compress_res \{", body):
        raise ExtractError(f"{p}: handle_single_key_data_cmd: the redirection-mark guard around the compressor changed")
    if not re.search(r"Ok\(\(\)\) \| Err\(CompressionError::UnsupportedCmdType\) \| Err\(CompressionError::Disabled\) => \(\)", body):
        raise ExtractError(f"{p}: handle_single_key_data_cmd: pass-through arm changed")
    m1 = re.search(r'Err\(CompressionError::InvalidRequest\) \| Err\(CompressionError::InvalidResp\) => \{ return cmd_ctx '
                   r'\.set_resp_result\(Ok\(Resp::Error\("((?:[^"\\]|\\.)*)"\.to_string\(\)\.into_bytes\(\)\)\)\); \}', body)
    m2 = re.search(r'Err\(CompressionError::RestrictedCmd\) => \{ let err_msg = "((?:[^"\\]|\\.)*)"; return', body)
    if not m1 or not m2 or not body.rstrip().endswith("self.manager.send(cmd_ctx);"):
        raise ExtractError(f"{p}: handle_single_key_data_cmd: error mapping changed")
    out.append(f"def ERR_INVALID_COMMAND : List UInt8 := {lean_bytes(rust_bytes_literal(m1.group(1)))}  -- {p}")
    out.append(f"def ERR_RESTRICTED : List UInt8 := {lean_bytes(rust_bytes_literal(m2.group(1)))}  -- {p}")
    # literal replies of handle_mget / handle_mset / handle_msetnx / handle_umforward
    for fn, name in (("handle_mget", "ERR_MGET_ARGS"), ("handle_mset", "ERR_MSET_ARGS"), ("handle_msetnx", "ERR_MSETNX_ARGS")):
        b = fn_body(t, fn, p)
        lits = set(re.findall(r'b"(ERR wrong number of arguments[^"]*)"', b))
        if len(lits) != 1:
            raise ExtractError(f"{p}: {fn}: expected one arity error literal, got {sorted(lits)}")
        out.append(f"def {name} : List UInt8 := {lean_bytes(rust_bytes_literal(lits.pop()))}  -- {p} {fn}")
    b = " ".join(fn_body(t, "handle_msetnx", p).split())
    if not re.search(r"let \(mut sub_cmd_ctx, fut\) = factory\.create_with_ctx\(cmd_ctx\.get_context\(\), resp\); "
                     r"if let Some\(times\) = cmd_ctx\.get_redirection_times\(\) \{ sub_cmd_ctx\.set_redirection_times\(times\); \} "
                     r"futs\.push\(fut\); self\.handle_single_key_data_cmd\(sub_cmd_ctx\);", b):
        raise ExtractError(f"{p}: handle_msetnx: sub-commands no longer inherit the redirection mark")
    for fn in ("handle_mget", "handle_mset"):
        if "set_redirection_times" in fn_body(t, fn, p):
            raise ExtractError(f"{p}: {fn}: sub-commands now carry a redirection mark (model: none)")
    b = fn_body(t, "handle_umforward", p)
    for lit, name in (("invalid redirection times", "ERR_UMFORWARD_TIMES"), ("missing forwarded command", "ERR_UMFORWARD_MISSING")):
        if f'b"{lit}"' not in b:
            raise ExtractError(f"{p}: handle_umforward: literal `{lit}` not found")
        out.append(f"def {name} : List UInt8 := {lean_bytes(rust_bytes_literal(lit))}  -- {p} handle_umforward")
    if "extract_inner_cmd(2)" not in b or "get_sub_command(cmd_ctx, 1)" not in b:
        raise ExtractError(f"{p}: handle_umforward: shape changed")
    b = fn_body(t, "get_sub_command", p)
    for lit, name in (("Missing sub command", "ERR_MISSING_SUB_COMMAND"), ("Invalid sub command", "ERR_INVALID_SUB_COMMAND")):
        if f'String::from("{lit}")' not in b:
            raise ExtractError(f"{p}: get_sub_command: literal `{lit}` not found")
        out.append(f"def {name} : List UInt8 := {lean_bytes(rust_bytes_literal(lit))}  -- {p} get_sub_command")

    # ---- reply.rs: DecompressCommitHandler error mapping
    p = "src/proxy/reply.rs"
    t = strip_comments(src(p))
    impl = _block_after(t, r"impl<T,\s*C>\s*CmdTaskResultHandler\s+for\s+DecompressCommitHandler<T,\s*C>", p)
    body = " ".join(fn_body(impl, "handle_task", p).split())
    if not (re.search(r"Ok\(\(\)\) \| Err\(CompressionError::UnsupportedCmdType\) \| Err\(CompressionError::Disabled\) => \(\)", body)
            and re.search(r"Err\(err\) => \{ warn!\(.*?\); return cmd_ctx\.set_resp_result\(Ok\(Resp::Bulk\(BulkStr::Nil\)\)\); \}", body)
            and body.rstrip().endswith("cmd_ctx.set_result(Ok(Box::new(packet)))")):
        raise ExtractError(f"{p}: DecompressCommitHandler::handle_task: error mapping changed")

    # ---- manager.rs: UMFORWARD wrap
    p = "src/proxy/manager.rs"
    t = strip_comments(src(p))
    body = " ".join(fn_body(t, "send_cmd_ctx_to_remote_directly", p).split())
    if not (".get_redirection_times() .or_else(|| max_redirections.map(|n| n.get() - 1)) .or(Some(usize::MAX));" in body
            and "times.checked_sub(1)" in body
            and 'wrap_cmd(vec![b"UMFORWARD".to_vec(), times.to_string().into_bytes()])' in body):
        raise ExtractError(f"{p}: send_cmd_ctx_to_remote_directly: shape changed")
    out.append(f"def UMFORWARD : List UInt8 := {lean_bytes(list(b'UMFORWARD'))}  -- {p}")

    # ---- response.rs / utils.rs constants
    p = "src/common/response.rs"
    t = src(p)
    for n in ("OK_REPLY", "ERR_NOT_THE_SAME_SLOT", "ERR_MOVED", "ERR_TOO_MANY_REDIRECTIONS"):
        out.append(f"def {n} : List UInt8 := {lean_bytes(list(const_str(t, n, p).encode()))}  -- {p}")
    p = "src/common/utils.rs"
    t = src(p)
    out.append(f"def SLOT_NUM : Nat := {const_num(t, 'SLOT_NUM', p)}  -- {p}")
    return "\n".join(out) + "\n\nend Um.Gen.Compress\n"


MODULES = {"CompressTable": gen_compress_table}
