"""extract.py plugin for C15: source-derived constants of the RESP codec.

UmGen/RespCfg.lean:
  * `strictTerm` — whether `parse_line` checks that the byte before LF is CR *and*
    `parse_bulk_str` checks that the payload is followed by CRLF (the F7 fix,
    /verif/.build/patches/f7.diff).  Unpatched tree: both checks absent ⇒ `false`.
    A half-applied fix (one check without the other) is refused: the model has a single switch.
  * `maxNesting : Option Nat` — the nesting limit of arrays (F16b fix): `some MAX_NESTING` when
    the type-byte arms live in `parse_resp_nested(buf, depth)`, its `*` arm answers
    `InvalidProtocol` for `depth >= MAX_NESTING` *before* reading the header and otherwise calls
    `parse_array_nested(next_buf, depth + 1)`, whose loop calls `parse_resp_nested(next_buf, depth)`;
    `none` for the unbounded recursion `parse_resp` <-> `parse_array`.
  * `capRemaining : Bool` — `parse_array*` reserves `min(array_size, buf.len() - consumed)` elements
    (F4 fix) instead of `array_size`.
  * the five type bytes of `parse_resp` and of `encode_resp` (must agree), the two nil
    encodings and the line terminator written by the encoder.
The values are also exercised differentially on every run (wrong detection ⇒ disagreement).
"""

def _byte_lit(s, what):
    m = re.fullmatch(r"b'(\\.|[^\\])'", s.strip())
    if not m:
        raise ExtractError(f"{what}: not a byte literal: {s!r}")
    bs = rust_bytes_literal(m.group(1))
    if len(bs) != 1:
        raise ExtractError(f"{what}: not a single byte: {s!r}")
    return bs[0]


def gen_respcfg():
    out = [HEADER, "namespace Um.Gen.Resp\n"]
    p = "src/protocol/stateless.rs"
    t = src(p)
    # --- terminator checks (F7) -------------------------------------------------------
    line = fn_body(t, "parse_line", p)
    bulk = fn_body(t, "parse_bulk_str", p)
    if "memchr(LF, buf)" not in line or "lf_index + 1 - 2" not in line:
        raise ExtractError(f"{p}: parse_line no longer has the expected shape")
    if "consumed + content_size + 2" not in bulk:
        raise ExtractError(f"{p}: parse_bulk_str no longer has the expected shape")
    line_chk = re.search(r"buf\.get\(lf_index - 1\)\s*!=\s*Some\(&CR\)", line) is not None
    bulk_chk = re.search(r"buf\.get\(end\.\.end \+ 2\)\s*!=\s*Some\(b\"\\r\\n\"", bulk) is not None
    # any other mention of CR / "\r" in these two functions is a shape we do not know
    other_line = ("CR" in re.sub(r"Some\(&CR\)", "", line)) or ("\\r" in line)
    other_bulk = ("\\r" in re.sub(r"Some\(b\"\\r\\n\"", "", bulk)) or ("CR" in bulk)
    if other_line or other_bulk or line_chk != bulk_chk:
        raise ExtractError(f"{p}: terminator checks have an unknown shape "
                           f"(line={line_chk}, bulk={bulk_chk}); the model has one switch for both")
    out.append(f"/-- `parse_line` rejects a line whose LF is not preceded by CR and `parse_bulk_str` rejects a\n"
               f"payload not followed by CRLF (F7 fix applied) — detected in {p} -/")
    out.append(f"def strictTerm : Bool := {'true' if line_chk else 'false'}")
    # --- nesting limit (F16b) / capped reservation (F4) -----------------------------------
    nested = re.search(r"\bfn\s+parse_resp_nested\b", t) is not None
    if nested:
        wrapper = fn_body(t, "parse_resp", p)
        if re.sub(r"\s+", "", wrapper) != "parse_resp_nested(buf,0)":
            raise ExtractError(f"{p}: parse_resp is not the wrapper parse_resp_nested(buf, 0)")
        body = fn_body(t, "parse_resp_nested", p)
        arr_fn = fn_body(t, "parse_array_nested", p)
        m = re.search(r"b'\*'\s*=>\s*\{\s*if depth >= MAX_NESTING \{\s*return Err\(ParseError::InvalidProtocol\);\s*\}\s*"
                      r"let \(mut v, consumed\) = parse_array_nested\(next_buf, depth \+ 1\)\?;", body)
        if not m or "parse_resp_nested(next_buf, depth)?" not in arr_fn or body.count("depth") != 2 \
                or arr_fn.count("depth") != 1:
            raise ExtractError(f"{p}: nesting limit has an unknown shape")
        max_nesting = f"some {const_num(t, 'MAX_NESTING', p)}"
    else:
        body = fn_body(t, "parse_resp", p)
        arr_fn = fn_body(t, "parse_array", p)
        if "depth" in body or "depth" in arr_fn or "MAX_NESTING" in t:
            raise ExtractError(f"{p}: nesting limit has an unknown shape")
        if "parse_array(next_buf)?" not in body or "parse_resp(next_buf)?" not in arr_fn:
            raise ExtractError(f"{p}: parse_resp/parse_array recursion not recognised")
        max_nesting = "none"
    caps = re.findall(r"Vec::with_capacity\(([^;]*)\);", arr_fn)
    if caps == ["array_size"]:
        cap_remaining = False
    elif caps == ["std::cmp::min(array_size, remaining)"] and \
            re.search(r"let remaining = buf\.len\(\)\.saturating_sub\(consumed\);", arr_fn):
        cap_remaining = True
    else:
        raise ExtractError(f"{p}: Vec::with_capacity of parse_array has an unknown shape: {caps}")
    if "for _ in 0..array_size" not in arr_fn or "buf.get(consumed..).ok_or(ParseError::InvalidProtocol)?" not in arr_fn:
        raise ExtractError(f"{p}: element loop of parse_array not recognised")
    out.append(f"/-- nesting limit of arrays (`MAX_NESTING`), `none` = unbounded recursion — {p} -/")
    out.append(f"def maxNesting : Option Nat := {max_nesting}")
    out.append(f"/-- `parse_array` reserves `min(array_size, bytes remaining)` elements — {p} -/")
    out.append(f"def capRemaining : Bool := {'true' if cap_remaining else 'false'}")
    # --- type bytes: parser ------------------------------------------------------------
    arms = re.findall(r"(b'(?:\\.|[^\\])')\s*=>\s*\{.*?RespIndex::(\w+)\(v\)", body, flags=re.S)
    parser = {kind: _byte_lit(lit, "parse_resp arm") for lit, kind in arms}
    if sorted(parser) != ["Arr", "Bulk", "Error", "Integer", "Simple"]:
        raise ExtractError(f"{p}: parse_resp arms not recognised: {parser}")
    if "parse_line" not in body or body.count("parse_line(next_buf)") != 3 or body.count("parse_bulk_str(next_buf)") != 1:
        raise ExtractError(f"{p}: parse_resp: expected three parse_line arms and one parse_bulk_str arm")
    # --- type bytes: encoder -----------------------------------------------------------
    pe = "src/protocol/encoder.rs"
    te = src(pe)
    eb = fn_body(te, "encode_resp", pe)
    enc = {}
    for kind, lit in re.findall(r"Resp::(\w+)\(s\)\s*=>\s*encode_simple_element\(writer,\s*b\"((?:[^\"\\]|\\.)*)\"", eb):
        enc[kind] = rust_bytes_literal(lit)
    ab = fn_body(te, "encode_array", pe)
    bb = fn_body(te, "encode_bulk_str", pe)
    m1 = re.search(r"Array::Nil\s*=>\s*writer\.write\(b\"((?:[^\"\\]|\\.)*)\"\)", ab)
    m2 = re.search(r"encode_simple_element\(writer,\s*b\"((?:[^\"\\]|\\.)*)\",\s*&arr\.len\(\)\.to_string\(\)", ab)
    m3 = re.search(r"BulkStr::Nil\s*=>\s*writer\.write\(b\"((?:[^\"\\]|\\.)*)\"\)", bb)
    m4 = re.search(r"b\"((?:[^\"\\]|\\.)*)\",\s*&s\.as_ref\(\)\.len\(\)\.to_string\(\)", bb)
    m5 = re.search(r"writer\.write\(s\.as_ref\(\)\)\?\s*\+\s*writer\.write\(b\"((?:[^\"\\]|\\.)*)\"\)", bb)
    sb = fn_body(te, "encode_simple_element", pe)
    m6 = re.search(r"writer\.write\(prefix\)\?\s*\+\s*writer\.write\(b\.as_ref\(\)\)\?\s*\+\s*writer\.write\(b\"((?:[^\"\\]|\\.)*)\"\)", sb)
    if not all([m1, m2, m3, m4, m5, m6]) or sorted(enc) != ["Error", "Integer", "Simple"]:
        raise ExtractError(f"{pe}: encoder no longer has the expected shape")
    enc["Arr"] = rust_bytes_literal(m2.group(1))
    enc["Bulk"] = rust_bytes_literal(m4.group(1))
    for k, v in enc.items():
        if v != [parser[k]]:
            raise ExtractError(f"type byte of {k}: encoder {v} vs parser {parser[k]}")
    names = {"Error": "tError", "Simple": "tSimple", "Integer": "tInteger", "Bulk": "tBulk", "Arr": "tArr"}
    for k in ["Error", "Simple", "Integer", "Bulk", "Arr"]:
        out.append(f"def {names[k]} : UInt8 := {parser[k]}  -- {p} parse_resp / {pe}")
    out.append(f"def nilArr : List UInt8 := {lean_bytes(rust_bytes_literal(m1.group(1)))}  -- {pe} encode_array")
    out.append(f"def nilBulk : List UInt8 := {lean_bytes(rust_bytes_literal(m3.group(1)))}  -- {pe} encode_bulk_str")
    crlf = rust_bytes_literal(m6.group(1))
    if rust_bytes_literal(m5.group(1)) != crlf:
        raise ExtractError(f"{pe}: bulk terminator differs from line terminator")
    out.append(f"def crlf : List UInt8 := {lean_bytes(crlf)}  -- {pe} encode_simple_element")
    pd = "src/protocol/decoder.rs"
    td = src(pd)
    m = re.search(r"pub const LF: u8 = (b'(?:\\.|[^\\])');", td)
    if not m:
        raise ExtractError(f"{pd}: const LF not found")
    out.append(f"def LF : UInt8 := {_byte_lit(m.group(1), 'LF')}  -- {pd}")
    return "\n".join(out) + "\n\nend Um.Gen.Resp\n"


MODULES = {"RespCfg": gen_respcfg}
