# Plugin of extract.py: tables of the coordinator <-> broker / proxy wire that C07 depends on by
# value: the HTTP status of every MetaStoreError (src/broker/service.rs `status_code`), which
# statuses HttpMetaManipulationBroker maps to success / Retry (src/coordinator/http_mani_broker.rs),
# the OLD_EPOCH / NOT_MY_META reply strings, the page size of the listing calls, the PING retry
# count and the order of the two `set_cluster_meta` calls in `sync_migration_state`.

_STATUS_NUM = {
    "OK": 200, "CONFLICT": 409, "NOT_FOUND": 404, "BAD_REQUEST": 400,
    "INTERNAL_SERVER_ERROR": 500, "GATEWAY_TIMEOUT": 504,
}


def _const_str(text, name, path):
    m = re.search(r"pub\s+const\s+" + re.escape(name) + r"\s*:\s*&(?:'static\s+)?str\s*=\s*\"([^\"]*)\"\s*;", text)
    if not m:
        raise ExtractError(f"{path}: const {name} not found")
    return m.group(1)


def gen_coord_tables():
    out = [HEADER, "namespace Um.Gen.Coord", ""]
    # ---- status codes -------------------------------------------------------------------------
    p = "src/broker/service.rs"
    t = src(p)
    body = fn_body(t, "status_code", p)
    arms = re.findall(r"MetaStoreError::(\w+)(?:\s*\{[^}]*\}|\([^)]*\))?\s*=>\s*http::StatusCode::(\w+)", body)
    if len(arms) < 20:
        raise ExtractError(f"{p}: status_code: only {len(arms)} arms recognised")
    # variant -> code string (`to_code`)
    ps = "src/broker/store.rs"
    ts = src(ps)
    cbody = fn_body(ts, "to_code", ps)
    codes = dict(re.findall(r"Self::(\w+)(?:\s*\{[^}]*\}|\([^)]*\))?\s*=>\s*\"([A-Z_]+)\"", cbody))
    if len(codes) < 20:
        raise ExtractError(f"{ps}: to_code: only {len(codes)} arms recognised")
    rows = []
    for variant, status in arms:
        if status not in _STATUS_NUM:
            raise ExtractError(f"{p}: status_code: unknown status {status}")
        if variant == "SyncError":
            continue  # its code comes from the wrapped MetaSyncError; never returned by the modelled calls
        if variant not in codes:
            raise ExtractError(f"{ps}: to_code has no arm for {variant}")
        rows.append((codes[variant], _STATUS_NUM[status]))
    out.append("/-- `MetaStoreError::status_code` keyed by `MetaStoreError::to_code` -/")
    out.append("def statusTable : List (String × Nat) := [")
    out.append(",\n".join(f'  ("{c}", {n})' for c, n in rows))
    out.append("]  -- src/broker/service.rs, src/broker/store.rs")
    # ---- HttpMetaManipulationBroker::commit_migration_impl ---------------------------------------
    p = "src/coordinator/http_mani_broker.rs"
    t = src(p)
    body = fn_body(t, "commit_migration_impl", p)
    m = re.search(r"if\s+status\.is_success\(\)\s*\|\|\s*status\.as_u16\(\)\s*==\s*(\d+)\s*\{\s*Ok\(\(\)\)\s*\}\s*else\s*\{\s*"
                  r"if\s+status\s*==\s*reqwest::StatusCode::(\w+)\s*\{\s*return\s+Err\(MetaManipulationBrokerError::Retry\)", body)
    if not m:
        raise ExtractError(f"{p}: commit_migration_impl: status handling not recognised")
    out.append(f"/-- non-2xx status that `commit_migration` counts as success -/")
    out.append(f"def COMMIT_OK_STATUS : Nat := {int(m.group(1))}  -- {p}")
    out.append(f"def COMMIT_RETRY_STATUS : Nat := {_STATUS_NUM[m.group(2)]}  -- {p}")
    body = fn_body(t, "replace_proxy_impl", p)
    m = re.search(r"if\s+status\.is_success\(\)\s*\{.*?\}\s*else\s*\{\s*if\s+status\s*==\s*reqwest::StatusCode::(\w+)\s*\{\s*return\s+Err\(MetaManipulationBrokerError::Retry\)", body, flags=re.S)
    if not m:
        raise ExtractError(f"{p}: replace_proxy_impl: status handling not recognised")
    out.append(f"def REPLACE_RETRY_STATUS : Nat := {_STATUS_NUM[m.group(1)]}  -- {p}")
    # ---- listing page size --------------------------------------------------------------------------
    p = "src/coordinator/http_meta_broker.rs"
    m = re.search(r"const\s+PAGE_SIZE\s*:\s*usize\s*=\s*(\d+)\s*;", src(p))
    if not m:
        raise ExtractError(f"{p}: PAGE_SIZE not found")
    out.append(f"def PAGE_SIZE : Nat := {int(m.group(1))}  -- {p}")
    # ---- reply strings ---------------------------------------------------------------------------
    p = "src/common/response.rs"
    t = src(p)
    out.append(f'def OLD_EPOCH_REPLY : String := "{_const_str(t, "OLD_EPOCH_REPLY", p)}"  -- {p}')
    out.append(f'def ERR_NOT_MY_META : String := "{_const_str(t, "ERR_NOT_MY_META", p)}"  -- {p}')
    # send_meta: OLD_EPOCH is success, any other error reply fails
    p = "src/coordinator/sync.rs"
    t = src(p)
    i0 = t.find("async fn send_meta<")
    if i0 < 0:
        raise ExtractError(f"{p}: free fn send_meta not found")
    body = fn_body(t[i0:], "send_meta", p)
    if not re.search(r"Resp::Error\(err_str\)\s*=>\s*\{\s*if\s+err_str\s*==\s*OLD_EPOCH_REPLY\.as_bytes\(\)\s*\{\s*Ok\(\(\)\)\s*\}", body):
        raise ExtractError(f"{p}: send_meta: OLD_EPOCH handling not recognised")
    out.append(f"/-- `send_meta` maps an `OLD_EPOCH` error reply to `Ok(())` -/")
    out.append(f"def OLD_EPOCH_IS_SUCCESS : Bool := true  -- {p}")
    # send_meta_impl: SETREPL first, never forced; SETCLUSTER second, never forced
    body = fn_body(src(p), "send_meta_impl", p)
    i1, i2 = body.find('"SETREPL"'), body.find('"SETCLUSTER"')
    forces = re.findall(r"force\s*:\s*(true|false)", body)
    if i1 < 0 or i2 < 0 or not i1 < i2 or forces != ["false", "false"]:
        raise ExtractError(f"{p}: send_meta_impl: SETREPL/SETCLUSTER order or flags not recognised")
    out.append(f"def SETREPL_BEFORE_SETCLUSTER : Bool := true  -- {p}")
    out.append(f"def COORDINATOR_FORCE : Bool := false  -- {p}")
    # ---- sync_migration_state: commit, dst, src ----------------------------------------------------
    p = "src/coordinator/core.rs"
    body = fn_body(src(p), "sync_migration_state", p)
    ic = body.find("commiter.commit(meta)")
    idst = body.find("Self::set_cluster_meta(dst_address")
    isrc = body.find("Self::set_cluster_meta(src_address")
    if min(ic, idst, isrc) < 0 or not (ic < idst < isrc):
        raise ExtractError(f"{p}: sync_migration_state: commit/dst/src order not recognised")
    out.append(f"/-- `sync_migration_state`: commit, then `set_cluster_meta(dst)`, then `set_cluster_meta(src)` -/")
    out.append(f"def DST_BEFORE_SRC : Bool := true  -- {p}")
    # ---- PingFailureDetector retry ------------------------------------------------------------------
    p = "src/coordinator/detector.rs"
    body = fn_body(src(p), "check_impl", p)
    m = re.search(r"const\s+RETRY\s*:\s*usize\s*=\s*(\d+)\s*;", body)
    if not m:
        raise ExtractError(f"{p}: check_impl: RETRY not found")
    out.append(f"def PING_RETRY : Nat := {int(m.group(1))}  -- {p}")
    out.append("\nend Um.Gen.Coord\n")
    return "\n".join(out)


MODULES = {"CoordTables": gen_coord_tables}
