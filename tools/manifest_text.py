"""Human-written texts of MANIFEST.json (claims per property)."""
HOOK_COMMITS = ["f456a54"]
NOTES = ("Every check = tools/vcheck <id>: regenerate UmGen tables from /repo/src, lake build the property's theorem "
         "module and audit #print axioms, rebuild the harness against /repo's working tree, run corpus + generated "
         "correspondence streams (real code vs compiled Lean model), decide, write evidence. See DESIGN.md.")
NOT_CLAIMED = {}
CHECKS = {
    "C19": {
        "text": "Proved for all PTTL replies n in [0, i64::MAX], -1 and -2 and every payload, on both transfer-path models (scan/UMSYNC and pull): RESTORE ttl t satisfies 1 <= t <= max(n,1); persistent stays persistent; missing keys are not restored. The model is tied to the code by generated constants and by running the real pttl_to_restore_expire_time against the Lean model on boundary/structured/random byte strings every run.",
        "design_ref": "§6 C19",
        "note": "Trusted: Lean kernel; btoi grammar transliteration (checked differentially); Redis PTTL/RESTORE semantics as stated; path models (produce_entries/get_data_entry reply matching) are hand-written.",
        "technique": "Lean 4 theorem over all i64 PTTL values + differential correspondence (real fn vs model)",
    },
}
