"""Human-written texts of MANIFEST.json (claims per property)."""
HOOK_COMMITS = ["f456a54", "3fe5350", "05ec647", "9178bf1", "9a4d3da"]
NOTES = ("Every check = tools/vcheck <id>: regenerate UmGen tables from /repo/src, lake build the property's theorem "
         "module and audit #print axioms, rebuild the harness against /repo's working tree, run corpus + generated "
         "correspondence streams (real code vs compiled Lean model), decide, write evidence. See DESIGN.md.")
NOT_CLAIMED = {}
