#!/bin/sh
# usage: eval_mutant.sh EVALDIR PID PATCH [tier]   — apply PATCH in EVALDIR/repo, run the check, revert
E="$1"; PID="$2"; PATCH="$3"; TIER="${4:-quick}"
git -C "$E/repo" checkout -q -- . && git -C "$E/repo" clean -fdq src tests 2>/dev/null
git -C "$E/repo" checkout -q --detach "$(git -C /repo rev-parse HEAD)"
git -C "$E/repo" apply "$PATCH" || { echo "PATCH DOES NOT APPLY"; exit 3; }
( cd "$E/verif" && tools/vcheck "$PID" --tier "$TIER" ); rc=$?
git -C "$E/repo" checkout -q -- .
echo "eval rc=$rc"
exit $rc
