"""extract.py plugin for C05: source-derived constants of the metadata-install paths.

UmGen/MetaConsts.lean:
  * reply strings of `handle_umctl_set_cluster` / `handle_umctl_setrepl` (src/proxy/executor.rs,
    src/common/response.rs);
  * `setMetaRejectsEqual` — the epoch test of `MetaManager::set_meta` is
    `epoch <= installed && !force` (`true`) or `epoch < installed && !force` (`false`);
  * `setMetaMapFirst` — `self.meta_map.store(..)` precedes `self.epoch.store(..)` in `set_meta`;
  * `setMetaHostCheckBeforeLock` — `check_hosts` precedes `self.lock.lock()`;
  * `setMetaPoints` — the six scheduling points of `set_meta` (hook H4) in program order, each checked to sit
    directly in front of the access it names (host check, lock, epoch test, map store, epoch store, unlock);
  * `switchReadsEpochFirst` — `handle_switch`, the only function that reads both shared cells, loads
    `epoch` before `meta_map`;
  * `replLoadRejectsEqual` / `replLockRejectsEqual` — the two epoch tests of
    `ReplicatorManager::update_replicators` (`updating_epoch.load() >= epoch`, `epoch <= replicators.0`);
  * `replInstallStoresUpdating` — pinned `true`: the install is directly followed, inside the write-locked
    section and without a scheduling point of its own, by `updating_epoch.store(epoch)` (fix of F05a);
  * `replPoints` — the names of the scheduling points in `update_replicators`, in program order
    (the harness parks OS threads exactly there; the model's program counter prints these names).
Any other shape of these fragments is refused (ExtractError ⇒ broken tie).
"""


def _squash(s):
    return re.sub(r"\s+", " ", s)


def gen_metaconsts():
    out = [HEADER, "namespace Um.Gen.Meta\n"]
    # --- reply strings ------------------------------------------------------------------
    p = "src/common/response.rs"
    t = src(p)
    out.append(f"def OLD_EPOCH_REPLY : String := {lean_str(const_str(t, 'OLD_EPOCH_REPLY', p))}  -- {p}")
    out.append(f"def ERR_NOT_MY_META : String := {lean_str(const_str(t, 'ERR_NOT_MY_META', p))}  -- {p}")
    out.append(f"def TRY_AGAIN_REPLY : String := {lean_str(const_str(t, 'TRY_AGAIN_REPLY', p))}  -- {p}")
    p = "src/proxy/executor.rs"
    t = src(p)
    b = _squash(fn_body(t, "handle_umctl_set_cluster", p))
    m = re.search(r'Ok\(\(\)\) => match extended_res \{ Ok\(\(\)\) => \{ .*?Resp::Simple\("([^"]*)"\.to_string\(\)\.into_bytes\(\)\).*?'
                  r'Err\(_\) => \{ cmd_ctx\.set_resp_result\(Ok\(Resp::Simple\( "([^"]*)"\.to_string\(\)\.into_bytes\(\)', b)
    if not m:
        raise ExtractError(f"{p}: handle_umctl_set_cluster: OK / WARNING arms not recognised")
    out.append(f"def SET_CLUSTER_OK : String := {lean_str(m.group(1))}  -- {p}")
    out.append(f"def SET_CLUSTER_WARNING : String := {lean_str(m.group(2))}  -- {p}")
    m = re.search(r'format!\("(Failed to parse args): \{:\?\}", err\)', b)
    if not m:
        raise ExtractError(f"{p}: handle_umctl_set_cluster: parse error arm not recognised")
    out.append(f"def SET_CLUSTER_PARSE_ERR_PREFIX : String := {lean_str(m.group(1))}  -- {p}")
    for arm, const in (("OldEpoch", "OLD_EPOCH_REPLY"), ("NotMyMeta", "ERR_NOT_MY_META"), ("TryAgain", "TRY_AGAIN_REPLY")):
        if not re.search(r"ClusterMetaError::" + arm + r" => cmd_ctx\.set_resp_result\(Ok\(Resp::Error\( response::"
                         + const + r"\.to_string\(\)\.into_bytes\(\)", b):
            raise ExtractError(f"{p}: handle_umctl_set_cluster: arm {arm} does not reply Error({const})")
    b = _squash(fn_body(t, "handle_umctl_setrepl", p))
    m = re.search(r'Ok\(\(\)\) => \{ .*?Resp::Simple\(String::from\("([^"]*)"\)\.into_bytes\(\)\)', b)
    if not m:
        raise ExtractError(f"{p}: handle_umctl_setrepl: OK arm not recognised")
    out.append(f"def SET_REPL_OK : String := {lean_str(m.group(1))}  -- {p}")
    m = re.search(r'Err\(_\) => \{ cmd_ctx\.set_resp_result\(Ok\(Resp::Error\( String::from\("([^"]*)"\)', b)
    if not m:
        raise ExtractError(f"{p}: handle_umctl_setrepl: parse error arm not recognised")
    out.append(f"def SET_REPL_PARSE_ERR : String := {lean_str(m.group(1))}  -- {p}")
    for arm, const in (("OldEpoch", "OLD_EPOCH_REPLY"), ("NotMyMeta", "ERR_NOT_MY_META")):
        if not re.search(r"ClusterMetaError::" + arm + r" => cmd_ctx\.set_resp_result\(Ok\(Resp::Error\( response::"
                         + const + r"\.to_string\(\)\.into_bytes\(\)", b):
            raise ExtractError(f"{p}: handle_umctl_setrepl: arm {arm} does not reply Error({const})")

    # --- MetaManager::set_meta ------------------------------------------------------------
    p = "src/proxy/manager.rs"
    t = src(p)
    b = _squash(fn_body(t, "set_meta", p))
    m = re.search(r"if cluster_meta\.get_epoch\(\) (<=|<) self\.epoch\.load\(Ordering::SeqCst\) && !cluster_meta\.get_flags\(\)\.force "
                  r"\{ return Err\(ClusterMetaError::OldEpoch\); \}", b)
    if not m:
        raise ExtractError(f"{p}: set_meta: epoch test has an unknown shape")
    out.append(f"/-- `set_meta` refuses a non-forced message whose epoch *equals* the installed one -/")
    out.append(f"def setMetaRejectsEqual : Bool := {'true' if m.group(1) == '<=' else 'false'}  -- {p}")
    i_chk = b.find("check_hosts(")
    i_lock = b.find("self.lock.lock()")
    i_cmp = m.start()
    i_map = b.find("self.meta_map.store(")
    i_ep = b.find("self.epoch.store(cluster_meta.get_epoch(), Ordering::SeqCst)")
    if min(i_chk, i_lock, i_map, i_ep) < 0 or b.count("self.meta_map.store(") != 1 or b.count("self.epoch.store(") != 1:
        raise ExtractError(f"{p}: set_meta: check_hosts / lock / meta_map.store / epoch.store not found exactly once")
    if not (i_lock < i_cmp < i_map and i_cmp < i_ep):
        raise ExtractError(f"{p}: set_meta: the epoch test and the two stores are not inside the locked section in the known order")
    if not re.search(r"if !local\.check_hosts\(self\.config\.announce_host\.as_str\(\), cluster_name\) \{ return Err\(ClusterMetaError::NotMyMeta\); \}", b):
        raise ExtractError(f"{p}: set_meta: host check has an unknown shape")
    if "NodeMap::new(cluster_meta.get_local().clone())" not in b:
        raise ExtractError(f"{p}: set_meta: host check is not over the local node map")
    # scheduling points of hook H4 (concurrent SETCLUSTER stream): six, in this order, each directly in front
    # of the access it names; the lock point is the last thing before `self.lock.lock()`, the unlock point the
    # last statement of the locked block
    spts = re.findall(r'verif_hook::point\("(setmeta\.[a-z_]+)"\)', b)
    want_pts = ["setmeta.check_hosts", "setmeta.lock", "setmeta.epoch_test", "setmeta.map_store",
                "setmeta.epoch_store", "setmeta.unlock"]
    if spts != want_pts:
        raise ExtractError(f"{p}: set_meta: scheduling points {spts} are not {want_pts}")
    pp = [b.find(f'verif_hook::point("{n}")') for n in want_pts]
    i_run = b.find("self.migration_manager.run_tasks(new_tasks);")
    if not (pp[0] < i_chk < pp[1] < i_lock < pp[2] < i_cmp < pp[3] < i_map < pp[4] < i_ep < i_run < pp[5]):
        raise ExtractError(f"{p}: set_meta: scheduling points and shared accesses are not interleaved as known")
    if not re.search(r'verif_hook::point\("setmeta\.lock"\); let _guard = self\.lock\.lock\(\);', b):
        raise ExtractError(f"{p}: set_meta: the lock point does not directly precede `self.lock.lock()`")
    if not re.search(r'verif_hook::point\("setmeta\.unlock"\); \}; Ok\(\(\)\)', b):
        raise ExtractError(f"{p}: set_meta: the unlock point is not the last statement of the locked block")
    if b.count("self.epoch.load(") != 1 or b.count("self.lock.lock()") != 1:
        raise ExtractError(f"{p}: set_meta: epoch load / lock not found exactly once")
    out.append("def setMetaPoints : List String := [" + ", ".join(lean_str(n) for n in want_pts) + f"]  -- {p}")
    out.append(f"/-- `self.meta_map.store(..)` comes before `self.epoch.store(..)` -/")
    out.append(f"def setMetaMapFirst : Bool := {'true' if i_map < i_ep else 'false'}  -- {p}")
    out.append(f"def setMetaHostCheckBeforeLock : Bool := {'true' if i_chk < i_lock else 'false'}  -- {p}")
    # the only reader of both shared cells: handle_switch loads the epoch first, the snapshot afterwards
    hb = _squash(fn_body(t, "handle_switch", p))
    j_ep = hb.find("self.epoch.load(Ordering::SeqCst)")
    j_map = hb.find("self.meta_map.load()")
    if j_ep < 0 or j_map < 0 or hb.count("self.epoch.load(") != 1 or hb.count("self.meta_map.load()") != 1:
        raise ExtractError(f"{p}: handle_switch: epoch / meta_map loads not found exactly once")
    out.append(f"/-- `handle_switch` loads `epoch` before `meta_map` -/")
    out.append(f"def switchReadsEpochFirst : Bool := {'true' if j_ep < j_map else 'false'}  -- {p}")
    # no other function reads both cells
    for fn in re.findall(r"\bfn\s+(\w+)", t):
        if fn in ("set_meta", "handle_switch", "new"):
            continue
        try:
            fb = fn_body(t, fn, p)
        except ExtractError:
            continue
        if "self.epoch.load(" in fb and "meta_map.load()" in fb:
            raise ExtractError(f"{p}: fn {fn} reads both epoch and meta_map: a reader the skew lemma does not know")

    # --- NodeMap::check_hosts, extract_host_from_address ----------------------------------------
    p = "src/common/proto.rs"
    b = _squash(fn_body(src(p), "check_hosts", p))
    if not ("for local_node_address in self.0.keys()" in b
            and "extract_host_from_address(local_node_address.as_str())" in b
            and re.search(r"None => \{ .*?return false; \}", b)
            and re.search(r"if host != announce_host \{ .*?return false; \}", b)
            and b.rstrip().endswith("true")):
        raise ExtractError(f"{p}: check_hosts has an unknown shape")
    p = "src/common/utils.rs"
    b = _squash(fn_body(src(p), "extract_host_from_address", p))
    if b.strip() != "let mut it = address.splitn(2, ':'); let host = it.next()?; it.next()?; Some(host)":
        raise ExtractError(f"{p}: extract_host_from_address has an unknown shape")

    # --- ReplicatorManager::update_replicators ---------------------------------------------------
    p = "src/replication/manager.rs"
    raw = src(p)
    b = _squash(fn_body(raw, "update_replicators", p))
    pts = re.findall(r'verif_hook::point\("([^"]+)"\)', b)
    if len(pts) != 4:
        raise ExtractError(f"{p}: update_replicators: expected four scheduling points, found {pts}")
    m1 = re.search(r"if !force && self\.updating_epoch\.load\(atomic::Ordering::SeqCst\) (>=|>) epoch \{ return Err\(ClusterMetaError::OldEpoch\); \}", b)
    m2 = re.search(r"let mut replicators = self\.replicators\.write\(\); if !force && epoch (<=|<) replicators\.0 \{ "
                   r"self\.updating_epoch \.store\(replicators\.0, atomic::Ordering::SeqCst\); return Err\(ClusterMetaError::OldEpoch\); \}", b)
    m3 = re.search(r"self\.updating_epoch\.store\(epoch, atomic::Ordering::SeqCst\);", b)
    m4 = re.search(r"self\.replicators\.read\(\)\.1\.iter\(\)", b)
    # the install, followed inside the write-locked section by the repair of `updating_epoch`
    # (fix be85753 of finding F05a); the repaired shape is pinned: without the store the model is wrong
    m5 = re.search(r"\*replicators = \(epoch, new_replicators\); self\.updating_epoch\.store\(epoch, atomic::Ordering::SeqCst\); \} Ok\(\(\)\)", b)
    if not m5:
        raise ExtractError(f"{p}: update_replicators: `*replicators = (epoch, new_replicators);` is not directly followed, "
                           f"inside the write-locked block, by `self.updating_epoch.store(epoch, SeqCst);` (F05a fix missing or moved)")
    if not (m1 and m2 and m3 and m4 and m5):
        raise ExtractError(f"{p}: update_replicators: load test / store / read / locked re-check / install not recognised")
    # each point must directly precede its access, in program order
    pos = [b.find(f'verif_hook::point("{n}")') for n in pts]
    acc = [m1.start(), m3.start(), m4.start(), m2.start()]
    order = sorted(pos + acc + [m5.start()])
    want = [pos[0], acc[0], pos[1], acc[1], pos[2], acc[2], pos[3], acc[3], m5.start()]
    if order != want:
        raise ExtractError(f"{p}: update_replicators: scheduling points and shared accesses are not interleaved as known")
    if b.count("self.updating_epoch") != 4 or b.count("self.replicators.") != 2 or b.count("verif_hook::point") != 4:
        raise ExtractError(f"{p}: update_replicators: unexpected number of shared-variable accesses")
    hv = re.findall(r"for meta in (masters|replicas)\.iter\(\) \{ if Some\(true\) != extract_host_from_address\(meta\.(master|replica)_node_address\.as_str\(\)\) "
                    r"\.map\(\|host\| host == announce_host\) \{ return Err\(ClusterMetaError::NotMyMeta\); \} \}", b)
    if hv != [("masters", "master"), ("replicas", "replica")] or b.find("for meta in replicas.iter() { if Some(true)") > pos[0]:
        raise ExtractError(f"{p}: update_replicators: host validation has an unknown shape")
    out.append(f"/-- `updating_epoch.load() >= epoch` (true) or `> epoch` (false) -/")
    out.append(f"def replLoadRejectsEqual : Bool := {'true' if m1.group(1) == '>=' else 'false'}  -- {p}")
    out.append(f"/-- `epoch <= replicators.0` (true) or `< replicators.0` (false) -/")
    out.append(f"def replLockRejectsEqual : Bool := {'true' if m2.group(1) == '<=' else 'false'}  -- {p}")
    out.append(f"/-- the install under the write lock is followed, in the same locked section, by `updating_epoch.store(epoch)` -/")
    out.append(f"def replInstallStoresUpdating : Bool := true  -- {p}")
    out.append("def replPoints : List String := [" + ", ".join(lean_str(n) for n in pts) + f"]  -- {p}")
    return "\n".join(out) + "\n\nend Um.Gen.Meta\n"


MODULES = {"MetaConsts": gen_metaconsts}
