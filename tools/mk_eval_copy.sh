#!/bin/sh
# Build an isolated evaluation copy: DIR/verif (a copy of /verif incl. build caches) and
# DIR/repo (a git worktree of /repo HEAD), with every absolute path redirected, so that seeded
# changes can be evaluated without touching /repo while other work is building against it.
# usage: mk_eval_copy.sh DIR      then:  DIR/verif/tools/vcheck Cxx --tier quick
set -e
DIR="$1"
[ -n "$DIR" ] || { echo "usage: $0 DIR"; exit 2; }
rm -rf "$DIR/verif"
mkdir -p "$DIR"
if [ ! -d "$DIR/repo" ]; then git -C /repo worktree add --detach "$DIR/repo" HEAD >/dev/null; fi
rsync -a --exclude .git --exclude .build/run --exclude evidence/replay /verif/ "$DIR/verif/" || true
sed -i "s#path = \"/repo\"#path = \"$DIR/repo\"#" "$DIR/verif/harness/Cargo.toml"
sed -i "s#/verif/.build/target#$DIR/verif/.build/target#" "$DIR/verif/harness/.cargo/config.toml"
sed -i "s#^REPO = \"/repo\"#REPO = \"$DIR/repo\"#" "$DIR/verif/tools/extract.py"
grep -rl '"/repo' "$DIR/verif/tools" "$DIR/verif/harness/src" 2>/dev/null | while read f; do sed -i "s#\"/repo#\"$DIR/repo#g" "$f"; done
echo "eval copy ready: $DIR (repo worktree at $(git -C "$DIR/repo" rev-parse --short HEAD))"
