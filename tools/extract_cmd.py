"""extract.py plugin (C09, reusable by C02/C11/C14): command-type tables of the proxy.

Generates lean/UmGen/CmdTables.lean from
  src/proxy/command.rs   CmdType::from_cmd_name, DataCmdType::from_cmd_name, MAX_COMMAND_NAME_LENGTH,
                         CommandInfo::get_key (key position per DataCmdType)
  src/proxy/executor.rs  handle_data_cmd (DataCmdType -> handler, with the `if element(k).is_some()` guard),
                         get_non_blocking_name, get_command_arg_len
  src/common/response.rs reply strings used by routing
  src/proxy/cluster.rs, src/proxy/manager.rs  literal error strings of the routing path
Every table is emitted in source order.  Names are byte lists (proofs evaluate them with `decide`),
enum variants / handler function names are strings.
"""


def _impl_block(text, header_re, path):
    m = re.search(header_re, text)
    if not m:
        raise ExtractError(f"{path}: block {header_re} not found")
    i = text.index("{", m.end() - 1)
    depth, j = 0, i
    while j < len(text):
        if text[j] == "{":
            depth += 1
        elif text[j] == "}":
            depth -= 1
            if depth == 0:
                return text[i + 1 : j]
        j += 1
    raise ExtractError(f"{path}: unbalanced braces after {header_re}")


def _name_table(text, enum, path):
    """arms `b"NAME" => Enum::Variant,` of `impl Enum { fn from_cmd_name }`"""
    blk = _impl_block(text, r"\bimpl\s+" + enum + r"\s*\{", path)
    body = fn_body(blk, "from_cmd_name", path)
    m = re.search(r"match\s+cmd_name\s*\{(.*)\}", body, flags=re.S)
    if not m:
        raise ExtractError(f"{path}: {enum}::from_cmd_name: `match cmd_name` not found")
    arms = [a.strip() for a in m.group(1).split(",") if a.strip()]
    rows, default = [], None
    for a in arms:
        mm = re.fullmatch(r'b"([A-Z0-9_]+)"\s*=>\s*' + enum + r"::(\w+)", a)
        if mm:
            rows.append((mm.group(1), mm.group(2)))
            continue
        mm = re.fullmatch(r"_\s*=>\s*" + enum + r"::(\w+)", a)
        if mm:
            default = mm.group(1)
            continue
        raise ExtractError(f"{path}: {enum}::from_cmd_name: unexpected arm `{a}`")
    if not rows or default is None:
        raise ExtractError(f"{path}: {enum}::from_cmd_name: no arms / no default")
    # the early return for over-long names must yield the same default
    if not re.search(r"try_push\(byte_to_uppercase\(\*b\)\)", body) or not re.search(
        r"return\s+" + enum + r"::" + default, body
    ):
        raise ExtractError(f"{path}: {enum}::from_cmd_name: upper-casing / long-name shape changed")
    names = [r[0] for r in rows]
    if len(set(names)) != len(names):
        raise ExtractError(f"{path}: {enum}::from_cmd_name: duplicate name")
    return rows, default


def _enum_variants(text, enum, path):
    blk = _impl_block(text, r"\bpub\s+enum\s+" + enum + r"\s*\{", path)
    blk = strip_comments(blk)
    vs = [v.strip() for v in blk.split(",") if v.strip()]
    for v in vs:
        if not re.fullmatch(r"\w+", v):
            raise ExtractError(f"{path}: enum {enum}: unexpected variant `{v}`")
    return vs


def _split_arms(body, path):
    """top-level `pattern => expr` arms of a match body: [(head, rhs)]"""
    arms, i, n = [], 0, len(body)
    while i < n:
        # head: up to the next top-level "=>"
        depth, j = 0, i
        while j < n:
            c = body[j]
            if c in "({[":
                depth += 1
            elif c in ")}]":
                depth -= 1
            elif c == "=" and body[j:j + 2] == "=>" and depth == 0:
                break
            j += 1
        if j >= n:
            if body[i:].strip():
                raise ExtractError(f"{path}: trailing text in match body: {body[i:].strip()[:40]}")
            break
        head = body[i:j].strip()
        k = j + 2
        while k < n and body[k].isspace():
            k += 1
        depth, e = 0, k
        if k < n and body[k] == "{":
            while e < n:
                if body[e] == "{":
                    depth += 1
                elif body[e] == "}":
                    depth -= 1
                    if depth == 0:
                        e += 1
                        break
                e += 1
        else:
            while e < n:
                c = body[e]
                if c in "({[":
                    depth += 1
                elif c in ")}]":
                    depth -= 1
                elif c == "," and depth == 0:
                    break
                e += 1
        rhs = body[k:e]
        while e < n and (body[e].isspace() or body[e] == ","):
            e += 1
        arms.append((head, rhs))
        i = e
    return arms


def _lean_list(items, indent="  "):
    return "[\n" + ",\n".join(indent + i for i in items) + "]"


def gen_cmd_tables():
    out = [HEADER, "namespace Um.Gen\n"]
    p = "src/proxy/command.rs"
    t = src(p)
    out.append(f"def MAX_COMMAND_NAME_LENGTH : Nat := {const_num(t, 'MAX_COMMAND_NAME_LENGTH', p)}  -- {p}")

    for enum, lname in (("CmdType", "cmdType"), ("DataCmdType", "dataCmdType")):
        rows, default = _name_table(t, enum, p)
        variants = _enum_variants(t, enum, p)
        for _, v in rows:
            if v not in variants:
                raise ExtractError(f"{p}: {enum}: arm names unknown variant {v}")
        out.append(f"\n/-- `{enum}::from_cmd_name`: upper-cased name bytes → variant ({p}) -/")
        out.append(f"def {lname}Table : List (List UInt8 × String) := " + _lean_list(
            [f"/- {n} -/ ({lean_bytes(list(n.encode()))}, {lean_str(v)})" for n, v in rows]))
        out.append(f"def {lname}Default : String := {lean_str(default)}")
        out.append(f"def {lname}Variants : List String := [{', '.join(lean_str(v) for v in variants)}]")

    # CmdType::from_packet / DataCmdType::from_packet: missing element 0
    b = fn_body(_impl_block(t, r"\bimpl\s+CmdType\s*\{", p), "from_packet", p)
    m = re.search(r"None\s*=>\s*return\s+CmdType::(\w+)", b)
    if not m or "get_array_element(0)" not in b:
        raise ExtractError(f"{p}: CmdType::from_packet shape changed")
    out.append(f"def cmdTypeNoName : String := {lean_str(m.group(1))}")
    b = fn_body(_impl_block(t, r"\bimpl\s+DataCmdType\s*\{", p), "from_packet", p)
    m = re.search(r"None\s*=>\s*return\s+DataCmdType::(\w+)", b)
    if not m or "get_array_element(0)" not in b:
        raise ExtractError(f"{p}: DataCmdType::from_packet shape changed")
    out.append(f"def dataCmdTypeNoName : String := {lean_str(m.group(1))}")

    # CommandInfo::get_key
    b = fn_body(_impl_block(t, r"\bimpl\s+CommandInfo\s*\{", p), "get_key", p)
    m = re.search(r"match\s+data_cmd_type\s*\{(.*)\}", b, flags=re.S)
    if not m:
        raise ExtractError(f"{p}: CommandInfo::get_key: match not found")
    rows, default = [], None
    for a in [x.strip() for x in m.group(1).split(",") if x.strip()]:
        mm = re.fullmatch(r"((?:DataCmdType::\w+\s*\|?\s*)+)=>\s*packet\.get_array_element\((\d+)\)", a)
        if mm:
            for v in re.findall(r"DataCmdType::(\w+)", mm.group(1)):
                rows.append((v, int(mm.group(2))))
            continue
        mm = re.fullmatch(r"_\s*=>\s*packet\.get_array_element\((\d+)\)", a)
        if mm:
            default = int(mm.group(1))
            continue
        raise ExtractError(f"{p}: CommandInfo::get_key: unexpected arm `{a}`")
    if default is None:
        raise ExtractError(f"{p}: CommandInfo::get_key: no default arm")
    out.append(f"\n/-- `CommandInfo::get_key`: argument index of the routing key per DataCmdType ({p}) -/")
    out.append("def keyIndexTable : List (String × Nat) := [" + ", ".join(f"({lean_str(v)}, {i})" for v, i in rows) + "]")
    out.append(f"def keyIndexDefault : Nat := {default}")
    nb = fn_body(_impl_block(t, r"\bimpl\s+CommandInfo\s*\{", p), "new", p)
    if not re.search(r"Self::get_key\(data_cmd_type,\s*packet\)\.map\(generate_slot\)", nb):
        raise ExtractError(f"{p}: CommandInfo::new: slot is no longer get_key(..).map(generate_slot)")
    # the cached CommandInfo (type, data type, slot) follows the packet: the model computes `slotOfCmd` from the
    # command as it is *after* UMFORWARD has been stripped / prepended (`handleUmforward`, `wrapForward`)
    cb = _impl_block(t, r"\bimpl\s+Command\s*\{", p)
    for fn in ("extract_inner_cmd", "wrap_cmd"):
        if not re.search(r"self\.info\s*=\s*CommandInfo::new\(&self\.request\)", fn_body(cb, fn, p)):
            raise ExtractError(f"{p}: Command::{fn}: the cached CommandInfo is no longer rebuilt from the new packet")
    if not re.search(r"^\s*self\.info\.slot\s*$", fn_body(cb, "get_slot", p), flags=re.M):
        raise ExtractError(f"{p}: Command::get_slot: no longer the cached CommandInfo slot")

    # handle_data_cmd dispatch
    p = "src/proxy/executor.rs"
    t = src(p)
    b = fn_body(t, "handle_data_cmd", p)
    m = re.search(r"match\s+cmd_ctx\.get_data_cmd_type\(\)\s*\{(.*)\}", b, flags=re.S)
    if not m:
        raise ExtractError(f"{p}: handle_data_cmd: match not found")
    body = m.group(1)
    arms = _split_arms(body, p)
    hrows, hdefault = [], None
    known = {"handle_mget", "handle_mset", "handle_msetnx", "handle_multi_int_cmd", "handle_blocking_commands",
             "handle_eval_cmd", "handle_single_key_data_cmd"}
    for head, rhs in arms:
        hm = re.search(r"self\s*\.\s*(handle_\w+)\s*\(", rhs)
        if not hm or hm.group(1) not in known:
            raise ExtractError(f"{p}: handle_data_cmd: arm `{head.strip()}` calls an unknown handler")
        fn = hm.group(1)
        extra = ""
        if fn == "handle_multi_int_cmd":
            em = re.search(r'reply_receiver,\s*"(\w+)"', rhs)
            if not em:
                raise ExtractError(f"{p}: handle_data_cmd: multi_int command name not found")
            extra = em.group(1)
        gm = re.search(r"if\s+cmd_ctx\.get_cmd\(\)\.get_command_element\((\d+)\)\.is_some\(\)", head)
        if "if" in head and not gm:
            raise ExtractError(f"{p}: handle_data_cmd: unexpected guard `{head.strip()}`")
        guard = f"some {gm.group(1)}" if gm else "none"
        if head.strip().startswith("_"):
            hdefault = fn
            continue
        for v in re.findall(r"DataCmdType::(\w+)", head):
            hrows.append((v, fn, guard, extra))
    if hdefault is None:
        raise ExtractError(f"{p}: handle_data_cmd: no default arm")
    out.append(f"\n/-- `ForwardHandler::handle_data_cmd`: (DataCmdType, handler fn, guard `element(k).is_some()`, sub-command name) ({p}) -/")
    out.append("def dataHandlerTable : List (String × String × Option Nat × List UInt8) := " + _lean_list(
        [f"({lean_str(v)}, {lean_str(fn)}, {g}, {lean_bytes(list(e.encode()))})" for v, fn, g, e in hrows]))
    out.append(f"def dataHandlerDefault : String := {lean_str(hdefault)}")

    # get_non_blocking_name
    b = fn_body(t, "get_non_blocking_name", p)
    rows = re.findall(r'DataCmdType::(\w+)\s*=>\s*Ok\("(\w+)"\)', b)
    if not rows:
        raise ExtractError(f"{p}: get_non_blocking_name: no arms")
    out.append(f"\n/-- `get_non_blocking_name` ({p}) -/")
    out.append("def nonBlockingNameTable : List (String × List UInt8) := [" + ", ".join(
        f"({lean_str(v)}, {lean_bytes(list(n.encode()))})" for v, n in rows) + "]")

    # get_command_arg_len
    b = fn_body(t, "get_command_arg_len", p)
    rows = re.findall(r"\(DataCmdType::(\w+),\s*Some\(len\)\)\s*if\s+len\s*(>|==)\s*(\d+)\s*=>\s*Ok\(len\)", b)
    if not rows:
        raise ExtractError(f"{p}: get_command_arg_len: no arms")
    out.append(f"\n/-- `get_command_arg_len`: (DataCmdType, exact?, bound): `len == bound` if exact else `len > bound` ({p}) -/")
    out.append("def blockingArgLenTable : List (String × Bool × Nat) := [" + ", ".join(
        f"({lean_str(v)}, {'true' if op == '==' else 'false'}, {n})" for v, op, n in rows) + "]")

    # reply strings
    p = "src/common/response.rs"
    t = src(p)
    out.append("")
    for n in ["OK_REPLY", "ERR_NOT_THE_SAME_SLOT", "ERR_CLUSTER_NOT_FOUND", "ERR_MOVED", "ERR_TOO_MANY_REDIRECTIONS"]:
        out.append(f"def {n} : List UInt8 := {lean_bytes(list(const_str(t, n, p).encode()))}  -- {p}: {lean_str(const_str(t, n, p))}")

    # literal error strings of the routing path (checked to be still present)
    p = "src/proxy/cluster.rs"
    t = src(p)
    if t.count('Resp::Error("missing key".to_string().into_bytes())') < 2:
        raise ExtractError(f"{p}: `missing key` reply not found in LocalCluster::send / RemoteCluster::send_remote")
    if 'format!("slot not covered {}", slot)' not in t:
        raise ExtractError(f"{p}: `slot not covered` reply not found")
    out.append(f"def ERR_MISSING_KEY : List UInt8 := {lean_bytes(list(b'missing key'))}  -- {p}: \"missing key\"")
    out.append(f"def ERR_SLOT_NOT_COVERED_PREFIX : List UInt8 := {lean_bytes(list(b'slot not covered '))}  -- {p}: format!(\"slot not covered {{}}\", slot)")
    p = "src/common/utils.rs"
    t = src(p)
    if 'format!("{} {} {}", ERR_MOVED, slot, addr)' not in t:
        raise ExtractError(f"{p}: gen_moved shape changed")
    b = fn_body(t, "generate_slot", p)
    if not re.search(r"State::<XMODEM>::calculate\(get_hash_tag\(key\)\)\s*as\s+usize\s*%\s*SLOT_NUM", b):
        raise ExtractError(f"{p}: generate_slot shape changed")
    b = fn_body(t, "generate_lock_slot", p)
    if not re.search(r"State::<ARC>::calculate\(key\)\s*as\s+usize\s*%\s*SLOT_NUM", b):
        raise ExtractError(f"{p}: generate_lock_slot shape changed")
    out.append("def SLOT_CRC : String := \"XMODEM\"  -- src/common/utils.rs generate_slot")
    out.append("def LOCK_SLOT_CRC : String := \"ARC\"  -- src/common/utils.rs generate_lock_slot")
    return "\n".join(out) + "\n\nend Um.Gen\n"


MODULES = {"CmdTables": gen_cmd_tables}
