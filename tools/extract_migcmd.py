"""extract.py plugin (C03): the classification of data commands used by live migration.

Generates lean/UmGen/MigCmd.lean from
  src/proxy/command.rs          requires_blocking_migration (the `matches!` list, in source order)
  src/proxy/table.rs            SUPPORTED_COMMANDS (the project's own "supported command" table)
  src/proxy/migration_backend.rs  KEY_NOT_EXISTS, BUSYKEY literal, LOCK_SHARD_SIZE, pending-UMSYNC RETRY_TIMES
  src/common/response.rs        MIGRATING_FINISHED, MIGRATION_TASK_NOT_FOUND
The DataCmdType name table itself comes from UmGen/CmdTables.lean (C09's extractor).
"""


def gen_migcmd():
    out = [HEADER, "namespace Um.Gen\n"]
    p = "src/proxy/command.rs"
    t = src(p)
    body = fn_body(t, "requires_blocking_migration", p)
    m = re.search(r"matches!\s*\(\s*data_cmd_type\s*,(.*)\)\s*$", body.strip(), flags=re.S)
    if not m:
        raise ExtractError(f"{p}: requires_blocking_migration: `matches!(data_cmd_type, ..)` shape changed")
    alts = [a.strip() for a in m.group(1).split("|") if a.strip()]
    names = []
    for a in alts:
        mm = re.fullmatch(r"DataCmdType::(\w+)", a)
        if not mm:
            raise ExtractError(f"{p}: requires_blocking_migration: unexpected alternative `{a}`")
        names.append(mm.group(1))
    if len(set(names)) != len(names) or not names:
        raise ExtractError(f"{p}: requires_blocking_migration: empty or duplicate list")
    out.append("/-- `requires_blocking_migration`: DataCmdType variants sent through the UMSYNC push path (src/proxy/command.rs) -/")
    out.append("def requiresBlockingMigration : List String := [" + ", ".join(lean_str(n) for n in names) + "]")

    p = "src/proxy/table.rs"
    t = src(p)
    m = re.search(r"const\s+SUPPORTED_COMMANDS\s*:\s*\[&\[u8\];\s*(\d+)\]\s*=\s*\[(.*?)\];", t, flags=re.S)
    if not m:
        raise ExtractError(f"{p}: SUPPORTED_COMMANDS not found")
    sup = re.findall(r'b"([a-z_0-9]+)"', m.group(2))
    if len(sup) != int(m.group(1)):
        raise ExtractError(f"{p}: SUPPORTED_COMMANDS: {len(sup)} literals, declared {m.group(1)}")
    out.append("\n/-- `SUPPORTED_COMMANDS` upper-cased (src/proxy/table.rs), in source order -/")
    out.append("def supportedCommands : List (List UInt8) := [\n" + ",\n".join(
        f"  /- {s.upper()} -/ {lean_bytes(list(s.upper().encode()))}" for s in sup) + "]")

    p = "src/proxy/migration_backend.rs"
    t = src(p)
    out.append(f"\ndef KEY_NOT_EXISTS : List UInt8 := {lean_bytes(list(const_str(t, 'KEY_NOT_EXISTS', p).encode()))}  -- {p}")
    out.append(f"def BUSYKEY : List UInt8 := {lean_bytes(const_bytes(t, 'BUSYKEY', p))}  -- {p}")
    out.append(f"def LOCK_SHARD_SIZE : Nat := {const_num(t, 'LOCK_SHARD_SIZE', p)}  -- {p}")
    out.append(f"def UMSYNC_LOCK_RETRY_TIMES : Nat := {const_num(t, 'RETRY_TIMES', p)}  -- {p} handle_pending_umsync_task")
    p = "src/common/response.rs"
    t = src(p)
    for n in ["MIGRATING_FINISHED", "MIGRATION_TASK_NOT_FOUND", "TASK_NOT_FOUND", "NOT_READY_FOR_SWITCHING_REPLY"]:
        out.append(f"def {n} : List UInt8 := {lean_bytes(list(const_str(t, n, p).encode()))}  -- {p}: {lean_str(const_str(t, n, p))}")
    return "\n".join(out) + "\n\nend Um.Gen\n"


MODULES = {"MigCmd": gen_migcmd}
