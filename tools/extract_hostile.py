"""extract.py plugin for C16: source-derived switches and constants of the hostile-input model.

UmGen/HostileCfg.lean (namespace Um.Gen.Hostile):
  * `capRemaining` — `parse_array` reserves `min(array_size, remaining bytes)` elements (the F4 fix,
    /verif/.build/patches/f4.diff) instead of `array_size` (unpatched tree ⇒ `false`);
  * `maxNesting` — `Some n` when `parse_resp` rejects arrays nested deeper than `MAX_NESTING = n`
    (the F16b fix, /verif/.build/patches/f16b.diff), `none` on the unpatched tree;
  * `numkeysBounded` — `handle_eval_cmd` rejects `numkeys > argc` before iterating (the F5 fix,
    /verif/.build/patches/f5.diff);
  * `blockingEmptyGuard` — `handle_blocking_commands` answers an error when the rewritten command
    list is empty (the F16a fix, /verif/.build/patches/f16a.diff);
  * `slowlogBoundarySafe` — `get_brief_command` truncates on a char boundary (the F16c fix,
    /verif/.build/patches/f16c.diff);
  * `rangeMapBounded` — `impl From<&RangeList> for RangeMap` guards `min_slot <= max_slot` and walks each
    range only up to `SLOT_NUM - 1` (the F16e fix, /verif/.build/patches/f16e.diff);
  * `compressedCompact` — `ProxyClusterMeta::from_resp` compacts the range lists of a compressed
    (serde) `UMCTL SETCLUSTER` (/verif/.build/patches/C14-compressed-meta-compact.diff);
  * `clusterNameAscii` — `ClusterName::try_from` admits ASCII alphanumerics and `@-_` only (then `gen_node_id`'s
    `String::truncate(24)` is always on a char boundary); `false` when it uses `char::is_alphanumeric`;
  * `umctlCountPrealloc` — always `false`: the UMCTL parsers (src/common/proto.rs, src/common/cluster.rs,
    src/replication/replicator.rs, src/migration/task.rs, non-test code) contain exactly the pinned reservations
    `Vec::with_capacity(arr.len().saturating_sub(2))` (×2, bounded by the real element count) and
    `vec![false; map_len]` (RangeMap, see `rangeMapBounded`); any other `with_capacity` / `reserve` / `vec![_; n]`
    (e.g. one sized by a client-declared count such as `peer_num`) is refused;
  * `hashTagEndAfterBegin` — `get_hash_tag` looks for the closing brace *after* the opening one (`key.get(begin + 1..)`
    then `position('}')`), so the final `expect` is unreachable; `false` for the shape that takes the first `}` of the
    whole key (`memchr(b'}', key)`) and slices `key.get(begin + 1..end).expect(..)`;
  * `configSetFields` — the arms of `ServerProxyConfig::set_value`: (field, "i64" | "u64" | "readonly"), in source order;
  * `rateLimiterClamped` — `SlowLogRateLimiter::check_current_enabled` clamps the rate with `max(1, rate)` before `%`;
  * `slotMapBounded` — `SlotMapData::new` (local and peer slot tables) skips `start > end` and leaves its fill loop at
    `s >= SLOT_NUM`; together with the pinned shape of `NodeMap::parse_tagged_slot_range` (no validation that only the
    textual SETCLUSTER form would pass: the compressed form is deserialised by serde and never sees that parser);
  * `overflowChecks` — `[profile.release] overflow-checks` of /repo/Cargo.toml (absent ⇒ `false`:
    `3 + key_num` wraps);
  * constants: `CLUSTER_NAME_MAX_LENGTH`, `MAX_ELEMENT_LENGTH`, `LOG_ELEMENT_NUMBER`,
    `SESSION_BATCH_BUF`, default `slowlog_len`.
Every fragment is matched against the two shapes it may have (unpatched / patched); any other
shape is refused (ExtractError ⇒ broken tie).  All switches are also exercised differentially on
every run (a wrong detection shows up as a disagreement between the real code and the model).
"""


def _sq(s):
    return re.sub(r"\s+", " ", s)


def _b(x):
    return "true" if x else "false"


def gen_hostilecfg():
    out = [HEADER, "namespace Um.Gen.Hostile\n"]
    # --- parse_array capacity (F4) --------------------------------------------------------
    p = "src/protocol/stateless.rs"
    t = src(p)
    # with the nesting limit the loop lives in `parse_array_nested` (`parse_array` is a test-only wrapper)
    arr_fn = "parse_array_nested" if re.search(r"\bfn\s+parse_array_nested\b", t) else "parse_array"
    arr = _sq(fn_body(t, arr_fn, p))
    if "let array_size = len as usize;" not in arr or "for _ in 0..array_size" not in arr:
        raise ExtractError(f"{p}: parse_array no longer has the expected shape")
    plain = "Vec::with_capacity(array_size)" in arr
    capped = re.search(r"let remaining = buf\.len\(\)\.saturating_sub\(consumed\); "
                       r"let mut array = Vec::with_capacity\(std::cmp::min\(array_size, remaining\)\);", arr) is not None
    if plain == capped:
        raise ExtractError(f"{p}: parse_array: capacity expression not recognised")
    out.append(f"/-- `parse_array` reserves `min(array_size, buf.len() - consumed)` elements (F4 fix) — {p} -/")
    out.append(f"def capRemaining : Bool := {_b(capped)}")
    # --- terminator checks (F7) and type bytes: read here too so that C16 does not hang on C15's table ---
    line = fn_body(t, "parse_line", p)
    bulk = fn_body(t, "parse_bulk_str", p)
    line_chk = re.search(r"buf\.get\(lf_index - 1\)\s*!=\s*Some\(&CR\)", line) is not None
    bulk_chk = re.search(r"buf\.get\(end\.\.end \+ 2\)\s*!=\s*Some\(b\"\\r\\n\"", bulk) is not None
    if "memchr(LF, buf)" not in line or line_chk != bulk_chk:
        raise ExtractError(f"{p}: terminator checks have an unknown shape (line={line_chk}, bulk={bulk_chk})")
    out.append(f"/-- `parse_line` / `parse_bulk_str` check their terminators (F7 fix) — {p} -/")
    out.append(f"def strictTerm : Bool := {_b(line_chk)}")
    resp_fn = "parse_resp_nested" if re.search(r"\bfn\s+parse_resp_nested\b", t) else "parse_resp"
    rbody = fn_body(t, resp_fn, p)
    arms = dict((k, l) for l, k in re.findall(r"b'((?:\\.|[^\\]))'\s*=>\s*\{.*?RespIndex::(\w+)\(v\)", rbody, flags=re.S))
    if sorted(arms) != ["Arr", "Bulk", "Error", "Integer", "Simple"] or any(len(v) != 1 for v in arms.values()):
        raise ExtractError(f"{p}: {resp_fn} arms not recognised: {arms}")
    for k, nm in (("Error", "tError"), ("Simple", "tSimple"), ("Integer", "tInteger"), ("Bulk", "tBulk"), ("Arr", "tArr")):
        out.append(f"def {nm} : UInt8 := {ord(arms[k])}  -- {p} {resp_fn}")
    m = re.search(r"pub const LF: u8 = b'\\n';", src("src/protocol/decoder.rs"))
    if not m:
        raise ExtractError("src/protocol/decoder.rs: LF not found")
    out.append("def LF : UInt8 := 10  -- src/protocol/decoder.rs")
    # --- nesting limit (F16b) ---------------------------------------------------------------
    m = re.search(r"const\s+MAX_NESTING\s*:\s*usize\s*=\s*([0-9_]+)\s*;", t)
    if m:
        n = int(m.group(1).replace("_", ""))
        body = _sq(fn_body(t, "parse_resp_nested", p))
        if not re.search(r"b'\*' => \{ if depth >= MAX_NESTING \{ return Err\(ParseError::InvalidProtocol\); \} "
                         r"let \(mut v, consumed\) = parse_array(?:_nested)?\(next_buf, depth \+ 1\)\?;", body):
            raise ExtractError(f"{p}: MAX_NESTING present but the check in parse_resp_nested is not recognised")
        if "parse_resp_nested(next_buf, depth)?" not in arr:
            raise ExtractError(f"{p}: parse_array does not thread the depth")
        out.append(f"def maxNesting : Option Nat := some {n}  -- {p} MAX_NESTING")
    else:
        if "depth" in strip_comments(t).split("mod tests")[0]:
            raise ExtractError(f"{p}: a depth parameter without MAX_NESTING: unknown shape")
        out.append(f"def maxNesting : Option Nat := none  -- {p}: no nesting limit")
    # --- EVAL numkeys (F5) ------------------------------------------------------------------
    p = "src/proxy/executor.rs"
    t = src(p)
    ev = _sq(fn_body(t, "handle_eval_cmd", p))
    mk = _sq(fn_body(t, "handle_multi_key_eval_cmd", p))
    if "btoi::btoi::<usize>(key_num_str)" not in ev or "(3..3 + key_num)" not in mk:
        raise ExtractError(f"{p}: handle_eval_cmd / handle_multi_key_eval_cmd no longer have the expected shape")
    bounded = re.search(r"let arg_len = cmd_ctx\.get_cmd\(\)\.get_command_len\(\)\.unwrap_or\(0\); "
                        r"if key_num > arg_len \{", ev) is not None
    if not bounded and ("arg_len" in ev or "get_command_len" in ev):
        raise ExtractError(f"{p}: handle_eval_cmd: numkeys bound has an unknown shape")
    if bounded and not (ev.index("if key_num > arg_len") < ev.index("if key_num == 1")):
        raise ExtractError(f"{p}: handle_eval_cmd: numkeys bound must precede the key_num == 1 shortcut")
    out.append(f"/-- `handle_eval_cmd` rejects `numkeys > argc` (F5 fix) — {p} -/")
    out.append(f"def numkeysBounded : Bool := {_b(bounded)}")
    # --- blocking commands with no sub-command (F16a) ------------------------------------------
    bl = _sq(fn_body(t, "handle_blocking_commands", p))
    if "for (key, non_blocking_cmd) in cmds.into_iter()" not in bl or "retry_num += 1;" not in bl:
        raise ExtractError(f"{p}: handle_blocking_commands no longer has the expected shape")
    guard = re.search(r"if cmds\.is_empty\(\) \{ cmd_ctx\.set_resp_result\(Ok\(Resp::Error\(", bl) is not None
    if not guard and "is_empty()" in bl:
        raise ExtractError(f"{p}: handle_blocking_commands: emptiness test has an unknown shape")
    out.append(f"/-- `handle_blocking_commands` answers an error when there is no sub-command (F16a fix) — {p} -/")
    out.append(f"def blockingEmptyGuard : Bool := {_b(guard)}")
    # --- slowlog truncation (F16c) ---------------------------------------------------------------
    p = "src/proxy/slowlog.rs"
    t = src(p)
    br = _sq(fn_body(t, "get_brief_command", p))
    plain = "s.truncate(MAX_ELEMENT_LENGTH);" in br
    safe = re.search(r"let mut end = MAX_ELEMENT_LENGTH; while !s\.is_char_boundary\(end\) \{ end -= 1; \} "
                     r"s\.truncate\(end\);", br) is not None
    if "real_len > MAX_ELEMENT_LENGTH" not in br or plain == safe:
        raise ExtractError(f"{p}: get_brief_command: truncation has an unknown shape")
    out.append(f"/-- `get_brief_command` truncates on a char boundary (F16c fix) — {p} -/")
    out.append(f"def slowlogBoundarySafe : Bool := {_b(safe)}")
    out.append(f"def MAX_ELEMENT_LENGTH : Nat := {const_num(t, 'MAX_ELEMENT_LENGTH', p)}  -- {p}")
    out.append(f"def LOG_ELEMENT_NUMBER : Nat := {const_num(t, 'LOG_ELEMENT_NUMBER', p)}  -- {p}")
    # --- RangeMap::from (F16e) and the compressed SETCLUSTER path (F16d) ---------------------------------
    p = "src/common/cluster.rs"
    t = src(p)
    m = re.search(r"impl From<&RangeList> for RangeMap \{", t)
    if not m:
        raise ExtractError(f"{p}: impl From<&RangeList> for RangeMap not found")
    rm = _sq(fn_body(t[m.end():], "from", p))
    plain = ("(Some(min_slot), Some(max_slot)) => (min_slot, max_slot - min_slot + 1)," in rm
             and "for slot_num in range.start()..=range.end() {" in rm)
    fixed = ("(Some(min_slot), Some(max_slot)) if min_slot <= max_slot => { (min_slot, max_slot - min_slot + 1) }" in rm
             and "for slot_num in range.start()..=std::cmp::min(range.end(), SLOT_NUM - 1) {" in rm)
    if plain == fixed or "vec![false; map_len]" not in rm:
        raise ExtractError(f"{p}: RangeMap::from has an unknown shape")
    out.append(f"/-- `RangeMap::from` is total and walks at most SLOT_NUM slots per range (F16e fix) — {p} -/")
    out.append(f"def rangeMapBounded : Bool := {_b(fixed)}")
    p = "src/common/proto.rs"
    tp = strip_comments(src(p))
    i = tp.find("ProxyClusterMetaData::from_compressed_data(compressed_data)")
    j = tp.find("return Ok((", i)
    if i < 0 or j < 0:
        raise ExtractError(f"{p}: compressed branch of ProxyClusterMeta::parse not found")
    fr = _sq(tp[i:j])
    cc = "slot_range.get_mut_range_list().compact();" in fr
    if not cc and "compact" in fr:
        raise ExtractError(f"{p}: compaction of the compressed form has an unknown shape")
    out.append(f"/-- the compressed (serde) SETCLUSTER form is compacted like the textual one (C14 patch) — {p} -/")
    out.append(f"def compressedCompact : Bool := {_b(cc)}")
    # --- ClusterName alphabet and gen_node_id ---------------------------------------------------------------
    p = "src/common/cluster.rs"
    tc = src(p)
    m = re.search(r"impl TryFrom<&str> for ClusterName \{", tc)
    if not m:
        raise ExtractError(f"{p}: impl TryFrom<&str> for ClusterName not found")
    tf = _sq(fn_body(tc[m.end():], "try_from", p))
    ascii_ = "if c.is_ascii_alphanumeric() || c == '@' || c == '-' || c == '_' { continue; }" in tf
    uni = "if c.is_alphanumeric() || c == '@' || c == '-' || c == '_' { continue; }" in tf
    if ascii_ == uni or "ClusterNameInner::from(s)" not in tf:
        raise ExtractError(f"{p}: ClusterName::try_from has an unknown shape")
    out.append(f"/-- `ClusterName::try_from` admits ASCII alphanumerics and `@-_` only — {p} -/")
    out.append(f"def clusterNameAscii : Bool := {_b(ascii_)}")
    p = "src/proxy/cluster.rs"
    gn = _sq(fn_body(src(p), "gen_node_id", p))
    if 'let mut name_seg = format!("{:_<24}", cluster_name.to_string()); name_seg.truncate(24);' not in gn:
        raise ExtractError(f"{p}: gen_node_id has an unknown shape")
    out.append(f"def NODE_ID_NAME_LEN : Nat := 24  -- {p} gen_node_id")
    # --- reservations of the UMCTL parsers ---------------------------------------------------------------------
    pinned = {"src/common/proto.rs": ["Vec::with_capacity(arr.len().saturating_sub(2))"],
              "src/replication/replicator.rs": ["Vec::with_capacity(arr.len().saturating_sub(2))"],
              "src/common/cluster.rs": ["vec![false; map_len]"],
              "src/migration/task.rs": []}
    for fp, allowed in pinned.items():
        code = strip_comments(src(fp)).split("#[cfg(test)]")[0]
        found = []
        for mm in re.finditer(r"(?:\w+::)?with_capacity\(|\.reserve(?:_exact)?\(|vec!\[", code):
            i = mm.end() - 1
            op, cl = (code[i], ")" if code[i] == "(" else "]")
            depth, j = 0, i
            while j < len(code):
                if code[j] == op:
                    depth += 1
                elif code[j] == cl:
                    depth -= 1
                    if depth == 0:
                        break
                j += 1
            text = code[mm.start():j + 1]
            if text.startswith("vec![") and ";" not in text:
                continue                      # a literal list, not a sized one
            found.append(text)
        found = [_sq(x) for x in found]
        if sorted(found) != sorted(allowed):
            raise ExtractError(f"{fp}: reservations in the UMCTL parsers are {found}, pinned {allowed} "
                               f"(a capacity taken from a client-declared count must not be reserved before the items are read)")
    out.append("/-- no UMCTL parser reserves memory proportional to a client-declared count (pinned shapes) -/")
    out.append("def umctlCountPrealloc : Bool := false")
    # --- SlotMapData::new and the textual-only parser ---------------------------------------------------------------
    p = "src/proxy/slot.rs"
    sm = _sq(fn_body(src(p), "new", p))
    if "for (addr, slots) in slot_map.into_iter()" not in sm or "if start > end { continue; }" not in sm or "for s in start..=end {" not in sm:
        raise ExtractError(f"{p}: SlotMapData::new has an unknown shape")
    bounded = "for s in start..=end { if s >= SLOT_NUM { break; }" in sm
    if not bounded and "SLOT_NUM" in sm.split("for s in start..=end {")[1]:
        raise ExtractError(f"{p}: SlotMapData::new: bound of the fill loop has an unknown shape")
    out.append(f"/-- `SlotMapData::new` leaves its fill loop at `s >= SLOT_NUM` — {p} -/")
    out.append(f"def slotMapBounded : Bool := {_b(bounded)}")
    p = "src/common/proto.rs"
    pt = _sq(fn_body(src(p), "parse_tagged_slot_range", p)).strip()
    if pt != "SlotRange::from_strings(it).ok_or(CmdParseError::InvalidSlots)":
        raise ExtractError(f"{p}: parse_tagged_slot_range validates something ({pt[:120]}…): a check placed there is not passed by the "
                           f"compressed (serde) form of SETCLUSTER; every consumer of a range list must be bounded by itself")
    # --- get_hash_tag ---------------------------------------------------------------------------------------------
    p = "src/common/utils.rs"
    ht = _sq(fn_body(src(p), "get_hash_tag", p))
    scoped = ("key.iter().position(|x| *x as char == '{')" in ht and ".get(begin + 1..)" in ht
              and "t.iter().position(|x| *x as char == '}')" in ht and "if end_offset == 0 { return key; }" in ht
              and ".get(begin + 1..begin + 1 + end_offset) .expect(" in ht)
    whole = ("memchr(b'{', key)" in ht and "memchr(b'}', key)" in ht and "if end == begin + 1 { return key; }" in ht
             and "key.get(begin + 1..end).expect(" in ht)
    if scoped == whole:
        raise ExtractError(f"{p}: get_hash_tag has an unknown shape")
    out.append(f"/-- `get_hash_tag` searches the closing brace after the opening one — {p} -/")
    out.append(f"def hashTagEndAfterBegin : Bool := {_b(scoped)}")
    # --- CONFIG SET fields and the slow-log rate limiter --------------------------------------------------------------
    p = "src/proxy/service.rs"
    sv = fn_body(src(p), "set_value", p)
    if "match field.to_lowercase().as_ref() {" not in _sq(sv):
        raise ExtractError(f"{p}: set_value: match on the lower-cased field not found")
    fields = []
    for name, body in re.findall(r'"(\w+)"\s*=>\s*(Err\(ConfigError::ReadonlyField\)|\{.*?\n            \})', sv, flags=re.S):
        if body.startswith("Err"):
            fields.append((name, "readonly"))
        else:
            m = re.search(r"value\s*\.parse::<(i64|u64)>\(\)\s*\.map_err\(\|_\| ConfigError::InvalidValue\)\?;", body)
            if not m or "Ok(())" not in body:
                raise ExtractError(f"{p}: set_value arm {name} has an unknown shape")
            fields.append((name, m.group(1)))
    if len(fields) != len(re.findall(r'"\w+"\s*=>', sv)) or "_ => Err(ConfigError::FieldNotFound)" not in _sq(sv):
        raise ExtractError(f"{p}: set_value arms not recognised")
    out.append(f"/-- arms of `ServerProxyConfig::set_value` — {p} -/")
    out.append("def configSetFields : List (String × String) := ["
               + ", ".join(f"({lean_str(a)}, {lean_str(b)})" for a, b in fields) + "]")
    p = "src/proxy/slowlog.rs"
    rl = _sq(fn_body(src(p), "check_current_enabled", p))
    if "self.count.fetch_add(1, atomic::Ordering::Relaxed) % slowlog_sample_rate" not in rl:
        raise ExtractError(f"{p}: check_current_enabled has an unknown shape")
    clamped = "let slowlog_sample_rate = max(1, slowlog_sample_rate);" in rl
    if not clamped and "max(" in rl:
        raise ExtractError(f"{p}: check_current_enabled: clamp has an unknown shape")
    out.append(f"/-- the rate limiter clamps the sample rate to at least 1 before `%` — {p} -/")
    out.append(f"def rateLimiterClamped : Bool := {_b(clamped)}")
    # --- constants ----------------------------------------------------------------------------------
    p = "src/common/cluster.rs"
    out.append(f"def CLUSTER_NAME_MAX_LENGTH : Nat := {const_num(src(p), 'CLUSTER_NAME_MAX_LENGTH', p)}  -- {p}")
    p = "src/bin/server_proxy.rs"
    m = re.search(r's\.get::<usize>\("slowlog_len"\)\.unwrap_or\(([0-9_]+)\)', src(p))
    if not m:
        raise ExtractError(f"{p}: default slowlog_len not found")
    out.append(f"def DEFAULT_SLOWLOG_LEN : Nat := {int(m.group(1).replace('_', ''))}  -- {p}")
    # --- overflow checks of the shipped profile --------------------------------------------------------
    p = "Cargo.toml"
    ct = src(p)
    m = re.search(r"\[profile\.release\](.*?)(?:\n\[|\Z)", ct, flags=re.S)
    oc = False
    if m:
        mm = re.search(r"overflow-checks\s*=\s*(true|false)", m.group(1))
        oc = bool(mm and mm.group(1) == "true")
    out.append(f"/-- `[profile.release] overflow-checks` of /repo/Cargo.toml (absent ⇒ false: `3 + key_num` wraps) -/")
    out.append(f"def overflowChecks : Bool := {_b(oc)}")
    return "\n".join(out) + "\n\nend Um.Gen.Hostile\n"


MODULES = {"HostileCfg": gen_hostilecfg}
