#!/usr/bin/env python3
"""Append one record to /verif/known_findings.json under a file lock.
usage: add_finding.py '<json record>'   (fields: id, property, status=known|fixed, commit?, what, match)"""
import fcntl, json, os, sys
ROOT = os.path.dirname(os.path.dirname(os.path.abspath(__file__)))
p = os.path.join(ROOT, "known_findings.json")
rec = json.loads(sys.argv[1])
for k in ("id", "property", "status", "what", "match"):
    assert k in rec, k
with open(p, "r+") as f:
    fcntl.flock(f, fcntl.LOCK_EX)
    d = json.load(f)
    d["findings"] = [x for x in d["findings"] if x["id"] != rec["id"]] + [rec]
    f.seek(0); f.truncate()
    json.dump(d, f, indent=1, ensure_ascii=False)
print("ok", rec["id"])
