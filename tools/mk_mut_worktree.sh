#!/bin/sh
# scratch git worktree of /repo HEAD for a sub-agent that writes a seeded change (with a warm target dir)
# usage: mk_mut_worktree.sh NAME   -> /tmp/mut/NAME
set -e
D=/tmp/mut/$1
mkdir -p /tmp/mut
[ -d "$D" ] && git -C /repo worktree remove --force "$D" 2>/dev/null || true
rm -rf "$D"
git -C /repo worktree add --detach "$D" HEAD >/dev/null
mkdir -p "$D/target"
cp -r /repo/target/debug "$D/target/debug"
cp /repo/target/CACHEDIR.TAG "$D/target/" 2>/dev/null || true
echo "$D"
