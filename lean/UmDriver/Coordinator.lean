-- driver: coordinator Um.Drv.Coordinator
import UmModel.Coordinator
import UmDriver.Broker
import UmDriver.Common
/-! Line protocol of the control-plane model (grammar: `harness/src/bin/umh_coordinator.rs`). -/
namespace Um.Drv.Coordinator
open Um Um.Broker Um.Coord

structure St where
  sys : Sys
  trace : Array String

def St.init : St := { sys := Sys.init 1 1 false, trace := #[] }

def splitList (s : String) (sep : String) : List String := if s == "-" || s == "" then [] else s.splitOn sep

def parseFault (s : String) : Option Fault :=
  if s == "dq" then some .dropReq
  else if s == "dp" then some .dropRep
  else if s == "dup" then some .dup
  else if s == "cr" then some .crash
  else if s.startsWith "dl" then ((s.drop 2).toString.toNat?).map Fault.delay
  else none

def parseFaults (s : String) : List (Nat × Fault) :=
  (splitList s ";").filterMap fun e =>
    match e.splitOn "." with
    | [k, f] => match k.toNat?, parseFault f with
      | some k, some f => some (k, f)
      | _, _ => none
    | _ => none

def parseKind (s : String) : Option Kind :=
  if s == "sync" then some .sync else if s == "mig" then some .mig
  else if s == "detect" then some .detect else if s == "failover" then some .failover else none

def mkRound0 (kind reporter faults targets choices : String) : Option Round0 :=
  (parseKind kind).map fun k =>
    { kind := k, reporter := reporter, faults := parseFaults faults, targets := splitList targets ";",
      choices := splitList choices ";" }

/-- `k~kind~reporter~faults~targets~choices` joined by `|` -/
def parseNested (s : String) : List (Nat × Round0) :=
  (splitList s "|").filterMap fun e =>
    match e.splitOn "~" with
    | [k, kind, rep, fs, ts, cs] =>
      match k.toNat?, mkRound0 kind rep fs ts cs with
      | some k, some r => some (k, r)
      | _, _ => none
    | _ => none

def stripKey (key s : String) : Option String :=
  if s.startsWith (key ++ "=") then some (s.drop (key.length + 1)).toString else none

def unfinishedMigrating (p : PState) : List Task :=
  sortTasks ((p.tasks.filter fun e => !e.2 && isMigratingTask e.1).map (·.1))

def step (st : St) (toks : List String) : St × String :=
  match toks with
  | ["init", l, q, c] =>
    match l.toNat?, q.toNat? with
    | some l, some q => ({ sys := Sys.init l q (c == "1"), trace := #[] }, "ok")
    | _, _ => (st, "bad-op")
  | "admin" :: rest =>
    match Um.Drv.Broker.parseOp rest with
    | some op =>
      let r := Um.Drv.Broker.finO (stepFull st.sys.broker op) st.sys.broker
      ({ st with sys := { st.sys with broker := r.1 } }, r.2)
    | none => (st, "bad-op")
  | ["spawn", a, h] => ({ st with sys := st.sys.spawn a h }, "ok")
  | ["kill", a] => ({ st with sys := st.sys.kill a }, "ok")
  | ["restart", a] => ({ st with sys := st.sys.restart a }, "ok")
  | ["finish", src, k] =>
    match st.sys.findP src, k.toNat? with
    | some p, some k =>
      if !p.up then (st, "no-task") else
      match (unfinishedMigrating p)[k]? with
      | some t =>
        match st.sys.finish src t with
        | some s' => ({ st with sys := s' }, s!"finished {renderTask t}")
        | none => (st, s!"not-enabled {renderTask t}")
      | none => (st, "no-task")
    | _, _ => (st, "no-task")
  | ["round", kind, rep, fs, ts, cs, ns] =>
    match stripKey "faults" fs, stripKey "targets" ts, stripKey "choices" cs, stripKey "nested" ns with
    | some fs, some ts, some cs, some ns =>
      match mkRound0 kind rep fs ts cs with
      | some r0 =>
        let r := runRound st.sys { base := r0, nested := parseNested ns }
        ({ sys := r.1, trace := r.2.toArray }, s!"calls {r.2.length}")
      | none => (st, "bad-op")
    | _, _, _, _ => (st, "bad-op")
  | ["flush", cs] =>
    let r := st.sys.flush (splitList ((stripKey "choices" cs).getD "-") ";")
    ({ sys := r.1, trace := r.2.toArray }, s!"calls {r.2.length}")
  | ["redeliver", cluster, k, epoch, sp, sn, dp, dn, ranges] =>
    match epoch.toNat?, Um.Drv.Broker.parseRanges ranges with
    | some e, some rl =>
      let mi : MigInfo := { epoch := e, srcProxy := sp, srcNode := sn, dstProxy := dp, dstNode := dn }
      let tag : Tag := if k == "M" then .migrating mi else if k == "I" then .importing mi else .none
      let t : Task := { cluster := cluster, sr := { ranges := rl, tag := tag } }
      let r := st.sys.redeliver (.commit t)
      ({ sys := r.1, trace := r.2.toArray }, (r.2.head?).getD "no-record")
    | _, _ => (st, "bad-op")
  | ["t", i] =>
    match i.toNat? with
    | some i => (st, (st.trace[i]?).getD "no-such-record")
    | none => (st, "bad-op")
  | ["proxies"] =>
    (st, String.intercalate " ## " ((st.sys.proxies.mergeSort fun a b => decide (a.addr ≤ b.addr)).map renderPState))
  | ["broker"] => (st, renderBrokerDigest st.sys.broker ++ " " ++ renderStore st.sys.broker)
  | ["digest"] => (st, renderDigest st.sys)
  | ["bag"] => (st, s!"{st.sys.bag.length}")
  | _ => (st, "bad-op")

def run : IO Unit := Um.Drv.loop St.init step
end Um.Drv.Coordinator
