-- driver: session Um.Drv.Session
import UmModel.Session
import UmDriver.Common
/-! Replays the scripts of `umh_session` through the poll-structured `Um.Session.pstep`: one poll
decoding one request per `req` line; on `go` / `bp`, for every id in completion order the sends /
drop of its mode followed by a poll with ample socket capacity; prints the replies that reached the
socket (`written.take flushed`). -/
namespace Um.Drv.Session
open Um Um.Session

structure D where
  s : St := {}
  reqs : List (Nat × String) := []

def errName : CmdErr → String
  | .io => "Io" | .unexpectedResponse => "UnexpectedResponse" | .dropped => "Dropped"
  | .canceled => "Canceled" | .backend => "BackendError" | .inner => "InnerError"

def replyText : Reply → String
  | .data t => s!"r{t}"
  | .cmdErr e => s!"E:{errName e}"

def indexOf (id : Nat) : List (Nat × String) → Nat → Option (Nat × String)
  | [], _ => none
  | (i, m) :: rest, k => if i = id then some (k, m) else indexOf id rest (k + 1)

def modeEvents (k id : Nat) (m : String) : List PEv :=
  match m with
  | "ok" => [.send k (.ok id)]
  | "eio" => [.send k (.err .io)]
  | "eun" => [.send k (.err .unexpectedResponse)]
  | "edr" => [.send k (.err .dropped)]
  | "eca" => [.send k (.err .canceled)]
  | "ebe" => [.send k (.err .backend)]
  | "ein" => [.send k (.err .inner)]
  | "dbl" => [.send k (.ok id), .send k (.ok 0), .dropSender k]
  | "errok" => [.send k (.err .io), .send k (.ok id), .dropSender k]
  | _ => if m.startsWith "L" then [.send k (.ok id)] else [.dropSender k]

/-- socket capacity of a healthy client for one poll -/
def ample : Nat := 1000000

def complete (d : D) (id : Nat) : D :=
  match indexOf id d.reqs 0 with
  | none => d
  | some (k, m) => { d with s := prun d.s (modeEvents k id m ++ [.poll 0 ample]) }

def natList (s : String) : List Nat := (s.splitOn ",").filterMap String.toNat?

def step' (d : D) (toks : List String) : D × String :=
  match toks with
  | ["req", a, m] =>
    match a.toNat? with
    | some id => ({ s := pstep d.s (.poll 1 ample), reqs := d.reqs ++ [(id, m)] }, "-")
    | none => (d, "bad-op")
  | "go" :: _ :: rest =>
    let order := natList (rest.headD "")
    let d' := order.foldl complete d
    (d', " ".intercalate ((d'.s.written.take d'.s.flushed).map replyText))
  | "bp" :: _ :: _ :: _ :: _ :: _ :: rest =>
    let order := natList (rest.headD "")
    let d' := order.foldl complete d
    (d', " ".intercalate ((d'.s.written.take d'.s.flushed).map replyText))
  | "half" :: _ => (d, "prefix-ok")
  | "idle" :: _ => (d, "closed")
  | _ => (d, "bad-op")

def run' : IO Unit := Um.Drv.loop ({} : D) step'
def run : IO Unit := run'
end Um.Drv.Session
