-- driver: backend Um.Drv.Backend
import UmModel.BackendConn
import UmDriver.Common
/-! Replays the `s enq/enqm/close` and `p <events>` lines of `umh_backend` through
`Um.BackendConn.step`; prints the results the model delivers on each line, sorted by id, after
the phase letter. -/
namespace Um.Drv.Backend
open Um Um.BackendConn

def resText : Res → String
  | .reply t => s!"r{t}"
  | .lerr .handler => "le:h"
  | .lerr .connect => "le:c"
  | .lerr .send => "le:s"
  | .err .io => "e:io"
  | .err .backend => "e:be"
  | .err .canceled => "e:ca"
  | .err .inner => "e:in"
  | .err .dropped => "e:dr"

def insertById (p : Id × Res) : List (Id × Res) → List (Id × Res)
  | [] => [p]
  | q :: qs => if p.1 < q.1 then p :: q :: qs else q :: insertById p qs

def sortById (l : List (Id × Res)) : List (Id × Res) := l.foldl (fun acc p => insertById p acc) []

def outText (o : Out) : String :=
  " ".intercalate ((sortById o).map fun p => s!"{p.1}={resText p.2}")

def phaseLetter : Phase → String
  | .connecting => "C" | .up => "U" | .waiting => "W" | .exited => "X"

def natList (s : String) : Option (List Nat) :=
  if s.isEmpty then some [] else (s.splitOn ",").mapM String.toNat?

def parseTask (s : String) : Option Task :=
  if s.startsWith "s" then (s.drop 1).toString.toNat?.map Task.simple
  else if s.startsWith "m" then (natList (s.drop 1).toString).map Task.multi
  else none

def parseItem (s : String) : Option Item :=
  if s == "e" then some .derr
  else if s.startsWith "s" then (s.drop 1).toString.toNat?.map Item.single
  else if s.startsWith "m" then (natList (s.drop 1).toString).map Item.multi
  else none

/-- one event token; `none` = unknown token; the Bool is "consistent with the model's own queue" -/
def evOf (s : St) (tok : String) : Option (Ev × Bool) :=
  match tok with
  | "cok" => some (.connOk, true)
  | "cfail" => some (.connFail, true)
  | "wd" => some (.waitDone, true)
  | "poll" => some (.poll, true)
  | "we:io" => some (.writeErr .io, true)
  | "we:ot" => some (.writeErr .other, true)
  | "rc" => some (.peerClosed, true)
  | "pe:0" => some (.pollEnd false, true)
  | "pe:1" => some (.pollEnd true, true)
  | _ =>
    if tok.startsWith "w:" then
      match parseTask (tok.drop 2).toString with
      | some t => some (.write, decide (s.packets.head? = some t))
      | none => none
    else if tok.startsWith "i:" then
      (parseItem (tok.drop 2).toString).map fun it => (.item it, true)
    else none

def runToks : St → List String → Out → Bool → St × Out × Bool
  | s, [], o, ok => (s, o, ok)
  | s, t :: ts, o, ok =>
    if t.isEmpty then runToks s ts o ok else
    match evOf s t with
    | none => runToks s ts o false
    | some (e, c) =>
      let (s', o') := step s e
      runToks s' ts (o ++ o') (ok && c)

def trimR (s : String) : String := (s.dropEndWhile (· == ' ')).toString

def step' (s : St) (toks : List String) : St × String :=
  match toks with
  | "cfg" :: _ => (s, "-")
  | ["s", "enq", a] =>
    match a.toNat? with
    | some id =>
      if s.closed then (s, "-") else
      let (s', o) := step s (.enqueue (.simple id))
      (s', trimR ((if s'.chan.length == s.chan.length then "rej " else "q ") ++ outText o))
    | none => (s, "bad-op")
  | ["s", "enqm", a] =>
    match natList (if a == "-" then "" else a) with
    | some ids =>
      if s.closed then (s, "-") else
      let (s', o) := step s (.enqueue (.multi ids))
      (s', trimR ((if s'.chan.length == s.chan.length then "rej " else "q ") ++ outText o))
    | none => (s, "bad-op")
  | ["s", "close"] => ((step s .close).1, "-")
  | "s" :: _ => (s, "-")
  | "p" :: evs =>
    let (s', o, ok) := runToks s evs [] true
    (s', trimR (phaseLetter s'.phase ++ " " ++ outText o ++ (if ok then "" else " !model")))
  | _ => (s, "bad-op")

def run : IO Unit := Um.Drv.loop init step'
end Um.Drv.Backend
