-- driver: setmeta Um.Drv.SetMeta
import UmModel.ProxyMeta
import UmDriver.Common
/-!
Line protocol of the C05 SETCLUSTER stream (`umh_setmeta`).

  host <announce-host hex> <fingerprint of the empty snapshot>
  set <n> <arg hex>^n P                                   -- `ProxyClusterMeta::from_resp` failed
  set <n> <arg hex>^n M <epoch> <force 0|1> <cfgok 0|1> <content fingerprint> <k> <local addr hex>^k

The raw command (`<n> <arg>^n`) is only there for `--replay`; the model starts from the parsed
message.  The content of a message is its routing fingerprint (an opaque token computed by the
harness on a scratch proxy).  Output: `<reply> <installed epoch> <installed fingerprint>`.
-/
namespace Um.Drv.SetMeta
open Um Um.ProxyMeta

structure St where
  host : Bytes
  st : State String

def init : St := ⟨[], ⟨0, "?"⟩⟩

def render (r : Reply) (s : State String) : String := s!"{r.render} {s.epoch} {s.snap}"

def pAddrs : Nat → List String → Option (List Bytes)
  | 0, [] => some []
  | 0, _ :: _ => none
  | _ + 1, [] => none
  | n + 1, t :: r =>
    match bytesOfHex t, pAddrs n r with
    | some a, some as => some (a :: as)
    | _, _ => none

def pParsed : List String → Option (Option (Meta String × Bool))
  | ["P"] => some none
  | "M" :: e :: f :: c :: fp :: k :: rest =>
    match e.toNat?, k.toNat? with
    | some epoch, some kk =>
      match pAddrs kk rest with
      | some addrs =>
        if (f == "0" || f == "1") && (c == "0" || c == "1") then
          some (some (⟨epoch, f == "1", addrs, fp⟩, c == "1"))
        else none
      | none => none
    | _, _ => none
  | _ => none

def step (s : St) (toks : List String) : St × String :=
  match toks with
  | ["host", h, fp] =>
    match bytesOfHex h with
    | some hb => (⟨hb, ⟨0, fp⟩⟩, "ok")
    | none => (s, "bad-op")
  | "set" :: n :: rest =>
    match n.toNat? with
    | none => (s, "bad-op")
    | some nn =>
      match pParsed (rest.drop nn) with
      | none => (s, "bad-op")
      | some parsed =>
        let (st', r) := handle s.host s.st parsed
        (⟨s.host, st'⟩, render r st')
  | _ => (s, "bad-op")

def run : IO Unit := Um.Drv.loop init step
end Um.Drv.SetMeta
