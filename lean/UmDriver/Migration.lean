-- driver: migration Um.Drv.Migration
import UmModel.Migration
import UmDriver.Common
import Std.Data.HashSet
/-!
Trace-inclusion checker for C03.  Every line of the recorded implementation trace is one visible
step; the driver keeps, per key of the migrating range, the *set* of model states that explain
the trace so far (internal `Tau` steps are closed over before every visible step) and answers
`ok` while the set stays non-empty, `REFUSED <why>` otherwise.
-/
namespace Um.Drv.Migration
open Um.Mig

structure DState where
  keysIn : List String := []
  keysOut : List String := []
  sets : List (String × Array Sys) := []
  opKey : List (Nat × String) := []
  refused : Bool := false
  maxSet : Nat := 0

/-- all states reachable by internal steps -/
partial def closure (init : Array Sys) : Array Sys := Id.run do
  let mut seen : Std.HashSet Sys := {}
  let mut out : Array Sys := #[]
  let mut work : List Sys := init.toList
  while !work.isEmpty do
    match work with
    | [] => pure ()
    | s :: rest =>
      work := rest
      if !seen.contains s then
        seen := seen.insert s
        out := out.push s
        work := tauSuccs s ++ work
  return out

def dedup (xs : Array Sys) : Array Sys := Id.run do
  let mut seen : Std.HashSet Sys := {}
  let mut out : Array Sys := #[]
  for s in xs do
    if !seen.contains s then
      seen := seen.insert s
      out := out.push s
  return out

/-- successors of the set under one visible step, given the candidate labels per state -/
def applyVisible (S : Array Sys) (cands : Sys → List Label) : Array Sys :=
  let C := closure S
  dedup (C.foldl (fun acc s => (cands s).foldl (fun acc l =>
    match step? s l with
    | some s' => acc.push s'
    | none => acc) acc) #[])

def filterSet (S : Array Sys) (p : Sys → Bool) : Array Sys := (closure S).filter p

def parseNat? (s : String) : Option Nat := s.toNat?

/-- `i<n>` initial values, `v<n>` values written by client op n -/
def parseVal? (s : String) : Option Val :=
  if s.startsWith "i" then (s.drop 1).toNat?
  else if s.startsWith "v" then (s.drop 1).toNat?.map (· + 1000)
  else none

def parseRep? (s : String) : Option Rep :=
  if s == "nil" then some .nil
  else if s == "+OK" then some .ok
  else if s.startsWith "$" then (parseVal? (s.drop 1).toString).map Rep.val
  else if s.startsWith ":-" then (s.drop 2).toNat?.map (fun n => Rep.int (-(n : Int)))
  else if s.startsWith ":" then (s.drop 1).toNat?.map (fun n => Rep.int (n : Int))
  else if s == "-BUSYKEY" then some .busy
  else if s == "-MOVED" then some .moved
  else if s == "-MIGRATION_KEY_LOCK_TIMEOUT" then some (.err 1)
  else if s.startsWith "-" then some (.err 2)
  else none

def parseCmd? (name : String) (arg : Option String) : Option Cmd :=
  match name with
  | "GET" => some .get
  | "SET" => (arg.bind parseVal?).map Cmd.set
  | "GETSET" => (arg.bind parseVal?).map Cmd.getset
  | "DEL" => some .del
  | "SINTERSTORE" => some .sinterstore
  | _ => none

def parseProxy? : String → Option Proxy
  | "S" => some .S
  | "D" => some .D
  | _ => none

def optVal? (s : String) : Option (Option Val) :=
  if s == "-" then some none else (parseVal? s).map some

def splitComma (s : String) : List String := if s == "-" then [] else s.splitOn ","

def cfgField (toks : List String) (name : String) : Option String :=
  toks.findSome? (fun t => if t.startsWith (name ++ "=") then some (t.drop (name.length + 1)).toString else none)

def setFor (st : DState) (k : String) : Option (Array Sys) := (st.sets.find? (·.1 == k)).map (·.2)

def putSet (st : DState) (k : String) (S : Array Sys) : DState :=
  { st with sets := st.sets.map (fun p => if p.1 == k then (k, S) else p),
            maxSet := max st.maxSet S.size }

def refuse (st : DState) (why : String) : DState × String :=
  ({ st with refused := true }, "REFUSED " ++ why)

/-- apply one visible step to the set of key `k` -/
def onKey (st : DState) (k : String) (cands : Sys → List Label) (what : String) : DState × String :=
  match setFor st k with
  | none => refuse st s!"unknown key {k}"
  | some S =>
    let S' := applyVisible S cands
    if S'.isEmpty then refuse st s!"{what}: no model state of key {k} has this step enabled (set size {(closure S).size})"
    else (putSet st k S', "ok")

/-- apply the same visible step to every key -/
def onAll (st : DState) (cands : Sys → List Label) (what : String) : DState × String :=
  st.sets.foldl (fun (acc : DState × String) p =>
    if acc.2 != "ok" then acc else onKey acc.1 p.1 cands what) (st, "ok")

def filterAll (st : DState) (p : Sys → Bool) (what : String) : DState × String :=
  st.sets.foldl (fun (acc : DState × String) kv =>
    if acc.2 != "ok" then acc
    else
      let S' := filterSet kv.2 p
      if S'.isEmpty then refuse acc.1 s!"{what}: no model state of key {kv.1} agrees"
      else (putSet acc.1 kv.1 S', "ok")) (st, "ok")

def opActors (s : Sys) (p : Op → Bool) : List Actor := (s.ops.filter p).map (fun o => Actor.op o.id)

/-- which actors may own a command seen on a connection with this label prefix -/
def actorsFor (pref : String) (s : Sys) : List Actor :=
  if pref == "Sx" then [Actor.scan] ++ (if critFast s.crit then [Actor.crit] else [])
  else if pref == "Dc" then
    [Actor.aux] ++ (if s.crit.isSome && !critFast s.crit then [Actor.crit] else [])
      ++ opActors s (fun o => o.pc != .direct .src)
  else if pref == "Sc" then opActors s (fun o => o.pc == .direct .src)
  else []

def srcStName : SrcSt → String
  | .preCheck => "PRE_CHECK" | .preBlocking => "PRE_BLOCKING" | .preSwitch => "PRE_SWITCH"
  | .scanning => "SCANNING" | .finalSwitch => "FINAL_SWITCH" | .switchCommitted => "SWITCH_COMMITTED"

def dstStName : DstSt → String
  | .preCheck => "PRE_CHECK" | .preSwitch => "PRE_SWITCH" | .switchCommitted => "SWITCH_COMMITTED"

def stepRedis (st : DState) (conn : String) (node : Node) (name : String) (args : List String) (rep : String) :
    DState × String :=
  let pref := (conn.take 2).toString
  if name == "SCAN" || name == "PING" then (st, "ok")
  else
    match args with
    | [] => refuse st "command without key"
    | key :: rest =>
      -- multi-key DEL of a scan batch: per key the reply is not observable
      if name == "DEL" && !rest.isEmpty then
        (key :: rest).foldl (fun (acc : DState × String) k =>
          if acc.2 != "ok" then acc
          else if st.keysOut.contains k then acc
          else onKey acc.1 k (fun s => (actorsFor pref s).flatMap (fun a =>
                [Label.exe a node .del (.int 0), Label.exe a node .del (.int 1)])) s!"exe {conn} DEL") (st, "ok")
      else if st.keysOut.contains key then (st, "ok")
      else
        let bcmd : Option BCmd :=
          match name with
          | "EXISTS" => some .exists
          | "DUMP" => some .dump
          | "PTTL" => some .pttl
          | "RESTORE" => (rest.getLast?.bind parseVal?).map BCmd.restore
          | "DEL" => if pref == "Sc" || node == .dst then some (.client .del) else some .del
          | _ => (parseCmd? name rest.head?).map BCmd.client
        match bcmd, parseRep? rep with
        | some c, some r =>
          onKey st key (fun s => (actorsFor pref s).map (fun a => Label.exe a node c r)) s!"exe {conn} {name} => {rep}"
        | _, _ => refuse st s!"cannot parse backend command {name} / reply {rep}"

/-- optional step: the states that take it join those that do not -/
def onKeyOpt (st : DState) (k : String) (cands : Sys → List Label) : DState :=
  match setFor st k with
  | none => st
  | some S => putSet st k (dedup (closure S ++ applyVisible S cands))

/-- `flt <conn> <target> CMD keys…`: the connection fails at this command (nothing is executed) -/
def stepFault (st : DState) (conn : String) (name : String) (args : List String) : DState × String :=
  let pref := (conn.take 2).toString
  if pref != "Sx" then refuse st "fault on a connection that is not a client of the migrating task"
  else if name == "SCAN" || name == "RESTORE" || name == "PING" then (st, "ok")   -- re-sent / re-scanned
  else if name == "PTTL" || name == "DUMP" || name == "DEL" then
    let keys := args.filter (fun k => st.keysIn.contains k)
    -- the failing command's own key(s): fast path or scan batch must be abandoned
    let r := keys.foldl (fun (acc : DState × String) k =>
      if acc.2 != "ok" then acc
      else onKey acc.1 k (fun _ => [Label.syncFault false, Label.scanFault]) s!"flt {conn} {name}") (st, "ok")
    if r.2 != "ok" then r
    else
      -- other keys of the same scan batch are abandoned with it
      let st' := (st.keysIn.filter (fun k => !keys.contains k)).foldl (fun acc k =>
        onKeyOpt acc k (fun _ => [Label.scanFault])) r.1
      (st', "ok")
  else refuse st s!"fault at an unexpected command {name}"

partial def stepProxy (st : DState) (target : Proxy) (name : String) (args : List String) (rep : String) : DState × String :=
  -- `UMFORWARD <remaining redirections> CMD args…`: the wrapped command is what the peer dispatches
  if name == "UMFORWARD" then
    match args with
    | _ :: inner :: rest => stepProxy st target inner rest rep
    | _ => refuse st "UMFORWARD without a command"
  else if name == "UMCTL" then
    if rep != "+OK" then (st, "ok")
    else match args with
      | ["PRECHECK"] => onAll st (fun _ => [.dlvPreCheck]) "PRECHECK"
      | ["PRESWITCH"] => onAll st (fun _ => [.dlvPreSwitch]) "PRESWITCH"
      | ["FINALSWITCH"] => onAll st (fun _ => [.dlvFinalSwitch]) "FINALSWITCH"
      | _ => refuse st "unknown UMCTL sub-command"
  else match args with
    | [] => refuse st "proxy command without key"
    | key :: rest =>
      if st.keysOut.contains key then (st, "ok")
      else if name == "UMSYNC" then
        onKey st key (fun _ => [Label.dlvSync false, Label.dlvSync true]) "UMSYNC delivery"
      else match parseCmd? name rest.head? with
        | some c =>
          onKey st key (fun s => (s.ops.filter (fun o => o.pc == .fwd target && o.cmd == c)).map (fun o =>
            Label.dlvFwd o.id)) s!"redirected {name} delivery"
        | none => refuse st s!"cannot parse redirected command {name}"

def step (st : DState) (toks : List String) : DState × String :=
  match toks with
  | "cfg" :: rest =>
    let ins := splitComma ((cfgField rest "in").getD "-")
    let outs := splitComma ((cfgField rest "out").getD "-")
    let active := (cfgField rest "active").getD "0" == "1"
    let inits := (splitComma ((cfgField rest "init").getD "-")).filterMap (fun kv =>
      match kv.splitOn ":" with
      | [k, v] => (parseVal? v).map (fun x => (k, x))
      | _ => none)
    let sets := ins.map (fun k => (k, #[Sys.init ((inits.find? (·.1 == k)).map (·.2)) active]))
    ({ keysIn := ins, keysOut := outs, sets := sets }, "ok")
  | _ =>
    if st.refused then (st, "REFUSED earlier in this case")
    else match toks with
    | "tick" :: _ => (st, "ok")
    | "inv" :: id :: p :: name :: key :: rest =>
      if st.keysOut.contains key then (st, "ok")
      else match parseNat? id, parseProxy? p, parseCmd? name rest.head? with
        | some id, some p, some c =>
          onKey { st with opKey := (id, key) :: st.opKey } key (fun _ => [.inv id p c]) s!"inv {id}"
        | _, _, _ => refuse st "cannot parse inv line"
    | ["ret", id, rep] =>
      match parseNat? id with
      | none => refuse st "cannot parse ret line"
      | some id =>
        match st.opKey.find? (·.1 == id) with
        | none => (st, "ok")     -- op on a key outside the range
        | some (_, key) =>
          match parseRep? rep with
          | some r => onKey st key (fun _ => [.ret id r]) s!"ret {id} {rep}"
          | none => refuse st s!"cannot parse reply {rep}"
    | ["st", "S", name] =>
      filterAll st (fun s => if name == "NONE" then !s.srcTask else s.srcTask && srcStName s.srcSt == name) s!"st S {name}"
    | ["st", "D", name] =>
      filterAll st (fun s => if name == "NONE" then !s.dstTask else s.dstTask && dstStName s.dstSt == name) s!"st D {name}"
    | ["commit", p] =>
      match parseProxy? p with
      | some p => onAll st (fun _ => [.commit p]) s!"commit"
      | none => refuse st "cannot parse commit line"
    | ["fin", key, a, b] =>
      if st.keysOut.contains key then (st, "ok")
      else match optVal? a, optVal? b, setFor st key with
        | some a, some b, some S =>
          let S' := filterSet S (fun s => s.src == a && s.dst == b)
          if S'.isEmpty then refuse st s!"fin {key}: no model state has src={toks.getD 2 ""} dst={toks.getD 3 ""}"
          else (putSet st key S', "ok")
        | _, _, _ => refuse st "cannot parse fin line"
    | "flt" :: conn :: _target :: name :: rest => stepFault st conn name rest
    | "exe" :: conn :: target :: name :: rest =>
      let (args, rep) := match rest.span (· != "=>") with
        | (a, _ :: r :: _) => (a, r)
        | (a, _) => (a, "?")
      match target with
      | "rs" => stepRedis st conn .src name args rep
      | "rd" => stepRedis st conn .dst name args rep
      | "ps" => stepProxy st .S name args rep
      | "pd" => stepProxy st .D name args rep
      | _ => refuse st "unknown target"
    | _ => refuse st "bad-op"

def run : IO Unit := Um.Drv.loop ({} : DState) step
end Um.Drv.Migration
