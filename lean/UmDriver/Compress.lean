-- driver: compress Um.Drv.Compress
import UmModel.Compress
import UmDriver.Common
/-!
Line protocol of `umh_compress` (byte strings hex-encoded, `-` = empty):

* `cfg <d|s|a> <0|1> <-|n> <lo-hi,lo-hi,…|->`  strategy, active redirection, max redirections, the
  slot ranges owned by proxy 0 (proxy 1 owns the rest) → `ok`
* `c <proxy> <arg>…`   client command → `<reply> | <commands that reached a backend, sorted>`
* `dump`               → logical content of both stores
* `uc <d|s|a> <arg>…`  `try_compressing_cmd_ctx` alone
* `ud <d|s|a> <name> <reply>`  `decompress` alone
-/
namespace Um.Drv.Compress
open Um Um.Compress Um.Gen.Compress

/-! `generate_slot`: CRC16/XMODEM of the hash tag, modulo `SLOT_NUM` -/

def crcStep (crc : Nat) (b : UInt8) : Nat :=
  let c0 := crc ^^^ (b.toNat <<< 8)
  (List.range 8).foldl (fun c _ =>
    if c &&& 0x8000 ≠ 0 then ((c <<< 1) ^^^ 0x1021) &&& 0xFFFF else (c <<< 1) &&& 0xFFFF) c0

def crc16 (b : Bytes) : Nat := b.foldl crcStep 0

def hashTag (key : Bytes) : Bytes :=
  match key.idxOf? 123 with
  | none => key
  | some i =>
    let rest := key.drop (i + 1)
    match rest.idxOf? 125 with
    | none => key
    | some 0 => key
    | some j => rest.take j

def slotOf (key : Bytes) : Nat := crc16 (hashTag key) % SLOT_NUM

structure St where
  env : Env
  sys : Sys
  seen : List Bytes

def mkEnv (s : Strategy) (ar : Bool) (maxr : Option Nat) (ranges : List (Nat × Nat)) : Env where
  codec := toyCodec
  strategy := s
  activeRedirection := ar
  maxRedirections := maxr
  slot := slotOf
  owner := fun slot =>
    if slot ≥ SLOT_NUM then none
    else if ranges.any (fun r => r.1 ≤ slot && slot ≤ r.2) then some 0 else some 1
  addr := fun p => if p = 0 then B "127.0.0.1:6001" else B "127.0.0.2:6002"

def init : St := { env := mkEnv .disabled false none [], sys := Sys.empty, seen := [] }

def strategyOf : String → Option Strategy
  | "d" => some .disabled
  | "s" => some .setGetOnly
  | "a" => some .allowAll
  | _ => none

def parseRanges (s : String) : Option (List (Nat × Nat)) :=
  if s == "-" then some [] else
  (s.splitOn ",").mapM fun r =>
    match r.splitOn "-" with
    | [a, b] => do
      let x ← a.toNat?
      let y ← b.toNat?
      pure (x, y)
    | _ => none

partial def showResp : Resp → String
  | .simple b => "S:" ++ hexOfBytes b
  | .error b => "E:" ++ hexOfBytes b
  | .integer b => "I:" ++ hexOfBytes b
  | .bulk b => "B:" ++ hexOfBytes b
  | .nilBulk => "N"
  | .nilArr => "Z"
  | .arr l => "A[" ++ ";".intercalate (l.map showResp) ++ "]"

/-- split the inside of `A[...]` at top-level `;` -/
def splitTop (cs : List Char) : List (List Char) :=
  let rec go (cs : List Char) (depth : Nat) (cur : List Char) (acc : List (List Char)) : List (List Char) :=
    match cs with
    | [] => (cur.reverse :: acc).reverse
    | '[' :: r => go r (depth + 1) ('[' :: cur) acc
    | ']' :: r => go r (depth - 1) (']' :: cur) acc
    | ';' :: r => if depth = 0 then go r depth [] (cur.reverse :: acc) else go r depth (';' :: cur) acc
    | c :: r => go r depth (c :: cur) acc
  go cs 0 [] []

partial def parseResp (s : String) : Option Resp :=
  if s == "N" then some .nilBulk
  else if s == "Z" then some .nilArr
  else if s.startsWith "A[" && s.endsWith "]" then
    let inner := ((s.drop 2).dropEnd 1).toString
    if inner.isEmpty then some (.arr [])
    else ((splitTop inner.toList).mapM fun cs => parseResp (String.ofList cs)).map Resp.arr
  else
    let tag := (s.take 2).toString
    let body := (s.drop 2).toString
    match tag, bytesOfHex body with
    | "S:", some b => some (.simple b)
    | "E:", some b => some (.error b)
    | "I:", some b => some (.integer b)
    | "B:", some b => some (.bulk b)
    | _, _ => none

def errName : CompressionError → String
  | .io => "Io"
  | .invalidRequest => "InvalidRequest"
  | .invalidResp => "InvalidResp"
  | .disabled => "Disabled"
  | .unsupportedCmdType => "UnsupportedCmdType"
  | .restrictedCmd => "RestrictedCmd"

def showCmd (cmd : List Bytes) : String := ",".intercalate (cmd.map hexOfBytes)

def sortStrings (l : List String) : List String := (l.toArray.qsort (· < ·)).toList

def showLog (entries : List (Nat × List Bytes)) : String :=
  ";".intercalate (sortStrings (entries.map fun e => s!"b{e.1}:{showCmd e.2}"))

def addSeen (seen : List Bytes) (args : List Bytes) : List Bytes :=
  args.foldl (fun acc a => if acc.contains a then acc else a :: acc) seen

def dumpStore (st : St) (p : Nat) : String :=
  let items := st.seen.filterMap fun k =>
    match st.sys.stores p k with
    | some v => some (hexOfBytes k ++ "=" ++ hexOfBytes v)
    | none => none
  s!"b{p}" ++ "{" ++ ",".intercalate (sortStrings items) ++ "}"

def fuel : Nat := 8

def step (st : St) (toks : List String) : St × String :=
  match toks with
  | ["cfg", s, ar, maxr, ranges] =>
    match strategyOf s, parseRanges ranges with
    | some s, some rs =>
      let maxr := if maxr == "-" then none else maxr.toNat?
      ({ env := mkEnv s (ar == "1") maxr rs, sys := Sys.empty, seen := [] }, "ok")
    | _, _ => (st, "bad-op")
  | "c" :: p :: args =>
    match p.toNat?, args.mapM bytesOfHex with
    | some p, some cmd =>
      let r := handle st.env fuel st.sys p cmd
      let newLog := r.1.log.drop st.sys.log.length
      ({ st with sys := r.1, seen := addSeen st.seen cmd }, showResp r.2 ++ " | " ++ showLog newLog)
    | _, _ => (st, "bad-op")
  | ["dump"] => (st, dumpStore st 0 ++ ";" ++ dumpStore st 1)
  | "uc" :: s :: args =>
    match strategyOf s, args.mapM bytesOfHex with
    | some s, some cmd =>
      match compressCmd toyCodec s cmd with
      | .ok cmd' => (st, "ok " ++ showCmd cmd')
      | .error e => (st, "err " ++ errName e)
    | _, _ => (st, "bad-op")
  | ["ud", s, name, reply] =>
    match strategyOf s, bytesOfHex name, parseResp reply with
    | some s, some n, some r =>
      match decompressReply toyCodec s (dataTypeOf [n]) r with
      | .ok r' => (st, "ok " ++ showResp r')
      | .error e => (st, "err " ++ errName e)
    | _, _, _ => (st, "bad-op")
  | _ => (st, "bad-op")

def run : IO Unit := Um.Drv.loop init step
end Um.Drv.Compress
