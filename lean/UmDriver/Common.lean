import UmModel.Bytes
/-! Line-protocol plumbing shared by all driver sub-commands. -/
namespace Um.Drv

/-- Fold `step` over stdin lines; `case <n>` lines are echoed and reset the state. -/
partial def loop {σ : Type} (init : σ) (step : σ → List String → σ × String) : IO Unit := do
  let stdin ← IO.getStdin
  let stdout ← IO.getStdout
  let rec go (s : σ) : IO Unit := do
    let line ← stdin.getLine
    if line.isEmpty then return ()
    let l := (line.dropEndWhile (fun c => c == '\n' || c == '\r')).toString
    let toks := l.splitOn " "
    match toks with
    | ["case", n] =>
      stdout.putStrLn s!"case {n}"
      go init
    | _ =>
      let (s', out) := step s toks
      stdout.putStrLn out
      go s'
  go init
  stdout.flush

end Um.Drv
