-- driver: setrepl Um.Drv.SetRepl
import UmModel.ReplEpoch
import UmDriver.Common
/-!
Line protocol of the C05 SETREPL stream (`umh_setrepl`).

  host <announce-host hex>
  spawn MSG     -- a thread enters `update_replicators` and runs to its first scheduling point
  step <i>      -- caller `i` (spawn order within the case) performs its next atomic action
  call MSG      -- a sequential call: enter and run to return with nobody else moving

  MSG   := <epoch> <force 0|1> <m> ENTRY^m <r> ENTRY^r
  ENTRY := <cluster hex> <node hex> <p> (<node hex> <proxy hex>)^p

Output: `t<i> <at <point> | done <reply>> <installed metadata>`, the metadata as the sorted
`;`-joined records `M|R:<cluster>:<node>:<peer node>@<peer proxy>,…` (`-` = empty).
-/
namespace Um.Drv.SetRepl
open Um Um.ProxyMeta Um.ReplEpoch

structure St where
  host : Bytes
  sys : Sys

def init : St := ⟨[], Sys.init⟩

abbrev P (α : Type) := List String → Option (α × List String)

def pNat : P Nat
  | t :: r => t.toNat?.map (·, r)
  | [] => none

def pStr : P Bytes
  | t :: r => (bytesOfHex t).map (·, r)
  | [] => none

def pMany {α : Type} (p : P α) : Nat → P (List α)
  | 0, ts => some ([], ts)
  | n + 1, ts => do
    let (x, r) ← p ts
    let (xs, r') ← pMany p n r
    pure (x :: xs, r')

def pPeer : P Peer := fun ts => do
  let (a, r) ← pStr ts
  let (b, r) ← pStr r
  pure (⟨a, b⟩, r)

def pEntry : P Entry := fun ts => do
  let (c, r) ← pStr ts
  let (n, r) ← pStr r
  let (k, r) ← pNat r
  let (ps, r) ← pMany pPeer k r
  pure (⟨c, n, ps⟩, r)

def pMsg : P RMsg := fun ts => do
  let (e, r) ← pNat ts
  let (f, r) ← pNat r
  let (nm, r) ← pNat r
  let (ms, r) ← pMany pEntry nm r
  let (nr, r) ← pNat r
  let (rs, r) ← pMany pEntry nr r
  if f > 1 then none else pure (⟨e, f == 1, ms, rs⟩, r)

def renderRec (kr : Key × Rec) : String :=
  let e := kr.2.entry
  let peers := ",".intercalate (e.peers.map fun p => hexOfBytes p.node ++ "@" ++ hexOfBytes p.proxy)
  (if kr.2.master then "M:" else "R:") ++ hexOfBytes e.cluster ++ ":" ++ hexOfBytes e.node ++ ":" ++ peers

def insertSorted (x : String) : List String → List String
  | [] => [x]
  | y :: ys => if x ≤ y then x :: y :: ys else y :: insertSorted x ys

def sortStrings : List String → List String
  | [] => []
  | x :: xs => insertSorted x (sortStrings xs)

def renderMap (m : RMap) : String :=
  if m.isEmpty then "-" else ";".intercalate (sortStrings (m.map renderRec))

def renderCaller (s : Sys) (i : Nat) : String :=
  match s.callers[i]? with
  | some c => s!"t{i} {c.pc.render} {renderMap s.instMap}"
  | none => "bad-caller"

def step (s : St) (toks : List String) : St × String :=
  match toks with
  | ["host", h] =>
    match bytesOfHex h with
    | some hb => (⟨hb, Sys.init⟩, "ok")
    | none => (s, "bad-op")
  | "spawn" :: rest =>
    match pMsg rest with
    | some (m, []) =>
      match step? s.host s.sys (.spawn m) with
      | some sys' => (⟨s.host, sys'⟩, renderCaller sys' s.sys.callers.length)
      | none => (s, "bad-step")
    | _ => (s, "bad-op")
  | ["step", i] =>
    match i.toNat? with
    | some ii =>
      match step? s.host s.sys (.run ii) with
      | some sys' => (⟨s.host, sys'⟩, renderCaller sys' ii)
      | none => (s, "bad-step")
    | none => (s, "bad-op")
  | "call" :: rest =>
    match pMsg rest with
    | some (m, []) =>
      let sys' := call s.host s.sys m
      (⟨s.host, sys'⟩, renderCaller sys' s.sys.callers.length)
    | _ => (s, "bad-op")
  | _ => (s, "bad-op")

def run : IO Unit := Um.Drv.loop init step
end Um.Drv.SetRepl
