-- driver: route Um.Drv.RouteE2E
import UmModel.RouteE2E
import UmModel.BrokerOps
import UmDriver.Common
import UmDriver.Broker
/-!
Line protocol of the C02 correspondence stream (`umh_route`).  The broker part of a case is run
through the broker model itself, so a case is end-to-end in Lean as well:
store history → `proxyView` → `encodeFor` → wire → `setMeta` → `routeWithMigration` → `follow`.

* `b <broker op>`                     → as in the `broker` driver (`OK… g=<epoch>` / `ERR …`)
* `proxy <addr> <announce host>`      → `ok` (fresh proxy process, active redirection off)
* `view <addr> <limit>`               → the served `Proxy` (canonical text); remembered as the
                                         coordinator's current view of `<addr>`
* `sync <addr> <plain|comp>`          → `<reply> tasks=<n>`: encode the remembered view, deliver it,
                                         `set_meta`
* `hs <dst proxy> <sub> <key>`        → reply of `UMCTL <sub>` at the destination proxy
* `src <src proxy> <event> <key>`     → `ok` (source-side step of the migrating task)
* `states`                            → every task of every proxy, sorted
* `gate <level> [<src proxy>]`        → `ok` (harness-only: how far the real handshake may proceed)
* `kill <addr>`                       → `ok` (the proxy process is gone)
* `follow <start> <slot> <picks|->`   → `k=<MOVED seen> <hop>;<hop>…`; `<picks>` = the MOVED targets
                                         the implementation answered, used only to resolve the order
                                         of an overlapping peer map (DESIGN §2.3) — a target that is
                                         not an allowed one leaves the prediction unchanged and shows
                                         up as a difference
* `late <proxy> <slot> <pick|->`      → one routing step (a queued command re-sent at release)
`<key>` = `<cluster> <epoch> <ranges> <src proxy> <src node> <dst proxy> <dst node>`.
-/
namespace Um.Drv.RouteE2E
open Um Um.Broker Um.Route Um.E2E

structure St where
  store : Store := Store.init
  views : List (String × VProxy) := []
  net : List (String × ProxyState) := []
  /-- what each proxy parsed last (to rebuild its peer map in another visiting order) -/
  metas : List (String × EMeta) := []

def St.proxy? (s : St) (a : String) : Option ProxyState := (s.net.find? (·.1 == a)).map (·.2)

def St.setProxy (s : St) (a : String) (p : ProxyState) : St :=
  if s.net.any (·.1 == a) then { s with net := s.net.map fun e => if e.1 == a then (a, p) else e }
  else { s with net := s.net ++ [(a, p)] }

def setAssoc {α} (l : List (String × α)) (k : String) (v : α) : List (String × α) :=
  if l.any (·.1 == k) then l.map fun e => if e.1 == k then (k, v) else e else l ++ [(k, v)]

def parseKey (toks : List String) (migrating : Bool) : Option TaskKey :=
  match toks with
  | [cluster, epoch, ranges, sp, sn, dp, dn] =>
    match epoch.toNat?, Um.Drv.Broker.parseRanges ranges with
    | some e, some rl =>
      let info : MigInfo := ⟨e, sp, sn, dp, dn⟩
      some ⟨cluster, ⟨rl, if migrating then .migrating info else .importing info⟩⟩
    | _, _ => none
  | _ => none

def renderOutcome (proxy : String) : E2E.Outcome → String
  | .exec n => s!"{proxy}>X:{n}"
  | .held _ => s!"{proxy}>H"
  | .moved _ a => s!"{proxy}>M:{a}"
  | .other .errClusterNotFound => s!"{proxy}>E:cluster-not-found"
  | .other .errMissingKey => s!"{proxy}>E:missing-key"
  | .other (.errSlotNotCovered _) => s!"{proxy}>E:slot-not-covered"
  | .other .errTooManyRedirections => s!"{proxy}>E:too-many-redirections"
  | .other .errNodeNotFound => s!"{proxy}>E:node-not-found"
  | .other (.forward _ a _) => s!"{proxy}>F:{a}"
  | .other (.exec n) => s!"{proxy}>X:{n}"
  | .other (.moved _ a) => s!"{proxy}>M:{a}"

/-- the proxy's decision; when the implementation answered `MOVED pick` and the default visiting
order of the peer map predicts another peer, retry with `pick` visited last -/
def routeAt (s : St) (a : String) (p : ProxyState) (slot : Nat) (pick : Option String) : E2E.Outcome :=
  let o := routeWithMigration p none (some slot)
  match o, pick with
  | .moved _ b, some w =>
    if b == w then o
    else
      match (s.metas.find? (·.1 == a)).map (·.2) with
      | none => o
      | some m =>
        let peer := m.peer.filter (fun e => e.1 != w) ++ m.peer.filter (fun e => e.1 == w)
        let p' := { p with cm := ClusterMap.install p.cfg m.cluster (rangesOfMap m.loc) (rangesOfMap peer) }
        match routeWithMigration p' none (some slot) with
        | .moved sl b' => if b' == w then .moved sl b' else o
        | _ => o
  | _, _ => o

def followTrace (s : St) (slot : Nat) : Nat → String → List String → Nat × List String
  | 0, a, _ => (0, [s!"{a}>LIMIT"])
  | fuel + 1, a, picks =>
    match s.proxy? a with
    | none => (0, [s!"{a}>NOPROXY"])
    | some p =>
      let o := routeAt s a p slot picks.head?
      match o with
      | .moved _ b =>
        let r := followTrace s slot fuel b picks.tail
        (r.1 + 1, renderOutcome a o :: r.2)
      | _ => (0, [renderOutcome a o])

def renderRanges (rl : RangeList) : String := Um.Slots.render rl

def renderStates (s : St) : String :=
  let lines := s.net.flatMap fun e => e.2.tasks.map fun t =>
    let (sn, dn) :=
      match t.key.range.tag with
      | .migrating i => (i.srcNode, i.dstNode)
      | .importing i => (i.srcNode, i.dstNode)
      | .none => ("?", "?")
    s!"{e.1}/{renderRanges t.key.range.ranges}/{sn}/{dn}/{t.state.name}"
  let sorted := lines.mergeSort fun a b => decide (a ≤ b)
  if sorted.isEmpty then "-" else "|".intercalate sorted

def renderSetReply : SetMetaReply → String
  | .ok => "OK"
  | .oldEpoch => "OLD_EPOCH"
  | .notMyMeta => "NOT_MY_META"

def renderSwitchReply : SwitchReply → String
  | .ok => "OK"
  | .invalidArg => "INVALID_ARG"
  | .notReady => "NOT_READY"
  | .taskNotFound => "TASK_NOT_FOUND"
  | .peerMigrating => "PEER_MIGRATING"

def parseSub : String → Option MgrSub
  | "PRECHECK" => some .preCheck
  | "PRESWITCH" => some .preSwitch
  | "FINALSWITCH" => some .finalSwitch
  | _ => none

def parseEvent : String → Option SrcEvent
  | "precheckAcked" => some .precheckAcked
  | "blockingStarted" => some .blockingStarted
  | "blockingDone" => some .blockingDone
  | "preswitchAcked" => some .preswitchAcked
  | "blockingStopped" => some .blockingStopped
  | "scanDone" => some .scanDone
  | "finalAcked" => some .finalAcked
  | _ => none

def step (s : St) (toks : List String) : St × String :=
  match toks with
  | "b" :: rest =>
    match Um.Drv.Broker.parseOp rest with
    | some op =>
      let (st, out) := Um.Drv.Broker.finO (stepFull s.store op) s.store
      ({ s with store := st }, out)
    | none => (s, "bad-op")
  | ["proxy", a, host] =>
    (s.setProxy a { announceHost := host }, "ok")
  | ["view", a, l] =>
    match l.toNat? with
    | none => (s, "bad-op")
    | some l =>
      match proxyView s.store a l with
      | .ok (some v) => ({ s with views := setAssoc s.views a v }, renderVProxy v)
      | r => (s, renderR (fun o => match o with | some v => renderVProxy v | none => "NONE") r)
  | ["sync", a, mode] =>
    match (s.views.find? (·.1 == a)).map (·.2), s.proxy? a with
    | some v, some p =>
      let m := encodeFor (mode == "comp") v
      let delivered :=
        if mode == "comp" then deliverCompressed (fun _ => []) (fun _ => some (toProto m).data) m
        else deliverPlain Proto.CfgField.all m
      match delivered with
      | .error _ => (s, "PARSE_ERR")
      | .ok (m', ext) =>
        let (p', r) := setMeta p m'
        let s' := s.setProxy a p'
        let s' := if r == .ok then { s' with metas := setAssoc s'.metas a m' } else s'
        let reply := if r == .ok && !ext then "WARN" else renderSetReply r
        (s', s!"{reply} tasks={p'.tasks.length}")
    | _, _ => (s, "bad-op")
  | "hs" :: dst :: sub :: key =>
    match s.proxy? dst, parseSub sub, parseKey key true with
    | some p, some sb, some k =>
      let (p', r) := handleSwitch p k sb
      (s.setProxy dst p', renderSwitchReply r)
    | _, _, _ => (s, "bad-op")
  | "src" :: a :: ev :: key =>
    match s.proxy? a, parseEvent ev, parseKey key true with
    | some p, some e, some k => (s.setProxy a (srcStep p k e), "ok")
    | _, _, _ => (s, "bad-op")
  | ["states"] => (s, renderStates s)
  | "gate" :: _ => (s, "ok")
  | ["kill", a] =>
    ({ s with net := s.net.filter (·.1 != a), views := s.views.filter (·.1 != a), metas := s.metas.filter (·.1 != a) }, "ok")
  | ["follow", start, slot, picks] =>
    match slot.toNat? with
    | none => (s, "bad-op")
    | some sl =>
      let ps := if picks == "-" then [] else picks.splitOn ","
      let (k, hops) := followTrace s sl 8 start ps
      (s, s!"k={k} {";".intercalate hops}")
  | ["late", a, slot, pick] =>
    match slot.toNat?, s.proxy? a with
    | some sl, some p => (s, renderOutcome a (routeAt s a p sl (if pick == "-" then none else some pick)))
    | _, _ => (s, "bad-op")
  | _ => (s, "bad-op")

def run : IO Unit := Um.Drv.loop ({} : St) step
end Um.Drv.RouteE2E
