-- driver: route9 Um.Drv.Route9
import UmModel.Crc16
import UmModel.Route
import UmModel.RouteCmd
import UmDriver.Common
/-!
Line protocol of the C09 correspondence stream (`umh_route9`):

* `crc <key>`                       → `<xmodem> <arc> <slot> <lockslot> <hashtag>`
* `sameslot <key>*`                 → `true` / `false`
* `smd <nodes>` / `smq <slot>`      → direct `SlotMapData::new` / `get` (`<nodes>` in visiting order)
* `cfg ar=<0|1> maxr=<n|-> defaddr=<addr|->` → `ok` (fresh proxy)
* `install <name|-> <local nodes|-> <peer nodes|->` → `OK` (nodes in the resolved visiting order)
* `cmd <arg>* [pick=<hex>]`         → `<reply> | <delivered (addr>args), sorted>`

`<nodes>` = `addr=s-e,s-e;addr=…`, byte strings are hex (`-` empty, `~` a non-bulk argument).
-/
namespace Um.Drv.Route9
open Um Um.Crc16 Um.Route Um.RouteCmd

structure St where
  cfg : RouteCfg := {}
  cm : ClusterMap := ClusterMap.empty
  smd : SlotMapData := SlotMapData.new []

def parseRange (s : String) : Option (Nat × Nat) :=
  match s.splitOn "-" with
  | [a, b] => do let x ← a.toNat?; let y ← b.toNat?; pure (x, y)
  | _ => none

def parseNode (s : String) : Option (Addr × RangeL) :=
  match s.splitOn "=" with
  | [a, rs] =>
    if rs.isEmpty then some (a, [])
    else (rs.splitOn ",").mapM parseRange |>.map fun l => (a, l)
  | _ => none

def parseNodes (s : String) : Option NodeRanges :=
  if s == "-" then some [] else (s.splitOn ";").mapM parseNode

def parseArg (s : String) : Option Arg :=
  if s == "~" then some none else (bytesOfHex s).map some

def upper (b : Bytes) : Bytes := b.map byteToUpper

/-- the harness' fake backend / fake peer proxy: the reply is a function of the node address and of
the (UMFORWARD-unwrapped) command name -/
def fakeBackend (addr : Addr) (c : Cmd) : Resp :=
  let inner := if ((elem c 0).map upper) == some (bs "UMFORWARD") then c.drop 2 else c
  let name := ((elem inner 0).map upper).getD []
  if name == bs "SET" then .simple (bs "OK")
  else if name == bs "DEL" || name == bs "EXISTS" || name == bs "MSETNX" then .integer (bs "1")
  else if name == bs "ZPOPMIN" || name == bs "ZPOPMAX" then .arr [.bulk (bs addr), .bulk (bs "1")]
  else .bulk (bs addr)

mutual
def renderResp : Resp → String
  | .error b => "E:" ++ hexOfBytes b
  | .simple b => "S:" ++ hexOfBytes b
  | .integer b => "I:" ++ hexOfBytes b
  | .bulk b => "B:" ++ hexOfBytes b
  | .nilBulk => "N"
  | .nilArr => "NA"
  | .arr xs => "A[" ++ renderList xs ++ "]"
  | .unmodelled w => "U:" ++ w
def renderList : List Resp → String
  | [] => ""
  | [x] => renderResp x
  | x :: xs => renderResp x ++ "," ++ renderList xs
end

def renderArg : Arg → String
  | none => "~"
  | some b => hexOfBytes b

def renderDelivered (ds : List Dispatch) : String :=
  let items := ds.filterMap fun d =>
    (delivered d).map fun p => p.1 ++ ">" ++ ",".intercalate (p.2.map renderArg)
  let sorted := items.mergeSort fun a b => a < b || a == b
  if sorted.isEmpty then "-" else ";".intercalate sorted

def renderOptAddr : Option Addr → String
  | some a => a
  | none => "-"

def parseKv (pre : String) (s : String) : Option String :=
  if s.startsWith pre then some ((s.drop pre.length).toString) else none

def step (st : St) (toks : List String) : St × String :=
  match toks with
  | ["crc", h] =>
    match bytesOfHex h with
    | some k =>
      (st, s!"{(crc16Xmodem k).toNat} {(crc16Arc k).toNat} {slotOf k} {lockSlotOf k} {hexOfBytes (getHashTag k)}")
    | none => (st, "bad-op")
  | "sameslot" :: hs =>
    match hs.mapM bytesOfHex with
    | some ks => (st, toString (sameSlot ks))
    | none => (st, "bad-op")
  | ["smd", spec] =>
    match parseNodes spec with
    | some m => ({ st with smd := SlotMapData.new m }, "ok")
    | none => (st, "bad-op")
  | ["smq", s] =>
    match s.toNat? with
    | some slot => (st, renderOptAddr (st.smd.get slot))
    | none => (st, "bad-op")
  | ["cfg", ar, maxr, da] =>
    match parseKv "ar=" ar, parseKv "maxr=" maxr, parseKv "defaddr=" da with
    | some a, some m, some d =>
      let cfg : RouteCfg :=
        { activeRedirection := a == "1"
          maxRedirections := if m == "-" then none else m.toNat?
          defaultRedirectionAddress := if d == "-" then none else some d }
      ({ st with cfg := cfg, cm := ClusterMap.empty }, "ok")
    | _, _, _ => (st, "bad-op")
  | ["install", name, l, p] =>
    match parseNodes l, parseNodes p with
    | some loc, some peer =>
      let nm := if name == "-" then "" else name
      ({ st with cm := ClusterMap.install st.cfg nm loc peer }, "OK")
    | _, _ => (st, "bad-op")
  | "cmd" :: rest =>
    let (pick, args) : Option String × List String :=
      match rest.getLast? with
      | some l => match parseKv "pick=" l with
        | some p => (some p, rest.dropLast)
        | none => (none, rest)
      | none => (none, rest)
    match args.mapM parseArg with
    | none => (st, "bad-op")
    | some c =>
      let h := handle st.cfg st.cm fakeBackend c
      let reply : String :=
        match pick with
        | none => renderResp h.reply
        | some p =>
          match bytesOfHex p with
          | some e =>
            -- the implementation's choice among the HashMap-order dependent candidates
            if isError h.reply == some e || h.altErrors.contains e then renderResp (.error e)
            else "NOT-ALLOWED " ++ renderResp h.reply
          | none => "bad-op"
      (st, reply ++ " | " ++ renderDelivered h.dispatched)
  | _ => (st, "bad-op")

def run : IO Unit := Um.Drv.loop ({} : St) step
end Um.Drv.Route9
