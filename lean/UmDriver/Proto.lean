-- driver: proto Um.Drv.Proto
import UmModel.Proto
import UmModel.ReplProto
import UmModel.ProtoCommit
import UmDriver.Broker
import UmDriver.Common
/-!
Line protocol of the C17 stream (`umh_proto`).  Every Rust string travels as one hex token
(`-` = empty), numbers in decimal, structured values in a flat prefix syntax:

  SR     := (N|M|I) <n> (<s> <e>)^n [<epoch> <srcProxy> <srcNode> <dstProxy> <dstNode>]   (M, I only)
  NMAP   := <k> (<addr> <j> SR^j)^k
  CFG    := <0|1|2> <max_migration_time> <max_blocking_time> <scan_interval> <scan_count>
  DATA   := <cluster> NMAP(local) NMAP(peer) CFG
  META   := <epoch> <force> <compress> DATA
  TASK   := <cluster> SR            SWITCH := <version> TASK
  ENTRY  := <cluster> <node> <p> (<node> <proxy>)^p
  REPL   := <epoch> <force> <compress> <m> ENTRY^m <r> ENTRY^r
  ELEM   := b<hex> | s<hex> | o<kind>
  DEC    := X | E | D DATA      (what the real `from_compressed_data` made of the 4th string token)

Renderings of parse results use the same syntax, node maps sorted by address.

The commit leg (`C17_task_commit`) keeps a broker store as driver state:
  b <broker op line>          forwarded to the broker driver (`UmDriver/Broker.lean` grammar)
  served <addr> <limit>       → `S <hex>*`: the INFOMGR strings of the tagged slot ranges
                                `get_proxy_by_address` serves for that proxy's nodes
  commitdesc ELEM <clear>     one INFOMGR reply element → coordinator parser → `commit_migration`
                              → `REJECT` (not parsed) | `OK g=<epoch>` | `ERR <code> g=<epoch>`
-/
namespace Um.Drv.Proto
open Um Um.Proto

abbrev P (α : Type) := List String → Option (α × List String)

def pNat : P Nat
  | t :: r => t.toNat?.map (·, r)
  | [] => none

def pStr : P Str
  | t :: r => (bytesOfHex t).map (·, r)
  | [] => none

def pBool : P Bool
  | "1" :: r => some (true, r)
  | "0" :: r => some (false, r)
  | _ => none

def pMany {α : Type} (p : P α) : Nat → P (List α)
  | 0, ts => some ([], ts)
  | n + 1, ts => do
    let (x, r) ← p ts
    let (xs, r') ← pMany p n r
    pure (x :: xs, r')

def pRange : P Proto.Range := fun ts => do
  let (s, r) ← pNat ts
  let (e, r) ← pNat r
  pure (⟨s, e⟩, r)

def pMig : P MigrationMeta := fun ts => do
  let (ep, r) ← pNat ts
  let (a, r) ← pStr r
  let (b, r) ← pStr r
  let (c, r) ← pStr r
  let (d, r) ← pStr r
  pure (⟨ep, a, b, c, d⟩, r)

def pSR : P SlotRange
  | k :: ts => do
    let (n, r) ← pNat ts
    let (rs, r) ← pMany pRange n r
    match k with
    | "N" => pure (⟨rs, .none⟩, r)
    | "M" => do let (m, r) ← pMig r; pure (⟨rs, .migrating m⟩, r)
    | "I" => do let (m, r) ← pMig r; pure (⟨rs, .importing m⟩, r)
    | _ => none
  | [] => none

def pGroup : P (Str × List SlotRange) := fun ts => do
  let (a, r) ← pStr ts
  let (j, r) ← pNat r
  let (srs, r) ← pMany pSR j r
  pure ((a, srs), r)

def pNMap : P NodeMap := fun ts => do
  let (k, r) ← pNat ts
  pMany pGroup k r

def pCfg : P Config := fun ts => do
  let (c, r) ← pNat ts
  let (a, r) ← pNat r
  let (b, r) ← pNat r
  let (i, r) ← pNat r
  let (n, r) ← pNat r
  let comp ← match c with
    | 0 => some Compression.disabled | 1 => some .setGetOnly | 2 => some .allowAll | _ => none
  pure (⟨comp, a, b, i, n⟩, r)

def pData : P MetaData := fun ts => do
  let (c, r) ← pStr ts
  let (l, r) ← pNMap r
  let (p, r) ← pNMap r
  let (cfg, r) ← pCfg r
  pure (⟨c, l, p, cfg⟩, r)

def pMeta : P Meta := fun ts => do
  let (e, r) ← pNat ts
  let (f, r) ← pBool r
  let (c, r) ← pBool r
  let (d, r) ← pData r
  pure (⟨Um.Gen.Proto.SET_CLUSTER_API_VERSION, e, ⟨f, c⟩, d.cluster, d.local, d.peer, d.config⟩, r)

def pTask : P TaskMeta := fun ts => do
  let (c, r) ← pStr ts
  let (sr, r) ← pSR r
  pure (⟨c, sr⟩, r)

def pSwitch : P SwitchArg := fun ts => do
  let (v, r) ← pStr ts
  let (t, r) ← pTask r
  pure (⟨v, t⟩, r)

def pPeer : P ReplPeer := fun ts => do
  let (a, r) ← pStr ts
  let (b, r) ← pStr r
  pure (⟨a, b⟩, r)

def pEntry : P ReplEntry := fun ts => do
  let (c, r) ← pStr ts
  let (n, r) ← pStr r
  let (k, r) ← pNat r
  let (ps, r) ← pMany pPeer k r
  pure (⟨c, n, ps⟩, r)

def pRepl : P ReplMeta := fun ts => do
  let (e, r) ← pNat ts
  let (f, r) ← pBool r
  let (c, r) ← pBool r
  let (m, r) ← pNat r
  let (ms, r) ← pMany pEntry m r
  let (k, r) ← pNat r
  let (rs, r) ← pMany pEntry k r
  pure (⟨e, ⟨f, c⟩, ms, rs⟩, r)

def pElem (t : String) : Option Elem :=
  match t.toList with
  | 'b' :: h => (bytesOfHex (String.ofList h)).map Elem.bulk
  | 's' :: h => (bytesOfHex (String.ofList h)).map Elem.simple
  | 'o' :: _ => some .other
  | _ => none

def pElems : List String → Option (List Elem)
  | [] => some []
  | t :: r => do
    let e ← pElem t
    let es ← pElems r
    pure (e :: es)

def pCmd : List String → Option (Option (List Elem))
  | "arr" :: r => (pElems r).map some
  | ["notarr"] => some none
  | _ => none

def pToks : List String → Option (List Str)
  | [] => some []
  | t :: r => do
    let b ← bytesOfHex t
    let bs ← pToks r
    pure (b :: bs)

/-- DEC: the decoder the model is run with, as a function of the blob token -/
def pDec : P (Option MetaData)
  | "X" :: r => some (none, r)
  | "E" :: r => some (none, r)
  | "D" :: r => do let (d, r) ← pData r; pure (some d, r)
  | _ => none

/-! ## rendering -/

def sp (l : List String) : String := " ".intercalate l

def rBool (b : Bool) : String := if b then "1" else "0"
def rStr (s : Str) : String := hexOfBytes s
def rRange (r : Proto.Range) : List String := [toString r.s, toString r.e]
def rMig (m : MigrationMeta) : List String :=
  [toString m.epoch, rStr m.srcProxy, rStr m.srcNode, rStr m.dstProxy, rStr m.dstNode]

def rSR (sr : SlotRange) : List String :=
  let body := toString sr.ranges.length :: sr.ranges.flatMap rRange
  match sr.tag with
  | .none => "N" :: body
  | .migrating m => "M" :: body ++ rMig m
  | .importing m => "I" :: body ++ rMig m

def insertKey (x : String × List String) : List (String × List String) → List (String × List String)
  | [] => [x]
  | y :: ys => if x.1 ≤ y.1 then x :: y :: ys else y :: insertKey x ys

def rNMap (m : NodeMap) : List String :=
  let groups := m.map fun (a, srs) => (rStr a, rStr a :: toString srs.length :: srs.flatMap rSR)
  let sorted := groups.foldr insertKey []
  toString m.length :: sorted.flatMap (·.2)

def rCfg (c : Config) : List String :=
  [match c.comp with | .disabled => "0" | .setGetOnly => "1" | .allowAll => "2",
   toString c.maxMigrationTime, toString c.maxBlockingTime, toString c.scanInterval, toString c.scanCount]

def rMeta (m : Meta) : List String :=
  [rStr m.version, toString m.epoch, rBool m.flags.force, rBool m.flags.compress, rStr m.cluster]
    ++ rNMap m.local ++ rNMap m.peer ++ rCfg m.config

def rTask (t : TaskMeta) : List String := rStr t.cluster :: rSR t.slotRange
def rSwitch (a : SwitchArg) : List String := rStr a.version :: rTask a.task
def rEntry (e : ReplEntry) : List String :=
  rStr e.cluster :: rStr e.node :: toString e.peers.length :: e.peers.flatMap fun p => [rStr p.node, rStr p.proxy]
def rRepl (m : ReplMeta) : List String :=
  [toString m.epoch, rBool m.flags.force, rBool m.flags.compress, toString m.masters.length]
    ++ m.masters.flatMap rEntry ++ [toString m.replicas.length] ++ m.replicas.flatMap rEntry

def rErr : PErr → String
  | .invalidVersion => "InvalidVersion"
  | .invalidEpoch => "InvalidEpoch"
  | .invalidClusterName => "InvalidClusterName"
  | .invalidSlots => "InvalidSlots"
  | .invalidConfig => "InvalidConfig"
  | .invalidRole => "InvalidRole"
  | .invalidArgs => "InvalidArgs"
  | .fuel => "FUEL"

def rParse : Except PErr ParseOk → String
  | .ok (m, ext) => sp ("OK" :: rMeta m ++ [rBool ext])
  | .error e => "ERR " ++ rErr e

def rArgs (ts : List Str) : String := sp ("A" :: ts.map rStr)

def pOrder (t : String) : Option (List CfgField) :=
  t.toList.mapM fun c =>
    match c with
    | '0' => some CfgField.comp | '1' => some .maxMigrationTime | '2' => some .maxBlockingTime
    | '3' => some .scanInterval | '4' => some .scanCount | _ => none

/-- is `order` one of the orders a five-entry map can be iterated in (§2.3 `allowed`)? -/
def orderAllowed (o : List CfgField) : Bool := o.length == 5 && CfgField.all.all (o.contains ·)

/-- non-ASCII runs collapsed to one `?` (0x3F): the part of a case mapping the code can observe -/
def asciiSkeleton : Bool → Str → Str
  | _, [] => []
  | inRun, b :: r =>
    if b ≥ 0x80 then (if inRun then asciiSkeleton true r else 63 :: asciiSkeleton true r)
    else b :: asciiSkeleton false r

/-- the commit leg: ops that read or change the broker store -/
def stepStore (st : Um.Broker.Store) (toks : List String) : Option (Um.Broker.Store × String) :=
  match toks with
  | "b" :: rest => some (Um.Drv.Broker.step st rest)
  | ["served", a, l] =>
    match l.toNat? with
    | none => none
    | some l =>
      match servedDescriptors st a l with
      | .ok ds => some (st, sp ("S" :: ds.map fun d => rStr (infoMgrEncode d)))
      | .err e => some (st, "ERR " ++ e.code)
      | .panic _ => some (st, "PANIC")
      | .badChoice w => some (st, "BAD-CHOICE " ++ w)
  | ["commitdesc", h, clear] =>
    match pElem h with
    | none => none
    | some e =>
      match infoMgrElem e with
      | none => some (st, "REJECT")
      | some t =>
        match commitDescriptor st t (clear == "1") with
        | (s', .ok _) => some (s', s!"OK g={s'.globalEpoch}")
        | (s', .err er) => some (s', s!"ERR {er.code} g={s'.globalEpoch}")
        | (_, .panic _) => some (st, "PANIC")
        | (_, .badChoice w) => some (st, "BAD-CHOICE " ++ w)
  | _ => none

def stepPure (toks : List String) : String :=
  let out : Option String :=
    match toks with
    | "toargs" :: o :: r => do
      let ord ← pOrder o
      let (m, _) ← pMeta r
      if orderAllowed ord then pure (rArgs (m.toArgs ord)) else pure "order-not-allowed"
    | "toargsc" :: blob :: r => do
      let b ← bytesOfHex blob
      let (m, _) ← pMeta r
      pure (rArgs (m.toCompressedArgs fun _ => b))
    | "parse" :: r => do
      let (d, r) ← pDec r
      let ts ← pToks r
      -- the model consults the decoder on the 4th string token only
      pure (rParse (parseWith (fun _ => d) ts))
    | "fromresp" :: r => do
      let (d, r) ← pDec r
      let cmd ← pCmd r
      pure (rParse (fromRespWith (fun _ => d) cmd))
    | "replenc" :: r => do
      let (m, _) ← pRepl r
      pure (rArgs m.encode)
    | "repl" :: r => do
      let cmd ← pCmd r
      pure (match parseReplMeta cmd with
        | .ok m => sp ("OK" :: rRepl m)
        | .error e => "ERR " ++ rErr e)
    | "taskenc" :: r => do
      let (t, _) ← pTask r
      pure ("S " ++ rStr (infoMgrEncode t))
    | ["infomgr", h] => do
      let e ← pElem h
      pure (match infoMgrElem e with
        | some t => sp ("OK" :: rTask t)
        | none => "ERR")
    | "taskfs" :: r => do
      let ts ← pToks r
      pure (match TaskMeta.fromStrings ts with
        | some (t, rest) => sp ("OK" :: rTask t ++ [toString rest.length])
        | none => "ERR")
    | "switchenc" :: r => do
      let (a, _) ← pSwitch r
      pure (rArgs a.intoStrings)
    | "switchfs" :: r => do
      let ts ← pToks r
      pure (match SwitchArg.fromStrings ts with
        | some (a, rest) => sp ("OK" :: rSwitch a ++ [toString rest.length])
        | none => "ERR")
    | "switchcmd" :: r => do
      let cmd ← pCmd r
      pure (match parseSwitchCommand cmd with
        | some a => sp ("OK" :: rSwitch a)
        | none => "ERR")
    | ["rangelist", h] => do
      let s ← bytesOfHex h
      pure (match RangeList.tryFromStr s with
        | some rl => sp ("OK" :: toString rl.length :: rl.flatMap rRange)
        | none => "ERR")
    | ["flags", h] => do
      let s ← bytesOfHex h
      let f := Flags.fromArg s
      pure (sp [rBool f.force, rBool f.compress])
    | ["flagenc", f, c] => do
      let (f, _) ← pBool [f]
      let (c, _) ← pBool [c]
      pure (rStr (Flags.toArg ⟨f, c⟩))
    | ["cfgfield", f, v] => do
      let f ← bytesOfHex f
      let v ← bytesOfHex v
      pure (match Config.default.setField f v with
        | some c => sp ("OK" :: rCfg c)
        | none => "ERR")
    | ["casemap", k, h] => do
      let s ← bytesOfHex h
      match k with
      | "u" => pure (rStr (asciiSkeleton false (upperA s)))
      | "l" => pure (rStr (asciiSkeleton false (lowerA s)))
      | _ => none
    | ["cname", h] => do
      let s ← bytesOfHex h
      pure (rBool (validClusterName s))
    | ["utf8", h] => do
      let s ← bytesOfHex h
      pure (rBool (validUtf8 s))
    | _ => none
  out.getD "bad-op"

def step (st : Um.Broker.Store) (toks : List String) : Um.Broker.Store × String :=
  match toks with
  | "b" :: _ | "served" :: _ | "commitdesc" :: _ => (stepStore st toks).getD (st, "bad-op")
  | _ => (st, stepPure toks)

def run : IO Unit := Um.Drv.loop Um.Broker.Store.init step
end Um.Drv.Proto
