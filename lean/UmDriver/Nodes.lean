-- driver: nodes Um.Drv.Nodes
import UmModel.ClusterNodes
import UmDriver.Common
/-!
Line protocol of the C14 correspondence stream (`umh_nodes`):

* `cfg v=<1|2> ar=<0|1> me=<announce address>` → `ok` (fresh proxy: nothing installed)
* `install <name|-> <epoch> <local nodes|-> <peer nodes|->` → `OK`
  `<nodes>` = `addr=SR/SR…;addr=…`, `SR` = `<N|M|I>:<s-e,s-e…>` (tag kind + range list as installed)
* `states <rangelist>=<State>;…|-` → the phase map, canonical (`get_states`; read by the harness from
  `UMCTL INFO` after driving the real handshake handlers)
* `nodes` → canonical `CLUSTER NODES` reply (lines sorted, slot tokens of a line sorted, `|`-joined)
* `slots` → canonical `CLUSTER SLOTS` reply (`start-end@host:port#id` sorted, `|`-joined; `E:<text>` on error)
* `probe <slot>` → the routing outcome of a command whose key hashes to `<slot>` (`routeSlot`, only for slots
  outside every local migration task): `exec <node>` / `moved <slot> <addr>` / `forward <slot> <addr>` (the
  UMFORWARD budget is C09's observable and is not printed) / `notcovered <slot>` / `clusternotfound` / …
-/
namespace Um.Drv.Nodes
open Um Um.Route Um.RouteCmd Um.Nodes

structure St where
  cfg : RouteCfg := {}
  ver : Version := .v2
  vw : View := View.empty ""
  tasks : List (RangeL × MigState) := []

def str (b : Bytes) : String := String.ofList (b.map fun x => Char.ofNat x.toNat)

def parseRange (s : String) : Option (Nat × Nat) :=
  match s.splitOn "-" with
  | [a, b] => do let x ← a.toNat?; let y ← b.toNat?; pure (x, y)
  | _ => none

def parseRangeList (s : String) : Option RangeL :=
  if s.isEmpty then some [] else (s.splitOn ",").mapM parseRange

def parseSR (s : String) : Option SlotRange :=
  match s.splitOn ":" with
  | [k, rl] =>
    let tag : Option TagKind :=
      if k == "N" then some .none else if k == "M" then some .migrating else if k == "I" then some .importing else none
    match tag, parseRangeList rl with
    | some t, some l => some { ranges := l, tag := t }
    | _, _ => none
  | _ => none

def parseNode (s : String) : Option (Addr × List SlotRange) :=
  match s.splitOn "=" with
  | [a, srs] =>
    if srs.isEmpty then some (a, [])
    else ((srs.splitOn "/").mapM parseSR).map fun l => (a, l)
  | _ => none

def parseNodeSlots (s : String) : Option NodeSlots :=
  if s == "-" then some [] else (s.splitOn ";").mapM parseNode

def parseKv (pre : String) (s : String) : Option String :=
  if s.startsWith pre then some ((s.drop pre.length).toString) else none

def parseTask (s : String) : Option (RangeL × MigState) :=
  match s.splitOn "=" with
  | [rl, st] =>
    match parseRangeList rl, MigState.ofName st with
    | some l, some m => some (l, m)
    | _, _ => none
  | _ => none

def bytesLe : Bytes → Bytes → Bool
  | [], _ => true
  | _ :: _, [] => false
  | a :: as, b :: bs' => if a < b then true else if b < a then false else bytesLe as bs'

def sortBytes (l : List Bytes) : List Bytes := l.mergeSort bytesLe

def renderRangeList (l : RangeL) : String :=
  ",".intercalate (l.map fun r => s!"{r.1}-{r.2}")

/-- canonical form of a NODES reply -/
def canonNodes (text : Bytes) : String :=
  let pieces := splitOn 10 text
  let lines := match pieces.reverse with
    | [] :: rev => rev.reverse
    | _ => pieces
  let canonLine (l : Bytes) : Bytes :=
    let toks := splitOn 32 l
    joinWith [32] (toks.take 8 ++ sortBytes (toks.drop 8))
  let ls := sortBytes (lines.map canonLine)
  if ls.isEmpty then "-" else "|".intercalate (ls.map str)

def canonSlotsEntry : Resp → Bytes
  | .arr [.integer s, .integer e, .arr [.bulk h, .integer p, .bulk id]] =>
    s ++ [45] ++ e ++ [64] ++ h ++ [58] ++ p ++ [35] ++ id
  | _ => [63]

/-- canonical form of a SLOTS reply -/
def canonSlots : Resp → String
  | .error e => "E:" ++ str e
  | .arr xs =>
    let ls := sortBytes (xs.map canonSlotsEntry)
    if ls.isEmpty then "-" else "|".intercalate (ls.map str)
  | _ => "?"

def renderOutcome : Outcome → String
  | .exec n => s!"exec {n}"
  | .moved s a => s!"moved {s} {a}"
  | .forward s a _ => s!"forward {s} {a}"   -- the redirection budget is C09's observable, not C14's
  | .errClusterNotFound => "clusternotfound"
  | .errMissingKey => "missingkey"
  | .errSlotNotCovered s => s!"notcovered {s}"
  | .errTooManyRedirections => "toomany"
  | .errNodeNotFound => "nodenotfound"

def renderTasks (ts : List (RangeL × MigState)) : String :=
  let items := (ts.map fun t => renderRangeList t.1 ++ "=" ++ t.2.name).mergeSort fun a b => a < b || a == b
  if items.isEmpty then "-" else ";".intercalate items

def step (st : St) (toks : List String) : St × String :=
  match toks with
  | ["cfg", v, ar, me] =>
    match parseKv "v=" v, parseKv "ar=" ar, parseKv "me=" me with
    | some v, some a, some m =>
      ({ cfg := { activeRedirection := a == "1" }, ver := if v == "1" then .v1 else .v2,
         vw := View.empty m, tasks := [] }, "ok")
    | _, _, _ => (st, "bad-op")
  | ["install", name, epoch, l, p] =>
    match epoch.toNat?, parseNodeSlots l, parseNodeSlots p with
    | some e, some loc, some peer =>
      let nm := if name == "-" then "" else name
      ({ st with vw := { name := nm, epoch := e, me := st.vw.me, loc := loc, peer := peer }, tasks := [] }, "OK")
    | _, _, _ => (st, "bad-op")
  | ["states", spec] =>
    if spec == "-" then ({ st with tasks := [] }, "-")
    else
      match (spec.splitOn ";").mapM parseTask with
      | some ts => ({ st with tasks := ts }, renderTasks ts)
      | none => (st, "bad-op")
  | ["nodes"] => (st, canonNodes (genClusterNodes st.vw (getStates st.tasks) st.ver))
  | ["slots"] => (st, canonSlots (genClusterSlots st.vw (getStates st.tasks)))
  | ["probe", s] =>
    match s.toNat? with
    | some slot => (st, renderOutcome (routeSlot st.cfg (st.vw.clusterMap st.cfg) none (some slot)))
    | none => (st, "bad-op")
  | _ => (st, "bad-op")

def run : IO Unit := Um.Drv.loop ({} : St) step
end Um.Drv.Nodes
