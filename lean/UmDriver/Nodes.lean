-- driver: nodes Um.Drv.Nodes
import UmModel.ClusterNodes
import UmModel.ClusterNodesHist
import UmDriver.Common
/-!
Line protocol of the C14 correspondence stream (`umh_nodes`):

* `cfg v=<1|2> ar=<0|1> me=<announce address>` → `ok` (fresh proxy process: nothing installed, no task)
* `install <name|-> <epoch> <local nodes|-> <peer nodes|->` → `OK` / `E:OLD_EPOCH` / `E:ERR_NOT_MY_META`
  (`MetaManager::set_meta` on the **same** proxy: tasks of unchanged tagged ranges are kept with their phase,
  every other tagged local range gets a task in `PreCheck`, tasks of vanished ranges are dropped)
  `<nodes>` = `addr=SR/SR…;addr=…`, `SR` = `<N|M|I>:<s-e,s-e…>[@<epoch>~<src proxy>~<src node>~<dst proxy>~<dst node>]`
  (tag kind + range list as installed + the `MigrationMeta` of the tag: it is part of the task key)
* `switch <PRECHECK|PRESWITCH|FINALSWITCH> <cluster|-> <SR>` → `UMCTL <sub>` as a source proxy sends it (any meta):
  `OK` / `E:TASK_NOT_FOUND` / `E:NOT_READY_FOR_SWITCHING` / `E:Invalid_Arg` / `E:Peer_Not_Migrating`
* `tick <ms>` → virtual time passes, no switch step is acknowledged: `ok`, nothing changes
* `tasks` → the phase of every task of the model's task map, canonical (what `UMCTL INFO` lists)
* `states <rangelist>=<State>;…|-` → the harness moved tasks to these phases through the real handshake
  (read back from `UMCTL INFO`); the model's tasks take them over; `TASKS-MISMATCH` if the task sets differ
* `nodes` → canonical `CLUSTER NODES` reply (lines sorted, slot tokens of a line sorted, `|`-joined)
* `slots` → canonical `CLUSTER SLOTS` reply (`start-end@host:port#id` sorted, `|`-joined; `E:<text>` on error)
* `probe <slot>` → the routing outcome of a command whose key hashes to `<slot>` (`routeSlot`, only for slots
  outside every local migration task): `exec <node>` / `moved <slot> <addr>` / `forward <slot> <addr>` (the
  UMFORWARD budget is C09's observable and is not printed) / `notcovered <slot>` / `clusternotfound` / …
-/
namespace Um.Drv.Nodes
open Um Um.Route Um.RouteCmd Um.Nodes

structure St where
  cfg : RouteCfg := {}
  ver : Version := .v2
  h : Hist := Hist.init {} "" ""

def str (b : Bytes) : String := String.ofList (b.map fun x => Char.ofNat x.toNat)

def parseRange (s : String) : Option (Nat × Nat) :=
  match s.splitOn "-" with
  | [a, b] => do let x ← a.toNat?; let y ← b.toNat?; pure (x, y)
  | _ => none

def parseRangeList (s : String) : Option RangeL :=
  if s.isEmpty then some [] else (s.splitOn ",").mapM parseRange

def parseInfo (s : String) : Option Um.Broker.MigInfo :=
  match s.splitOn "~" with
  | [e, sp, sn, dp, dn] => e.toNat?.map fun n => ⟨n, sp, sn, dp, dn⟩
  | _ => none

/-- `<N|M|I>:<ranges>[@<meta>]` -/
def parseSR (s : String) : Option Um.Broker.SlotRange :=
  let k := (s.take 1).toString
  let rest := (s.drop 2).toString
  if (s.drop 1).toString.take 1 != ":" then none
  else
    let (rl, info) : String × Option Um.Broker.MigInfo :=
      match rest.splitOn "@" with
      | [r, m] => (r, parseInfo m)
      | _ => (rest, some ⟨0, "", "", "", ""⟩)
    match parseRangeList rl, info with
    | some l, some i =>
      if k == "N" then some ⟨l, .none⟩
      else if k == "M" then some ⟨l, .migrating i⟩
      else if k == "I" then some ⟨l, .importing i⟩
      else none
    | _, _ => none

def parseNode (s : String) : Option (String × List Um.Broker.SlotRange) :=
  match s.splitOn "=" with
  | [a, srs] =>
    if srs.isEmpty then some (a, [])
    else ((srs.splitOn "/").mapM parseSR).map fun l => (a, l)
  | _ => none

def parseNodeSlots (s : String) : Option Um.E2E.SNodeMap :=
  if s == "-" then some [] else (s.splitOn ";").mapM parseNode

def parseKv (pre : String) (s : String) : Option String :=
  if s.startsWith pre then some ((s.drop pre.length).toString) else none

def parseTask (s : String) : Option (RangeL × MigState) :=
  match s.splitOn "=" with
  | [rl, st] =>
    match parseRangeList rl, MigState.ofName st with
    | some l, some m => some (l, m)
    | _, _ => none
  | _ => none

def bytesLe : Bytes → Bytes → Bool
  | [], _ => true
  | _ :: _, [] => false
  | a :: as, b :: bs' => if a < b then true else if b < a then false else bytesLe as bs'

def sortBytes (l : List Bytes) : List Bytes := l.mergeSort bytesLe

def renderRangeList (l : RangeL) : String :=
  ",".intercalate (l.map fun r => s!"{r.1}-{r.2}")

/-- canonical form of a NODES reply -/
def canonNodes (text : Bytes) : String :=
  let pieces := splitOn 10 text
  let lines := match pieces.reverse with
    | [] :: rev => rev.reverse
    | _ => pieces
  let canonLine (l : Bytes) : Bytes :=
    let toks := splitOn 32 l
    joinWith [32] (toks.take 8 ++ sortBytes (toks.drop 8))
  let ls := sortBytes (lines.map canonLine)
  if ls.isEmpty then "-" else "|".intercalate (ls.map str)

def canonSlotsEntry : Resp → Bytes
  | .arr [.integer s, .integer e, .arr [.bulk h, .integer p, .bulk id]] =>
    s ++ [45] ++ e ++ [64] ++ h ++ [58] ++ p ++ [35] ++ id
  | _ => [63]

/-- canonical form of a SLOTS reply -/
def canonSlots : Resp → String
  | .error e => "E:" ++ str e
  | .arr xs =>
    let ls := sortBytes (xs.map canonSlotsEntry)
    if ls.isEmpty then "-" else "|".intercalate (ls.map str)
  | _ => "?"

def renderOutcome : Outcome → String
  | .exec n => s!"exec {n}"
  | .moved s a => s!"moved {s} {a}"
  | .forward s a _ => s!"forward {s} {a}"   -- the redirection budget is C09's observable, not C14's
  | .errClusterNotFound => "clusternotfound"
  | .errMissingKey => "missingkey"
  | .errSlotNotCovered s => s!"notcovered {s}"
  | .errTooManyRedirections => "toomany"
  | .errNodeNotFound => "nodenotfound"

def renderTasks (ts : List (RangeL × MigState)) : String :=
  let items := (ts.map fun t => renderRangeList t.1 ++ "=" ++ t.2.name).mergeSort fun a b => a < b || a == b
  if items.isEmpty then "-" else ";".intercalate items

def hostOfAddr (a : String) : String := (a.splitOn ":").headD ""

def sameKeys (a b : List RangeL) : Bool :=
  let sa := (a.map renderRangeList).mergeSort fun x y => x < y || x == y
  let sb := (b.map renderRangeList).mergeSort fun x y => x < y || x == y
  sa == sb

def step (st : St) (toks : List String) : St × String :=
  match toks with
  | ["cfg", v, ar, me] =>
    match parseKv "v=" v, parseKv "ar=" ar, parseKv "me=" me with
    | some v, some a, some m =>
      let cfg : RouteCfg := { activeRedirection := a == "1" }
      ({ cfg := cfg, ver := if v == "1" then .v1 else .v2, h := Hist.init cfg m (hostOfAddr m) }, "ok")
    | _, _, _ => (st, "bad-op")
  | ["install", name, epoch, l, p, _mmt] => step st ["install", name, epoch, l, p]
  | ["switch", sub, cluster, sr] =>
    let sub' : Option Um.E2E.MgrSub :=
      if sub == "PRECHECK" then some .preCheck else if sub == "PRESWITCH" then some .preSwitch
      else if sub == "FINALSWITCH" then some .finalSwitch else none
    match sub', parseSR sr with
    | some sb, some r =>
      let (h', rep) := st.h.switch ⟨if cluster == "-" then "" else cluster, r⟩ sb
      ({ st with h := h' },
        match rep with
        | .ok => "OK"
        | .invalidArg => "E:Invalid_Arg"
        | .notReady => "E:NOT_READY_FOR_SWITCHING"
        | .taskNotFound => "E:TASK_NOT_FOUND"
        | .peerMigrating => "E:Peer_Not_Migrating")
    | _, _ => (st, "bad-op")
  | ["tick", _ms] => (st, "ok")
  | ["install", name, epoch, l, p] =>
    match epoch.toNat?, parseNodeSlots l, parseNodeSlots p with
    | some e, some loc, some peer =>
      let nm := if name == "-" then "" else name
      let m : Um.E2E.EMeta :=
        { epoch := e, force := false, compress := false, cluster := nm, loc := loc, peer := peer,
          config := Um.Proto.Config.default }
      let (h', r) := st.h.setMeta m
      ({ st with h := h' },
        match r with
        | .ok => "OK"
        | .oldEpoch => "E:OLD_EPOCH"
        | .notMyMeta => "E:ERR_NOT_MY_META")
    | _, _, _ => (st, "bad-op")
  | ["tasks"] => (st, renderTasks (taskStates st.h.p.tasks))
  | ["states", spec] =>
    let parsed : Option (List (RangeL × MigState)) :=
      if spec == "-" then some [] else (spec.splitOn ";").mapM parseTask
    match parsed with
    | none => (st, "bad-op")
    | some ts =>
      if !sameKeys (ts.map (·.1)) (st.h.p.tasks.map (·.key.range.ranges)) then
        (st, "TASKS-MISMATCH model=" ++ renderTasks (taskStates st.h.p.tasks))
      else
        let tasks' := st.h.p.tasks.map fun t =>
          match ts.find? (fun e => e.1 == t.key.range.ranges) with
          | some e => { t with state := stateTo e.2 }
          | none => t
        ({ st with h := { st.h with p := { st.h.p with tasks := tasks' } } }, renderTasks ts)
  | ["nodes"] => (st, canonNodes (st.h.nodes st.ver))
  | ["slots"] => (st, canonSlots st.h.slots)
  | ["probe", s] =>
    match s.toNat? with
    | some slot => (st, renderOutcome (routeSlot st.cfg (st.h.vw.clusterMap st.cfg) none (some slot)))
    | none => (st, "bad-op")
  | _ => (st, "bad-op")

def run : IO Unit := Um.Drv.loop ({} : St) step
end Um.Drv.Nodes
