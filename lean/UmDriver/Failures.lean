-- driver: failures Um.Drv.Failures
import UmModel.Bytes
import UmModel.Failures
import UmDriver.Common
/-! Line protocol of the `umh_failures` harness (see `harness/src/bin/umh_failures.rs`).
Names travel hex-encoded; every answer ends with the canonical (sorted) dump of the sub-state. -/
namespace Um.Drv.Failures
open Um Um.Failures

def strOfHex (h : String) : Option String :=
  match bytesOfHex h with
  | some b => String.fromUTF8? (ByteArray.mk b.toArray)
  | none => none

def hexOfStr (s : String) : String := hexOfBytes (bytesOfString s)

def insertSorted (x : String) : List String → List String
  | [] => [x]
  | y :: ys => if x < y then x :: y :: ys else y :: insertSorted x ys

def sortStrs (l : List String) : List String := l.foldl (fun acc x => insertSorted x acc) []

def joinWith (sep : String) (l : List String) : String :=
  if l.isEmpty then "-" else sep.intercalate l

def dump (s : State) : String :=
  let ps := sortStrs (s.allProxies.map fun p => hexOfStr p.1 ++ ":" ++ (if p.2 then "1" else "0"))
  let fs := sortStrs (s.failedProxies.map hexOfStr)
  let rs := sortStrs (s.failures.map fun p =>
    hexOfStr p.1 ++ "=" ++ joinWith "+" (sortStrs (p.2.map fun q => hexOfStr q.1 ++ "@" ++ toString q.2)))
  s!"e={s.epoch} P={joinWith "," ps} F={joinWith "," fs} R={joinWith "," rs}"

def listOut (l : List Addr) : String := "[" ++ joinWith "," (sortStrs (l.map hexOfStr)) ++ "]"

def optAll {α : Type} : List (Option α) → Option (List α)
  | [] => some []
  | none :: _ => none
  | some x :: rest => (optAll rest).map (x :: ·)

def parseList (t : String) : Option (List String) :=
  if t == "-" then some [] else optAll ((t.splitOn ",").map strOfHex)

def parseFlag (t : String) : Option Bool :=
  if t == "1" then some true else if t == "0" then some false else none

def parseOutcome (t : String) : Option InCluster :=
  match t.splitOn ":" with
  | ["-"] => some (.takeoverErr "UNEXPECTED" 0)
  | ["te", c, b] => b.toNat?.map fun n => .takeoverErr c n
  | ["on", b] => b.toNat?.map fun n => .orderedNoReplace n
  | ["nr", c, b] => b.toNat?.map fun n => .noResource c n
  | ["rp", a, b] =>
    match strOfHex a, b.toNat? with
    | some a, some n => some (.replaced a n)
    | _, _ => none
  | _ => none

def parseProxies (t : String) : Option (List (Addr × Bool)) :=
  if t == "-" then some [] else
  optAll ((t.splitOn ",").map fun e =>
    match e.splitOn ":" with
    | [a, f] =>
      match strOfHex a, parseFlag f with
      | some a, some f => some (a, f)
      | _, _ => none
    | _ => none)

def parseReports (t : String) : Option (List (Reporter × Int)) :=
  if t == "-" then some [] else
  optAll ((t.splitOn "+").map fun e =>
    match e.splitOn "@" with
    | [r, ts] =>
      match strOfHex r, ts.toInt? with
      | some r, some ts => some (r, ts)
      | _, _ => none
    | _ => none)

def parseFailures (t : String) : Option (List (Addr × List (Reporter × Int))) :=
  if t == "-" then some [] else
  optAll ((t.splitOn ",").map fun e =>
    match e.splitOn "=" with
    | [a, rs] =>
      match strOfHex a, parseReports rs with
      | some a, some rs => some (a, rs)
      | _, _ => none
    | _ => none)

def errOut (e : Option Err) : String :=
  match e with
  | none => "ok"
  | some e => e.code

def step (s : State) (toks : List String) : State × String :=
  match toks with
  | "init" :: o :: _ =>
    match parseFlag o with
    | some o => (init o, "ok")
    | none => (s, "bad-op")
  | ["report", now, a, r, mode] =>
    -- mode `b`: the store's bool result is visible; `u`: the service answers `Ok(())`
    match now.toInt?, strOfHex a, strOfHex r with
    | some now, some a, some r =>
      let (s', b) := addFailure s now a r
      (s', s!"{if mode == "b" then toString b else "ok"} | {dump s'}")
    | _, _, _ => (s, "bad-op")
  | ["getf", now, ttl, q] =>
    match now.toInt?, ttl.toInt?, q.toNat? with
    | some now, some ttl, some q =>
      match getFailures s now ttl q with
      | .ok s' out => (s', s!"{listOut out} | {dump s'}")
      | .panic => (s, "PANIC")
    | _, _, _ => (s, "bad-op")
  | ["cleanup", now, ttl, q] =>
    match now.toInt?, ttl.toInt?, q.toNat? with
    | some now, some ttl, some q =>
      match cleanupFailures s now ttl q with
      | some (s', b) => (s', s!"{b} | {dump s'}")
      | none => (s, "PANIC")
    | _, _, _ => (s, "bad-op")
  | ["addproxy", a, i] =>
    match strOfHex a, parseFlag i with
    | some a, some i =>
      let (s', e) := addProxy s a i
      (s', s!"{errOut e} | {dump s'}")
    | _, _ => (s, "bad-op")
  | ["rmproxy", a] =>
    match strOfHex a with
    | some a =>
      let (s', e) := removeProxy s a
      (s', s!"{errOut e} | {dump s'}")
    | none => (s, "bad-op")
  | ["replace", a, o] =>
    match strOfHex a, parseOutcome o with
    | some a, some o =>
      let (s', r) := replaceFailedProxy s a o
      let rs := match r with
        | .err e => e.code
        | .none => "none"
        | .some b => "some:" ++ hexOfStr b
      (s', s!"{rs} | {dump s'}")
    | _, _ => (s, "bad-op")
  | "alloc" :: b :: as :: _ =>
    match b.toNat?, parseList as with
    | some b, some as => let s' := allocate s as b; (s', dump s')
    | _, _ => (s, "bad-op")
  | "release" :: b :: as :: _ =>
    match b.toNat?, parseList as with
    | some b, some as => let s' := release s as b; (s', dump s')
    | _, _ => (s, "bad-op")
  | ["restore", e, o, ps, fs, rs] =>
    match e.toNat?, parseFlag o, parseProxies ps, parseList fs, parseFailures rs with
    | some e, some o, some ps, some fs, some rs =>
      let other : State := { ordered := o, epoch := e, allProxies := ps, failedProxies := fs, failures := rs }
      let (s', err) := restore s other
      (s', s!"{errOut err} | {dump s'}")
    | _, _, _, _, _ => (s, "bad-op")
  | ["failed"] => (s, listOut (getFailedProxies s))
  | _ => (s, "bad-op")

def run : IO Unit := Um.Drv.loop (init false) step
end Um.Drv.Failures
