-- driver: broker Um.Drv.Broker
import UmModel.BrokerOps
import UmModel.BrokerInvCheck
import UmDriver.Common
/-! Line protocol of the broker model (see `harness/src/bin/umh_broker.rs` for the grammar). -/
namespace Um.Drv.Broker
open Um Um.Broker Um.Slots

def parseChoice (s : String) : List (String × String) :=
  if s == "-" then [] else
  (s.splitOn ";").filterMap fun p =>
    match p.splitOn "," with
    | [a, b] => some (a, b)
    | _ => none

def parseRanges (s : String) : Option RangeList :=
  if s == "e" then some [] else
  (s.splitOn "+").mapM fun r =>
    match r.splitOn "-" with
    | [a, b] => match a.toNat?, b.toNat? with
      | some x, some y => some (x, y)
      | _, _ => none
    | _ => none

def parseKvs (s : String) : List (String × String) :=
  if s == "-" then [] else
  (s.splitOn ",").filterMap fun p =>
    match p.splitOn "=" with
    | [a, b] => some (a, b)
    | _ => none

def finO (p : Store × Outcome) (orig : Store) : Store × String :=
  match p.2 with
  | .ok extra => (p.1, s!"OK{extra} g={p.1.globalEpoch}")
  | .err e => (p.1, s!"ERR {e.code} g={p.1.globalEpoch}")
  | .panic => (orig, "PANIC")
  | .badChoice w => (orig, "BAD-CHOICE " ++ w)

def parseOp (toks : List String) : Option Op :=
  match toks with
  | ["add_proxy", a, n0, n1, h] => some (.addProxy a n0 n1 (if h == "-" then none else some h) none)
  | ["add_proxy", a, n0, n1, h, i] =>
    -- `i` = the `index` argument of `add_proxy` (`-` = `None`)
    if i == "-" then some (.addProxy a n0 n1 (if h == "-" then none else some h) none)
    else i.toNat?.map fun i => .addProxy a n0 n1 (if h == "-" then none else some h) (some i)
  -- `MetaStore::new(true)`: only meaningful as the first line of a case (`Store.setOrdered`)
  | ["mode", "ordered"] => some .setOrdered
  | ["remove_proxy", a] => some (.removeProxy a)
  | ["add_cluster", n, k, c] => k.toNat?.map fun k => .addCluster n k (parseChoice c)
  | ["remove_cluster", n] => some (.removeCluster n)
  | ["add_nodes", n, k, c] => k.toNat?.map fun k => .addNodes n k (parseChoice c)
  | ["scale_up", n, k, c] => k.toNat?.map fun k => .scaleUp n k (parseChoice c)
  | ["change_num", n, k, c] => k.toNat?.map fun k => .changeNum n k (parseChoice c)
  | ["scale_out_num", n, k] => k.toNat?.map fun k => .scaleOutNum n k
  | ["del_free", n] => some (.delFree n)
  | ["migrate", n] => some (.migrate n)
  | ["scale_down", n, k] => k.toNat?.map fun k => .scaleDown n k
  | ["commit", n, e, rs, tag, clear] =>
    match e.toNat?, parseRanges rs with
    | some e, some rl => some (.commit n e (compact rl) (tag == "N") (clear == "1"))
    | _, _ => none
  | ["failover", a, c] => some (.failover a c)
  | ["balance", n] => some (.balance n)
  | ["config", n, kv] => some (.config n (parseKvs kv))
  | ["bump_all", e] => e.toNat?.map fun e => .bumpAll e
  | ["recover", e] => e.toNat?.map fun e => .recover e
  | ["add_failure", a, r, t] => t.toInt?.map fun t => .addFailure a r t
  | _ => none

def step (s : Store) (toks : List String) : Store × String :=
  match toks with
  | ["state"] => (s, renderStore s)
  | ["views", l] =>
    match l.toNat? with
    | some l => (s, s!"{(fnv64 (renderAllViews s l)).toNat}")
    | none => (s, "bad-op")
  | ["view", n, l] =>
    match l.toNat? with
    | some l => (s, renderR (fun o => match o with | some v => renderVCluster v | none => "NONE") (clusterView s n l))
    | none => (s, "bad-op")
  | ["proxy", a, l] =>
    match l.toNat? with
    | some l => (s, renderR (fun o => match o with | some v => renderVProxy v | none => "NONE") (proxyView s a l))
    | none => (s, "bad-op")
  | ["check"] => (s, s!"{checkMetadata s}")
  | ["inv"] => (s, invReport s)
  | _ =>
    match parseOp toks with
    | some op => finO (stepFull s op) s
    | none => (s, "bad-op")

/-- driver state: the store and an optional snapshot (`snap` / `restart` model a broker process
that restarts from an earlier snapshot and runs epoch recovery: `MemBrokerService::recover_epoch`
passes `max_epoch + 1`, `MemoryStorage::recover_epoch` adds another `+ 1`) -/
def step2 (st : Store × Option Store) (toks : List String) : (Store × Option Store) × String :=
  match toks with
  | ["snap"] => ((st.1, some st.1), s!"snap g={st.1.globalEpoch}")
  | ["restart", e] =>
    match e.toNat?, st.2 with
    | some e, some snap => let s' := recoverEpoch snap (e + 1); ((s', st.2), s!"OK g={s'.globalEpoch}")
    | _, _ => (st, "bad-op")
  | ["push_snap"] =>
    -- the snapshot is pushed to the running broker (`MetaStore::restore` on the live store)
    match st.2 with
    | some snap =>
      match restoreInto st.1 snap with
      | (s', .ok _) => ((s', st.2), s!"OK g={s'.globalEpoch}")
      | (s', .err e) => ((s', st.2), s!"ERR {e.code} g={s'.globalEpoch}")
      | _ => (st, "bad-op")
    | none => (st, "bad-op")
  | _ => let (s', out) := step st.1 toks; ((s', st.2), out)

def run : IO Unit := Um.Drv.loop (Store.init, none) step2
end Um.Drv.Broker
