-- driver: resp Um.Drv.Resp
import UmModel.RespStream
import UmDriver.Common
/-!
Line protocol of stream `resp` (C15).  Values travel as prefix token lists:
`S h` simple, `E h` error, `I h` integer, `B h` bulk (`h` hex, `-` = empty), `N` nil bulk,
`Z` nil array, `A n` followed by `n` values.  Index trees are rendered the same way with
`s:e` in place of the hex payload.
-/
namespace Um.Drv.Resp
open Um Um.Resp

partial def renderVal : Resp → List String
  | .simple b => ["S", hexOfBytes b]
  | .error b => ["E", hexOfBytes b]
  | .integer b => ["I", hexOfBytes b]
  | .bulk b => ["B", hexOfBytes b]
  | .bulkNil => ["N"]
  | .arrNil => ["Z"]
  | .arr l => ["A", toString l.length] ++ (l.map renderVal).flatten

def di (d : DataIndex) : String := s!"{d.1}:{d.2}"

partial def renderIdx : RespIdx → List String
  | .simple b => ["S", di b]
  | .error b => ["E", di b]
  | .integer b => ["I", di b]
  | .bulk b => ["B", di b]
  | .bulkNil => ["N"]
  | .arrNil => ["Z"]
  | .arr l => ["A", toString l.length] ++ (l.map renderIdx).flatten

def sp (l : List String) : String := " ".intercalate l

mutual
partial def readVal : List String → Option (Resp × List String)
  | "S" :: h :: r => (bytesOfHex h).map fun b => (.simple b, r)
  | "E" :: h :: r => (bytesOfHex h).map fun b => (.error b, r)
  | "I" :: h :: r => (bytesOfHex h).map fun b => (.integer b, r)
  | "B" :: h :: r => (bytesOfHex h).map fun b => (.bulk b, r)
  | "N" :: r => some (.bulkNil, r)
  | "Z" :: r => some (.arrNil, r)
  | "A" :: n :: r =>
    match n.toNat? with
    | none => none
    | some k => (readVals k r).map fun (l, r') => (.arr l, r')
  | _ => none
partial def readVals : Nat → List String → Option (List Resp × List String)
  | 0, r => some ([], r)
  | k + 1, r =>
    match readVal r with
    | none => none
    | some (v, r') => (readVals k r').map fun (vs, r'') => (v :: vs, r'')
end

def perr : PErr → String
  | .invalid => "InvalidProtocol"
  | .notEnough => "NotEnoughData"
  | .unexpected => "UnexpectedErr"
  | .capacity => "PANIC"
  | .fuel => "MODEL-FUEL"

def renderVecOpt (data : Bytes) (r : RespIdx) : String :=
  match toRespVec data r with
  | some v => sp (renderVal v)
  | none => "PANIC"

def renderEvs (evs : List Ev) (r : Reader) : String :=
  let es := evs.map fun
    | .pkt p => s!"pkt {p.data.length} {renderVecOpt p.data p.resp}"
    | .invalid => "invalid"
    | .panic => "PANIC"
  let tail := match r with
    | some b => s!"left {hexOfBytes b}"
    | none => "end"
  " | ".intercalate (es ++ [tail])

def renderOut : HOut → String
  | .none => "none"
  | .single v => "single " ++ sp (renderVal v)
  | .multi vs => sp (["multi", toString vs.length] ++ (vs.map renderVal).flatten)
  | .invalid => "invalid"
  | .panic => "PANIC"

def renderRun (outs : List HOut) (r : Option Bytes) : String :=
  let tail := match r with
    | some b => s!"left {b.length}"
    | none => "end"
  " | ".intercalate (outs.map renderOut ++ [tail])

/-- the decoder right after the encoder announced `h` -/
def hmAnnounced (h : Hint) : HM := (({} : HM).produce h).1

def readHint : List String → Option Hint
  | ["S"] => some .single
  | ["M", n] => n.toNat?.map .multi
  | _ => none

structure St where
  hm : HM := {}
  buf : Bytes := []

def allHex (l : List String) : Option (List Bytes) :=
  l.foldr (fun h acc => match bytesOfHex h, acc with
    | some b, some r => some (b :: r)
    | _, _ => none) (some [])

def step (st : St) (toks : List String) : St × String :=
  let s := strictTerm
  match toks with
  | "enc" :: rest =>
    match readVal rest with
    | some (v, []) => (st, hexOfBytes (encode v))
    | _ => (st, "bad-op")
  | ["parse", h] =>
    match bytesOfHex h with
    | none => (st, "bad-op")
    | some b =>
      match parse s b with
      | .ok (idx, n) => (st, s!"ok {n} {sp (renderIdx idx)}")
      | .error .capacity => (st, "PANIC")
      | .error e => (st, "err " ++ perr e)
  | ["dec", h] =>
    match bytesOfHex h with
    | none => (st, "bad-op")
    | some b =>
      match decodeIndexed s b with
      | .item p rest => (st, s!"item {p.data.length} {rest.length} {renderVecOpt p.data p.resp}")
      | .none => (st, "none")
      | .invalid => (st, "invalid")
      | .panic => (st, "PANIC")
  | "stream" :: hs =>
    match allHex hs with
    | none => (st, "bad-op")
    | some cs =>
      let r := decodeStream s cs
      (st, renderEvs r.1 r.2)
  | "hm.produce" :: ht =>
    match readHint ht with
    | none => (st, "bad-op")
    | some h =>
      let r := st.hm.produce h
      ({ st with hm := r.1 }, if r.2 then "ok" else "notready")
  | ["hm.feed", h] =>
    match bytesOfHex h with
    | none => (st, "bad-op")
    | some b => ({ st with buf := st.buf ++ b }, s!"buf {(st.buf ++ b).length}")
  | ["hm.decode"] =>
    let r := st.hm.decode s st.buf
    ({ hm := r.1, buf := r.2.1 }, s!"{renderOut r.2.2} ; left {r.2.1.length}")
  | "hm.run" :: "S" :: hs =>
    match allHex hs with
    | none => (st, "bad-op")
    | some cs =>
      let r := hmRun s (hmAnnounced .single) (some []) cs
      (st, renderRun r.1 r.2.2)
  | "hm.run" :: "M" :: n :: hs =>
    match n.toNat?, allHex hs with
    | some k, some cs =>
      let r := hmRun s (hmAnnounced (.multi k)) (some []) cs
      (st, renderRun r.1 r.2.2)
    | _, _ => (st, "bad-op")
  | "omstatic" :: rest =>
    match rest.reverse with
    | h :: ht =>
      match readHint ht.reverse, bytesOfHex h with
      | some hint, some b =>
        let r := omStaticDecode s hint b
        (st, s!"{renderOut r.2} ; left {r.1.length}")
      | _, _ => (st, "bad-op")
    | _ => (st, "bad-op")
  | ["sizeof"] => (st, toString respIndexSize)
  | _ => (st, "bad-op")

def run : IO Unit := Um.Drv.loop ({} : St) step
end Um.Drv.Resp
