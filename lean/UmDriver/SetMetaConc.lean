-- driver: setmeta_conc Um.Drv.SetMetaConc
import UmModel.SetMetaConc
import UmDriver.SetMeta
import UmDriver.Common
/-!
Line protocol of the C05 concurrent SETCLUSTER stream (`umh_setmeta_conc`).

  host <announce-host hex> <fingerprint of the empty snapshot>
  spawn <n> <arg hex>^n M <epoch> <force 0|1> <cfgok 0|1> <content fingerprint> <k> <local addr hex>^k
        -- a thread sends the command and runs to the first scheduling point of `set_meta`
  step <i>   -- caller `i` (spawn order within the case) runs to its next point or to its return

Output: `t<i> <at <point> | done <reply>> <UMCTL GETEPOCH> <routing fingerprint>` — the shared pair is
observed after every step, also in the middle of a critical section.  A `step` of a caller that has
returned, or that waits for the lock while another caller owns it, is `bad-step`.
-/
namespace Um.Drv.SetMetaConc
open Um Um.ProxyMeta Um.SetMetaConc

structure St where
  host : Bytes
  sys : Sys String

def init : St := ⟨[], Sys.init 0 "?"⟩

def renderCaller (s : Sys String) (i : Nat) : String :=
  match s.callers[i]? with
  | some c => s!"t{i} {c.pc.render} {s.epoch} {s.snap}"
  | none => "bad-caller"

def step (s : St) (toks : List String) : St × String :=
  match toks with
  | ["host", h, fp] =>
    match bytesOfHex h with
    | some hb => (⟨hb, Sys.init 0 fp⟩, "ok")
    | none => (s, "bad-op")
  | "spawn" :: n :: rest =>
    match n.toNat? with
    | none => (s, "bad-op")
    | some nn =>
      match Um.Drv.SetMeta.pParsed (rest.drop nn) with
      | some (some (m, cfgOk)) =>
        match step? s.host s.sys (.spawn m cfgOk) with
        | some sys' => (⟨s.host, sys'⟩, renderCaller sys' s.sys.callers.length)
        | none => (s, "bad-step")
      | _ => (s, "bad-op")
  | ["step", i] =>
    match i.toNat? with
    | some ii =>
      match step? s.host s.sys (.run ii) with
      | some sys' => (⟨s.host, sys'⟩, renderCaller sys' ii)
      | none => (s, "bad-step")
    | none => (s, "bad-op")
  | _ => (s, "bad-op")

def run : IO Unit := Um.Drv.loop init step
end Um.Drv.SetMetaConc
