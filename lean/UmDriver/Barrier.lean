-- driver: barrier Um.Drv.Barrier
import UmModel.Barrier
import UmDriver.Common
/-!
Replays a schedule of the C11 harness on the model.
* `init <senders> <ctrls>`: senders = `-` or comma-separated `<hint>:<innerOk>` with hint
  `N` | `B` | `M<term>`; ctrls = `-` or comma-separated programs over `S P D R` (`_` = empty).
  Output: `ok at=<thread>@<point>,… done=<d> blk=<b> term=<t>`.
* `s <i>` / `c <j>`: thread takes one step.  Output: `<obs> @<next point> done=… blk=… term=…`,
  or `stuck` when the thread does not exist / has finished.
-/
namespace Um.Drv.Barrier
open Um.Barrier

def parseHint (s : String) : Option Hint :=
  match s.toList with
  | ['N'] => some .notBlocking
  | ['B'] => some .blocking
  | 'M' :: ds => (String.ofList ds).toNat?.map .notBlockingInMigration
  | _ => none

def parseSender (s : String) : Option (Hint × Bool) :=
  match s.splitOn ":" with
  | [h, "1"] => (parseHint h).map (·, true)
  | [h, "0"] => (parseHint h).map (·, false)
  | _ => none

def parseCmd : Char → Option Cmd
  | 'S' => some .start
  | 'P' => some .poll
  | 'D' => some .drop
  | 'R' => some .stop
  | _ => none

def parseProg (s : String) : Option (List Cmd) :=
  if s = "_" then some [] else s.toList.mapM parseCmd

def parseList {α} (f : String → Option α) (s : String) : Option (List α) :=
  if s = "-" then some [] else (s.splitOn ",").mapM f

def globals (st : State) : String :=
  s!"done={if st.sh.running == 0 then 1 else 0} blk={if st.sh.count > 0 then 1 else 0} term={st.sh.term}"

def positions (st : State) : String :=
  let ss := st.senders.zipIdx.map (fun (s, i) => s!"s{i}@{s.pc.point}")
  let cs := st.ctrls.zipIdx.map (fun (c, j) => s!"c{j}@{c.pc.point}")
  ",".intercalate (ss ++ cs)

def pointOf (st : State) : Tid → String
  | .s i => match st.senders[i]? with | some s => s.pc.point | none => "?"
  | .c j => match st.ctrls[j]? with | some c => c.pc.point | none => "?"

def doStep (st : Option State) (t : Tid) : Option State × String :=
  match st with
  | none => (none, "stuck")
  | some s =>
    match step? s t with
    | none => (some s, "stuck")
    | some (s', o) => (some s', s!"{o.render} @{pointOf s' t} {globals s'}")

def step (st : Option State) (toks : List String) : Option State × String :=
  match toks with
  | ["init", ss, cs] =>
    match parseList parseSender ss, parseList parseProg cs with
    | some ss, some cs =>
      let s := init ss cs
      (some s, s!"ok at={positions s} {globals s}")
    | _, _ => (st, "bad-op")
  | ["s", i] =>
    match i.toNat? with
    | some i => doStep st (.s i)
    | none => (st, "bad-op")
  | ["c", j] =>
    match j.toNat? with
    | some j => doStep st (.c j)
    | none => (st, "bad-op")
  | _ => (st, "bad-op")

def run : IO Unit := Um.Drv.loop (none : Option State) step
end Um.Drv.Barrier
