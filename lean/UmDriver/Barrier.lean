-- driver: barrier Um.Drv.Barrier
import UmModel.Barrier
import UmModel.BarrierMap
import UmDriver.Common
/-!
Replays a schedule of the C11 harness on the model.
* `init <senders> <ctrls>`: senders = `-` or comma-separated `<hint>:<innerOk>` with hint
  `N` | `B` | `M<term>`; ctrls = `-` or comma-separated programs over `S P D R W B` (`_` = empty;
  `W` = poll until done, `B` = the real `pre_block` … `stop()` = `S W D`).
  Output: `ok at=<thread>@<point>,… done=<d> blk=<b> term=<t>`.
* `s <i>` / `c <j>`: thread takes one step.  Output: `<obs> @<next point> done=… blk=… term=…`,
  or `stuck` when the thread does not exist / has finished.
  `init <senders> <ctrls> r`: same model state; the harness obtains sender and queue for an address
  that was used and completely released before (`BlockingMap` re-creation path).
* map family (`UmModel/BarrierMap.lean`), one `BlockingMap`, addresses and holders are numbers:
  `minit` → `ok`; `msender <a>` | `mctrl <a>` | `mgetq <a>` → `h<id> q<queue> new=<0|1>`;
  `mdrop <h>` → `dropped` | `noop`; `mdropall <a>` → `dropped <n>`;
  `mprobe <a>` → `probe none` | `probe ctrl=h<c> h<s>:queued|handed,…` (`-` = no live sender).
-/
namespace Um.Drv.Barrier
open Um.Barrier

def parseHint (s : String) : Option Hint :=
  match s.toList with
  | ['N'] => some .notBlocking
  | ['B'] => some .blocking
  | 'M' :: ds => (String.ofList ds).toNat?.map .notBlockingInMigration
  | _ => none

def parseSender (s : String) : Option (Hint × Bool) :=
  match s.splitOn ":" with
  | [h, "1"] => (parseHint h).map (·, true)
  | [h, "0"] => (parseHint h).map (·, false)
  | _ => none

/-- `W` = `while !blocking_done() {}`; `B` = the migrating task's blocking phase
(`pre_block` = `start_blocking(); while !blocking_done() {…}`, then `pre_switch`, then
`blocking_handle.stop()`), i.e. `start; await; drop` -/
def parseCmd : Char → Option (List Cmd)
  | 'S' => some [.start]
  | 'P' => some [.poll]
  | 'D' => some [.drop]
  | 'R' => some [.stop]
  | 'W' => some [.await]
  | 'B' => some [.start, .await, .drop]
  | _ => none

def parseProg (s : String) : Option (List Cmd) :=
  if s = "_" then some [] else (s.toList.mapM parseCmd).map List.flatten

def parseList {α} (f : String → Option α) (s : String) : Option (List α) :=
  if s = "-" then some [] else (s.splitOn ",").mapM f

def globals (st : State) : String :=
  s!"done={if st.sh.running == 0 then 1 else 0} blk={if st.sh.count > 0 then 1 else 0} term={st.sh.term}"

def positions (st : State) : String :=
  let ss := st.senders.zipIdx.map (fun (s, i) => s!"s{i}@{s.pc.point}")
  let cs := st.ctrls.zipIdx.map (fun (c, j) => s!"c{j}@{c.pc.point}")
  ",".intercalate (ss ++ cs)

def pointOf (st : State) : Tid → String
  | .s i => match st.senders[i]? with | some s => s.pc.point | none => "?"
  | .c j => match st.ctrls[j]? with | some c => c.pc.point | none => "?"

def doStep (st : Option State) (t : Tid) : Option State × String :=
  match st with
  | none => (none, "stuck")
  | some s =>
    match step? s t with
    | none => (some s, "stuck")
    | some (s', o) => (some s', s!"{o.render} @{pointOf s' t} {globals s'}")

structure DS where
  sched : Option State := none
  map : Option Map.MState := none

def acquire (ds : DS) (k : Map.Kind) (a : Nat) : DS × String :=
  match ds.map with
  | none => (ds, "stuck")
  | some m =>
    let r := Map.getOrCreate m a
    let m' := Map.step m (.acquire k a)
    ({ ds with map := some m' }, s!"h{m.holders.length} q{r.2.1} new={if r.2.2 then 1 else 0}")

def step (ds : DS) (toks : List String) : DS × String :=
  match toks with
  | "init" :: ss :: cs :: rest =>
    if rest = [] ∨ rest = ["r"] then
      match parseList parseSender ss, parseList parseProg cs with
      | some ss, some cs =>
        let s := init ss cs
        ({ ds with sched := some s }, s!"ok at={positions s} {globals s}")
      | _, _ => (ds, "bad-op")
    else (ds, "bad-op")
  | ["s", i] =>
    match i.toNat? with
    | some i => let r := doStep ds.sched (.s i); ({ ds with sched := r.1 }, r.2)
    | none => (ds, "bad-op")
  | ["c", j] =>
    match j.toNat? with
    | some j => let r := doStep ds.sched (.c j); ({ ds with sched := r.1 }, r.2)
    | none => (ds, "bad-op")
  | ["minit"] => ({ ds with map := some Map.init }, "ok")
  | ["msender", a] => match a.toNat? with | some a => acquire ds .sender a | none => (ds, "bad-op")
  | ["mctrl", a] => match a.toNat? with | some a => acquire ds .ctrl a | none => (ds, "bad-op")
  | ["mgetq", a] => match a.toNat? with | some a => acquire ds .ctrl a | none => (ds, "bad-op")
  | ["mdrop", h] =>
    match h.toNat?, ds.map with
    | some h, some m =>
      match m.holders[h]? with
      | some x =>
        if x.live then ({ ds with map := some (Map.step m (.drop h)) }, "dropped") else (ds, "noop")
      | none => (ds, "noop")
    | _, _ => (ds, "bad-op")
  | ["mdropall", a] =>
    match a.toNat?, ds.map with
    | some a, some m =>
      let n := m.holders.countP (fun x => x.live && x.addr == a)
      ({ ds with map := some (Map.step m (.dropAll a)) }, s!"dropped {n}")
    | _, _ => (ds, "bad-op")
  | ["mprobe", a] =>
    match a.toNat?, ds.map with
    | some a, some m =>
      match Map.probe m a with
      | none => (ds, "probe none")
      | some (ci, l) =>
        let items := l.map (fun p => s!"h{p.1}:{if p.2 then "queued" else "handed"}")
        (ds, s!"probe ctrl=h{ci} {if items.isEmpty then "-" else ",".intercalate items}")
    | _, _ => (ds, "bad-op")
  | _ => (ds, "bad-op")

def run : IO Unit := Um.Drv.loop ({} : DS) step
end Um.Drv.Barrier
