-- driver: hostile Um.Drv.Hostile
import UmModel.ParserCost
import UmDriver.Common
/-!
Driver of the C16 streams (`umh_hostile --mode inproc|child`).

op lines
  cfg es=<n> ar=<0|1> rlimit=<bytes> spin=<iterations> stack=<levels>   → ok
  phase <pre|post|slow>                                                  → ok
  parse <hex>     `parse_resp`          → ok <consumed> alloc=<bytes> nodes=<n> h=<fnv64> | incomplete alloc=<bytes> | invalid alloc=<bytes> | PANIC
  decode <hex>    `RespCodec::decode` until it stops → items=<k> end=<drained|pending|closed|PANIC> rest=<bytes left>
  conn <hex>      one client connection of the real `server_proxy` → alive <k> | pending <k> | closed | aborted | stalled
  slowlog <arg>…  `SlowRequestLogger::add` (arg = hex, `~` = not a bulk string) → ok | PANIC
  name <hex>      `CmdType` / `DataCmdType` of a command with this name → <CmdType> <DataCmdType>
  clustername <hex> / usize <hex> / atoi <hex> / utf8 <hex>
  setrepl <arg>… / setmeta <arg>…   `ReplicatorMeta::from_resp` / `ProxyClusterMeta::from_resp` on `UMCTL SETREPL|SETCLUSTER <args>`
                             (arg = hex, `~` = nil bulk) → done big=<0|1> | PANIC   (big: more than 64·bytes + 4096 requested)
  command <hex>              first packet through `RespCodec::decode` + `Command::new` → <CmdType> <DataCmdType> slot=<n|-> | none | PANIC
  hashtag <hex>              `get_hash_tag` / `generate_slot` / `generate_lock_slot` → tag=<hex> slot=<n> lock=<n> | PANIC
  cfgset <field> <value>     `ServerProxyConfig::set_value` then three `SlowRequestLogger::limit_rate` calls → set=<ok|err|nonutf8> limiter=<ok|PANIC>
  cfgconn <field> <value>    `CONFIG SET` on a fresh `server_proxy`, then ordinary commands on the same, on an established and on a
                             fresh connection → set=<ok|err> same=<alive 3|closed|…> est=<…> fresh=<…>
  rangemap <s-e>…            `RangeMap::from` on the list as given → ok contains=<n> | PANIC
  setcluster t|z <s-e>…      `UMCTL SETCLUSTER` (textual | compressed) with one MIGRATING range list of a local
                             node, through the real `server_proxy` → ok | closed | stalled
-/
namespace Um.Drv.Hostile
open Um Um.PC

structure St where
  es : Nat := 32
  ar : Bool := false
  rlimit : Nat := 2147483648
  spin : Nat := 100000000000
  stack : Nat := 20000
  phase : String := "pre"

def fnvStep (h : UInt64) (b : UInt8) : UInt64 := (h ^^^ b.toUInt64) * 0x100000001b3

def fnvStr (h : UInt64) (s : String) : UInt64 := s.toUTF8.foldl fnvStep h

mutual
/-- pre-order token hash of the index tree (same tokens as `umh_hostile::shape_hash`) -/
def hashIdx (h : UInt64) : Idx → UInt64
  | .error s e => fnvStr h s!"E{s},{e};"
  | .simple s e => fnvStr h s!"S{s},{e};"
  | .bulk s e => fnvStr h s!"B{s},{e};"
  | .bulkNil => fnvStr h "N;"
  | .integer s e => fnvStr h s!"I{s},{e};"
  | .arr l => hashList (fnvStr h s!"A{l.length};") l
  | .arrNil => fnvStr h "Z;"
def hashList (h : UInt64) : List Idx → UInt64
  | [] => h
  | x :: xs => hashList (hashIdx h x) xs
end

def hex64 (h : UInt64) : String :=
  String.ofList ((List.range 16).reverse.map fun i => hexDigit ((h.toNat >>> (4 * i)) % 16))

def kvNat (toks : List String) (key : String) (dflt : Nat) : Nat :=
  match toks.find? (fun t => t.startsWith (key ++ "=")) with
  | some t => ((t.drop (key.length + 1)).toString.toNat?).getD dflt
  | none => dflt

def parseOp (st : St) (b : Bytes) : String :=
  let c := Cfg.cur st.es
  let (r, k) := parseC c b
  let a := k.allocBytes c
  match r with
  | .ok (v, n) => s!"ok {n} alloc={a} nodes={v.size} h={hex64 (hashIdx 0xcbf29ce484222325 v)}"
  | .error .notEnough => s!"incomplete alloc={a}"
  | .error .invalid => s!"invalid alloc={a}"
  | .error .unexpected => s!"invalid alloc={a}"
  | .error .capacity => "PANIC"
  | .error .fuel => "FUEL"

def endStr : StreamEnd → String
  | .drained => "drained"
  | .pending => "pending"
  | .closed => "closed"
  | .panicked => "PANIC"

/-- bytes left in the buffer when the decoder stops -/
def restLen (b : Bytes) (r : StreamRes) : Nat :=
  b.length - (r.packets.map fun p => p.2.length).sum

def decodeOp (st : St) (b : Bytes) : String :=
  let r := stream (Cfg.cur st.es) b
  s!"items={r.packets.length} end={endStr r.end} rest={restLen b r}"

/-- the data command a request finally runs (the forwarded one for `UMFORWARD n …`) -/
def effectiveDataType (cmd : Option Cmd) : String :=
  match cmd with
  | some c =>
    if cmdTypeOf cmd = "UmForward" then
      match handleUmforward c with
      | .inr (_, inner) => dataCmdTypeOf (some inner)
      | .inl _ => dataCmdTypeOf cmd
    else dataCmdTypeOf cmd
  | none => dataCmdTypeOf cmd

/-- does this request stall its connection for more than the harness' 5 s? -/
def stalls (st : St) (h : HCfg) (pkt : Idx × Bytes) : Bool :=
  let cmd := cmdOf pkt.2 pkt.1
  match handleCmd h cmd with
  | none => false
  | some r =>
    match r.out with
    | .wedge => true
    | .poll _ t =>
      -- the fake backend answers a nil bulk string to everything: `is_empty_resp` takes that as "no element yet"
      -- for the list pops only (the sorted-set pops wait for an empty array), so those are polled until the timeout
      st.phase != "pre" && (t == 0 || t > 3) && effectiveDataType cmd ∈ ["Blpop", "Brpop", "Brpoplpush"]
    | _ => decide (r.steps > st.spin)

def slowPanics (h : HCfg) (pkt : Idx × Bytes) : Bool :=
  match cmdOf pkt.2 pkt.1 with
  | none => false
  | some c =>
    match (handleSlowlogAdd h c).out with
    | .panic _ => true
    | _ => false

def connOp (st : St) (b : Bytes) : String :=
  let c := Cfg.cur st.es
  let h := HCfg.cur st.ar
  let r := stream c b
  if r.maxAlloc * st.es ≥ st.rlimit || r.height > st.stack then "aborted"
  else if r.end == .closed || r.end == .panicked then "closed"
  else if r.packets.any (fun pkt => commandNewPanics Um.Gen.Hostile.hashTagEndAfterBegin (cmdOf pkt.2 pkt.1)) then "closed"
  else if st.phase == "slow" && r.packets.any (slowPanics h) then "closed"
  else if r.packets.any (stalls st h) then "stalled"
  else if r.end == .pending then s!"pending {r.packets.length}"
  else s!"alive {r.packets.length}"

def rangeOf (t : String) : Option Um.Proto.Range :=
  match t.splitOn "-" with
  | [a, b] =>
    match a.toNat?, b.toNat? with
    | some x, some y => some ⟨x, y⟩
    | _, _ => none
  | _ => none

def rangeMapCur (rs : List Um.Proto.Range) : RangeMapRes :=
  rangeMapFrom Um.Gen.Hostile.rangeMapBounded Um.Gen.Hostile.overflowChecks rs

def argOf (t : String) : Option (Option Bytes) :=
  if t == "~" then some none else (bytesOfHex t).map some

def step (st : St) (toks : List String) : St × String :=
  match toks with
  | "cfg" :: rest =>
    ({ st with es := kvNat rest "es" st.es, ar := kvNat rest "ar" 0 == 1, rlimit := kvNat rest "rlimit" st.rlimit,
               spin := kvNat rest "spin" st.spin, stack := kvNat rest "stack" st.stack }, "ok")
  | ["phase", p] => ({ st with phase := p }, "ok")
  | ["parse", h] =>
    match bytesOfHex h with
    | some b => (st, parseOp st b)
    | none => (st, "bad-op")
  | ["decode", h] =>
    match bytesOfHex h with
    | some b => (st, decodeOp st b)
    | none => (st, "bad-op")
  | ["conn", h] | ["conn", h, _] =>
    match bytesOfHex h with
    | some b => (st, connOp st b)
    | none => (st, "bad-op")
  | "slowlog" :: args =>
    match args.mapM argOf with
    | some cmd =>
      match (handleSlowlogAdd (HCfg.cur st.ar) cmd).out with
      | .panic _ => (st, "PANIC")
      | _ => (st, "ok")
    | none => (st, "bad-op")
  | ["name", h] =>
    match bytesOfHex h with
    | some b => (st, s!"{cmdTypeOf (some [some b])} {dataCmdTypeOf (some [some b])}")
    | none => (st, "bad-op")
  | ["clustername", h] =>
    match bytesOfHex h with
    | some b => (st, if !utf8Valid b then "nonutf8" else if clusterNameOkV Um.Gen.Hostile.clusterNameAscii b then "ok" else "err")
    | none => (st, "bad-op")
  | ["usize", h] =>
    match bytesOfHex h with
    | some b =>
      (st, if !utf8Valid b then "nonutf8" else match parseUsizeStd b with
        | some n => s!"some {n}"
        | none => "none")
    | none => (st, "bad-op")
  | ["atoi", h] =>
    match bytesOfHex h with
    | some b => (st, match atoiUsize b with
        | some n => s!"some {n}"
        | none => "none")
    | none => (st, "bad-op")
  | ["utf8", h] =>
    match bytesOfHex h with
    | some b => (st, if utf8Valid b then "valid" else "invalid")
    | none => (st, "bad-op")
  | "setrepl" :: _ | "setmeta" :: _ =>
    -- `ReplicatorMeta::from_resp` / `ProxyClusterMeta::from_resp` on hostile arguments: they return (Ok or Err)
    -- without panicking and without requesting memory beyond a constant multiple of the arguments
    -- (`umctlCountPrealloc = false`, theorem `C16_umctl_counts`)
    (st, if Um.Gen.Hostile.umctlCountPrealloc then "done big=?" else "done big=0")
  | ["command", h] =>
    match bytesOfHex h with
    | some b =>
      match (decodeC (Cfg.cur st.es) b).1 with
      | .item v n =>
        let cmd := cmdOf (b.take n) v
        if commandNewPanics Um.Gen.Hostile.hashTagEndAfterBegin cmd then (st, "PANIC")
        else
          let slot := match cmd.bind routingKey with
            | some k => toString (Um.Crc16.slotOf k)
            | none => "-"
          (st, s!"{cmdTypeOf cmd} {dataCmdTypeOf cmd} slot={slot}")
      | .panic => (st, "PANIC")
      | _ => (st, "none")
    | none => (st, "bad-op")
  | ["hashtag", h] =>
    match bytesOfHex h with
    | some k =>
      match hashTagChecked Um.Gen.Hostile.hashTagEndAfterBegin k with
      | some t => (st, s!"tag={hexOfBytes t} slot={(Um.Crc16.crc16Xmodem t).toNat % Um.Crc16.SLOT_NUM} lock={Um.Crc16.lockSlotOf k}")
      | none => (st, "PANIC")
    | none => (st, "bad-op")
  | ["cfgset", f, v] | ["cfgconn", f, v] =>
    match bytesOfHex f, bytesOfHex v with
    | some fb, some vb =>
      let inproc := toks.head? == some "cfgset"
      if !utf8Valid fb || !utf8Valid vb then (st, if inproc then "nonutf8" else "set=err same=alive 3 est=alive 1 fresh=alive 2")
      else
        let (store, ok) := configSet {} fb vb
        let dead := (limiterDecision Um.Gen.Hostile.rateLimiterClamped store.sampleRate 1).isNone
        let setS := if ok then "ok" else "err"
        if inproc then (st, s!"set={setS} limiter={if dead then "PANIC" else "ok"}")
        else if dead then (st, s!"set={setS} same=closed est=closed fresh=closed")
        else (st, s!"set={setS} same=alive 3 est=alive 1 fresh=alive 2")
    | _, _ => (st, "bad-op")
  | "rangemap" :: rest =>
    match rest.mapM rangeOf with
    | some rs =>
      let r := rangeMapCur rs
      match r.out with
      | .panic _ => (st, "PANIC")
      | _ => (st, s!"ok contains={r.contains}")
    | none => (st, "bad-op")
  | "setcluster" :: form :: rest =>
    -- optional third token: where the range list goes (`tag` = a MIGRATING range of a local node, the default;
    -- `local` = untagged ranges of a local node; `peer` = ranges of a peer)
    let (place, toksR) := match rest with
      | "tag" :: r => ("tag", r)
      | "local" :: r => ("local", r)
      | "peer" :: r => ("peer", r)
      | r => ("tag", r)
    match toksR.mapM rangeOf with
    | some rs =>
      let seen := rangesSeen Um.Gen.Hostile.compressedCompact (form == "t") rs
      let legacy := rest.head? != some place
      let fin (x : String) := if legacy then x else x ++ " second=ok"
      if place == "tag" then
        let r := rangeMapCur seen
        match r.out with
        | .panic _ => (st, fin "closed")
        | _ => (st, if r.steps > st.spin then "stalled" else fin "ok")
      else
        (st, if slotMapSteps Um.Gen.Hostile.slotMapBounded seen > st.spin then "stalled" else fin "ok")
    | none => (st, "bad-op")
  | _ => (st, "bad-op")

def run : IO Unit := Um.Drv.loop ({} : St) step
end Um.Drv.Hostile
