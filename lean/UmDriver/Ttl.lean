-- driver: ttl Um.Drv.Ttl
import UmModel.Ttl
import UmDriver.Common
namespace Um.Drv.Ttl
open Um Um.Ttl

def replyOf (t : String) : Option Reply :=
  match t.splitOn ":" with
  | ["i", h] => (bytesOfHex h).map Reply.integer
  | ["b", h] => (bytesOfHex h).map Reply.bulk
  | ["n"] => some .nil
  | ["e"] => some .other
  | ["s"] => some .other
  | ["a"] => some .other
  | _ => none

def step (_ : Unit) (toks : List String) : Unit × String :=
  match toks with
  | ["ttl", h] =>
    match bytesOfHex h with
    | some b => ((), hexOfBytes (pttlToRestore b))
    | none => ((), "bad-op")
  | ["sync", p, d] =>
    -- the real UMSYNC push path: PTTL reply, DUMP reply → what reaches the destination
    match replyOf p, replyOf d with
    | some pr, some dr =>
      ((), match scanTransfer pr dr with
        | .skip => "skip"
        | .restore ttl data => s!"restore {hexOfBytes ttl} {hexOfBytes data}"
        | .error => "error")
    | _, _ => ((), "bad-op")
  | ["pull", d, p] =>
    -- the real pull path: DUMP reply, PTTL reply → the RESTORE sent to the destination
    match replyOf d, replyOf p with
    | some dr, some pr =>
      ((), match pullTransfer dr pr with
        | .skip => "skip"
        | .restore ttl data => s!"restore {hexOfBytes ttl} {hexOfBytes data}"
        | .error => "error")
    | _, _ => ((), "bad-op")
  | _ => ((), "bad-op")

def run : IO Unit := Um.Drv.loop () step
end Um.Drv.Ttl
