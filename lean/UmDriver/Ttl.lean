-- driver: ttl Um.Drv.Ttl
import UmModel.Ttl
import UmDriver.Common
namespace Um.Drv.Ttl
open Um Um.Ttl

def step (_ : Unit) (toks : List String) : Unit × String :=
  match toks with
  | ["ttl", h] =>
    match bytesOfHex h with
    | some b => ((), hexOfBytes (pttlToRestore b))
    | none => ((), "bad-op")
  | _ => ((), "bad-op")

def run : IO Unit := Um.Drv.loop () step
end Um.Drv.Ttl
