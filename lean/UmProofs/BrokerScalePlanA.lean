import UmProofs.BrokerScaleArith
/-!
# C10 — the greedy two-pointer plan of `remove_slots_from_src` (part A: one cut)

Definitions shared by the scale-out and the scale-down plan proofs and the specification of one
cut from the *end* of a source range list.
-/
namespace Um.Broker.Scale
open Um Um.Slots Um.Broker

/-- `Σ_{i<n} f i` -/
def sumTo (f : Nat → Nat) : Nat → Nat
  | 0 => 0
  | n + 1 => sumTo f n + f n

theorem sumTo_mono (f : Nat → Nat) {a b : Nat} (h : a ≤ b) : sumTo f a ≤ sumTo f b := by
  induction b with
  | zero => have : a = 0 := by omega
            subst this; exact Nat.le_refl _
  | succ b ih =>
    by_cases hab : a = b + 1
    · subst hab; exact Nat.le_refl _
    · have := ih (by omega)
      simp only [sumTo]; omega

theorem sumTo_congr {f g : Nat → Nat} {n : Nat} (h : ∀ i < n, f i = g i) : sumTo f n = sumTo g n := by
  induction n with
  | zero => rfl
  | succ n ih =>
    simp only [sumTo]
    rw [ih (fun i hi => h i (by omega)), h n (by omega)]

theorem sumTo_add (f : Nat → Nat) (a b : Nat) : sumTo f (a + b) = sumTo f a + sumTo (fun i => f (a + i)) b := by
  induction b with
  | zero => simp [sumTo]
  | succ b ih =>
    have : a + (b + 1) = (a + b) + 1 := by omega
    rw [this]; simp only [sumTo]; rw [ih]; omega

/-- slots planned for destination index `j` (`idx` maps a task to its destination index) -/
def recvBy (idx : MigMeta → Nat) (out : List MigSlots) (j : Nat) : Nat :=
  ((out.filter fun ms => idx ms.mm == j).map fun ms => slotsNum ms.ranges).sum

@[simp] theorem recvBy_nil (idx : MigMeta → Nat) (j : Nat) : recvBy idx [] j = 0 := rfl

theorem recvBy_append (idx : MigMeta → Nat) (a b : List MigSlots) (j : Nat) :
    recvBy idx (a ++ b) j = recvBy idx a j + recvBy idx b j := by
  simp [recvBy, List.filter_append]

theorem recvBy_single (idx : MigMeta → Nat) (ms : MigSlots) (j : Nat) :
    recvBy idx [ms] j = if idx ms.mm = j then slotsNum ms.ranges else 0 := by
  unfold recvBy
  by_cases h : idx ms.mm = j <;> simp [h]

theorem recvBy_snoc (idx : MigMeta → Nat) (out : List MigSlots) (ms : MigSlots) (j : Nat) :
    recvBy idx (out ++ [ms]) j = recvBy idx out j + (if idx ms.mm = j then slotsNum ms.ranges else 0) := by
  rw [recvBy_append, recvBy_single]

/-- geometry of the pieces cut from the end of `rl`: well-formed, each later piece lies below the
earlier ones, and what remains of `rl` lies below all of them -/
def PiecesBelow (rl cur : RangeList) : Prop :=
  (∀ b ∈ cur, b.1 ≤ b.2) ∧ cur.Pairwise (fun a b => b.2 < a.1) ∧ ∀ a ∈ rl, ∀ b ∈ cur, a.2 < b.1

theorem piecesBelow_nil (rl : RangeList) : PiecesBelow rl [] :=
  ⟨by simp, List.Pairwise.nil, by simp⟩

theorem PiecesBelow.disjList {rl cur : RangeList} (h : PiecesBelow rl cur) : DisjList cur :=
  ⟨h.1, h.2.1.imp fun hab => Or.inr hab⟩

theorem asc_append_single {ys : RangeList} {last : Range} (h : Asc (ys ++ [last])) :
    Asc ys ∧ last.1 ≤ last.2 ∧ ∀ a ∈ ys, a.2 < last.1 := by
  obtain ⟨hw, hp⟩ := h
  rw [List.pairwise_append] at hp
  refine ⟨⟨fun r hr => hw r (by simp [hr]), hp.1⟩, hw last (by simp), ?_⟩
  intro a ha
  exact hp.2.2 a ha last (by simp)

theorem asc_snoc {ys : RangeList} {x : Range} (h : Asc ys) (hx : x.1 ≤ x.2) (hb : ∀ a ∈ ys, a.2 < x.1) :
    Asc (ys ++ [x]) := by
  refine ⟨?_, ?_⟩
  · intro r hr
    rcases List.mem_append.mp hr with hr | hr
    · exact h.1 r hr
    · simp only [List.mem_singleton] at hr; subst hr; exact hx
  · rw [List.pairwise_append]
    refine ⟨h.2, by simp, ?_⟩
    intro a ha b hb'
    simp only [List.mem_singleton] at hb'; subst hb'
    exact hb a ha

/-- one cut of `remove_slots_from_src`: the model's triple `(rl', cur', curNum')` -/
theorem cutLast_spec {rl : RangeList} {last : Range} (cur : RangeList) (curNum removeNum : Nat)
    (hlast : rl.getLast? = some last) (hasc : Asc rl) (hrem : 1 ≤ removeNum)
    (hp : PiecesBelow rl cur) :
    ∀ t, t = (if removeNum ≥ rangeNum last then (rl.dropLast, cur ++ [last], curNum + rangeNum last)
              else (rl.dropLast ++ [(last.1, last.2 - removeNum)],
                    cur ++ [(last.2 - removeNum + 1, last.2)], curNum + removeNum)) →
    ∃ moved, 1 ≤ moved ∧ moved ≤ removeNum ∧ t.2.2 = curNum + moved ∧
      slotsNum t.1 + moved = slotsNum rl ∧ slotsNum t.2.1 = slotsNum cur + moved ∧
      Asc t.1 ∧ PiecesBelow t.1 t.2.1 := by
  intro t ht
  obtain ⟨ys, rfl⟩ := List.getLast?_eq_some_iff.mp hlast
  obtain ⟨hys, hlw, hbelow⟩ := asc_append_single hasc
  have hdl : (ys ++ [last]).dropLast = ys := by simp
  rw [hdl] at ht
  obtain ⟨hpw, hpp, hpb⟩ := hp
  have hlb : ∀ b ∈ cur, last.2 < b.1 := fun b hb => hpb last (by simp) b hb
  by_cases hge : removeNum ≥ rangeNum last
  · rw [if_pos hge] at ht
    subst ht
    refine ⟨rangeNum last, rangeNum_pos last, hge, rfl, ?_, ?_, hys, ?_⟩
    · simp [slotsNum_append]
    · simp [slotsNum_append]
    · refine ⟨?_, ?_, ?_⟩
      · intro b hb
        rcases List.mem_append.mp hb with hb | hb
        · exact hpw b hb
        · simp only [List.mem_singleton] at hb; subst hb; exact hlw
      · show (cur ++ [last]).Pairwise _
        rw [List.pairwise_append]
        refine ⟨hpp, by simp, ?_⟩
        intro a ha b hb
        simp only [List.mem_singleton] at hb; subst hb
        exact hlb a ha
      · intro a ha b hb
        rcases List.mem_append.mp hb with hb | hb
        · exact hpb a (by simp [ha]) b hb
        · simp only [List.mem_singleton] at hb; subst hb
          exact hbelow a ha
  · rw [if_neg hge] at ht
    subst ht
    have hlt : removeNum < rangeNum last := by omega
    unfold rangeNum at hlt
    refine ⟨removeNum, hrem, Nat.le_refl _, rfl, ?_, ?_, ?_, ?_⟩
    · simp only [slotsNum_append, slotsNum_cons, slotsNum_nil, rangeNum]
      omega
    · simp only [slotsNum_append, slotsNum_cons, slotsNum_nil, rangeNum]
      omega
    · apply asc_snoc hys
      · show last.1 ≤ last.2 - removeNum; omega
      · intro a ha; exact hbelow a ha
    · refine ⟨?_, ?_, ?_⟩
      · intro b hb
        rcases List.mem_append.mp hb with hb | hb
        · exact hpw b hb
        · simp only [List.mem_singleton] at hb; subst hb
          show last.2 - removeNum + 1 ≤ last.2; omega
      · show (cur ++ [(last.2 - removeNum + 1, last.2)]).Pairwise _
        rw [List.pairwise_append]
        refine ⟨hpp, by simp, ?_⟩
        intro a ha b hb
        simp only [List.mem_singleton] at hb; subst hb
        exact hlb a ha
      · intro a ha b hb
        have ha2 : a.2 ≤ last.2 - removeNum := by
          rcases List.mem_append.mp ha with ha | ha
          · have := hbelow a ha; omega
          · simp only [List.mem_singleton] at ha; subst ha; exact Nat.le_refl _
        rcases List.mem_append.mp hb with hb | hb
        · have := hlb b hb; omega
        · simp only [List.mem_singleton] at hb; subst hb
          show a.2 < last.2 - removeNum + 1; omega

end Um.Broker.Scale
