import UmProofs.MigrationBasic
/-! C03: op identifiers are touched only by `inv` (append) and `ret` (remove). -/
namespace Um.Mig

@[simp] theorem ids_restoreAt (s : Sys) (v : Val) : ids (restoreAt s v).1 = ids s := by
  unfold restoreAt; split <;> rfl

theorem ids_guard {b : Bool} {s0 s s' : Sys} (h : guard b s = some s') (hi : ids s = ids s0) : ids s' = ids s0 := by
  obtain ⟨_, rfl⟩ := guard_some h; exact hi

theorem ids_exeOp {s s' : Sys} {o : Op} {n : Node} {c : BCmd} {r : Rep} (hs : exeOp s o n c r = some s') :
    ids s' = ids s := by
  unfold exeOp at hs
  split at hs
  · split at hs
    · simp only at hs
      refine ids_guard hs ?_
      rw [ids_setPc]
      rename_i n0 _ _ _ _ _ _ _
      cases n0 <;> rfl
    · simp at hs
  · split at hs
    · simp only at hs
      exact ids_guard hs (by rw [ids_setPc]; rfl)
    · simp at hs
  · exact ids_guard hs (by rw [ids_setPc])
  · simp at hs

theorem ids_exeCrit {s s' : Sys} {k : Crit} {n : Node} {c : BCmd} {r : Rep} (hs : exeCrit s k n c r = some s') :
    ids s' = ids s := by
  unfold exeCrit at hs
  split at hs
  · exact ids_guard hs rfl
  · exact ids_guard hs rfl
  · split at hs
    · rename_i v v' _ _
      have h : ids (restoreAt s v).1 = ids s := ids_restoreAt s v
      cases hre : restoreAt s v with
      | mk q1 q2 =>
        rw [hre] at hs h
        simp only at hs h
        exact ids_guard hs (by rw [ids_setPc]; exact h)
    · simp at hs
  · exact ids_guard hs rfl
  · exact ids_guard hs rfl
  · split at hs
    · rename_i v v' _ _
      have h : ids (restoreAt s v).1 = ids s := ids_restoreAt s v
      cases hre : restoreAt s v with
      | mk q1 q2 =>
        rw [hre] at hs h
        simp only at hs h
        exact ids_guard hs h
    · simp at hs
  · exact ids_guard hs rfl
  · simp at hs

theorem ids_exeScan {s s' : Sys} {n : Node} {c : BCmd} {r : Rep} (hs : exeScan s n c r = some s') :
    ids s' = ids s := by
  unfold exeScan at hs
  split at hs
  · exact ids_guard hs rfl
  · exact ids_guard hs rfl
  · split at hs
    · rename_i v v' _ _
      have h : ids (restoreAt s v).1 = ids s := ids_restoreAt s v
      cases hre : restoreAt s v with
      | mk q1 q2 =>
        rw [hre] at hs h
        simp only at hs h
        exact ids_guard hs h
    · simp at hs
  · exact ids_guard hs rfl
  · simp at hs

theorem ids_stepTau {s s' : Sys} {t : Tau} (hs : stepTau s t = some s') : ids s' = ids s := by
  cases t <;> simp only [stepTau, bind, Option.bind] at hs
  case existsKeyThere id => split at hs; · simp at hs
                            exact ids_guard hs (ids_setPc _ _ _)
  case existsLock id => split at hs; · simp at hs
                        exact ids_guard hs (ids_setPc _ _ _)
  case existsRetry id => split at hs; · simp at hs
                         exact ids_guard hs (ids_setPc _ _ _)
  case entryNone => split at hs
                    · cases hs; exact ids_setPc _ _ _
                    · simp at hs
  case restoreDone => split at hs
                      · cases hs; rfl
                      · simp at hs
  case pendingLock id => split at hs; · simp at hs
                         exact ids_guard hs (ids_setPc _ _ _)
  case pendingTimeout id => split at hs; · simp at hs
                            exact ids_guard hs (ids_setPc _ _ _)
  case syncDone => split at hs
                   · cases hs; exact ids_setPc _ _ _
                   · cases hs; exact ids_setPc _ _ _
                   · simp at hs
  case redispatch id => split at hs; · simp at hs
                        simp only at hs
                        split at hs
                        · cases hs; exact ids_route _ _ _ _
                        · simp at hs
  case scanLock => exact ids_guard hs rfl
  case scanSlow => split at hs
                   · exact ids_guard hs rfl
                   · simp at hs
  case scanEnd => split at hs
                  · cases hs; rfl
                  · split at hs
                    · split at hs <;> (cases hs; rfl)
                    · cases hs; rfl
                  · simp at hs
  case srcPreCheckOk => exact ids_guard hs rfl
  case startBlocking => exact ids_guard hs rfl
  case blockingDone => exact ids_guard hs rfl
  case srcPreSwitchOk => exact ids_guard hs rfl
  case stopBlocking => exact ids_guard hs rfl
  case scanFinish => refine ids_guard hs ?_
                     split
                     · split <;> rfl
                     · rfl
  case srcFinalSwitchOk => exact ids_guard hs rfl

end Um.Mig
