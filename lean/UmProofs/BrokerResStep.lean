import UmProofs.BrokerResFailover
/-!
# C12 — closed forms ("specs") of the allocating operations and `RX s → RX (op s).1` for every
mutator of the model, where `RX` = `RPt` (= `ResInv`) plus "all cluster names are valid".
-/
namespace Um.Broker
open Um Um.Slots

/-- cluster names are valid names (needed for the refusal theorem of `commit`) -/
def NamesValid (s : Store) : Prop := ∀ n ∈ s.clusters.map (·.name), validName n = true

/-- the invariant proved for every reachable state -/
def RX (s : Store) : Prop := RPt s ∧ NamesValid s

theorem SkelEq.namesValid {s' s : Store} (h : SkelEq s' s) (hv : NamesValid s) : NamesValid s' := by
  unfold NamesValid; rw [skel_names h.2]; exact hv

theorem SkelEq.rx {s' s : Store} (h : SkelEq s' s) (hx : RX s) : RX s' := ⟨h.rpt hx.1, h.namesValid hx.2⟩

theorem RX.nodupNames {s : Store} (h : RX s) : (s.clusters.map (·.name)).Nodup := h.1.2.1

/-! ## add_cluster -/

/-- the result of a successful `add_cluster` -/
def addClusterResult (s : Store) (name : String) (cfg : Config) (chunks : List Chunk) : Store :=
  { globalEpoch := s.globalEpoch + 1,
    clusters := s.clusters ++ [{ epoch := s.globalEpoch + 1, name := name, chunks := chunks, config := cfg }],
    proxies := tagAll s.proxies (chunkAddrs chunks) (some name), failed := s.failed, failures := s.failures,
    ordered := s.ordered }

theorem addCluster_spec (s : Store) (name : String) (k : Nat) (cfg : Config) (choice : List (String × String)) :
    ((addCluster s name k cfg choice).1 = s ∧ ∀ u, (addCluster s name k cfg choice).2 ≠ R.ok u) ∨
    (∃ chunks, validName name = true ∧ s.findCluster name = none ∧ NewChunks s chunks ∧
        chunks.length = (k / 2 + 1) / 2 ∧ k % 4 = 0 ∧ k / 2 ≠ 0 ∧
        addCluster s name k cfg choice = (addClusterResult s name cfg chunks, R.ok ())) := by
  unfold addCluster
  split
  · exact Or.inl ⟨rfl, by intro u h; cases h⟩
  split
  · exact Or.inl ⟨rfl, by intro u h; cases h⟩
  rename_i hv
  split
  · exact Or.inl ⟨rfl, by intro u h; cases h⟩
  rename_i hnone
  split
  · exact Or.inl ⟨rfl, by intro u h; cases h⟩
  rename_i hk4
  simp only
  split
  · exact Or.inl ⟨rfl, by intro u h; cases h⟩
  rename_i hk0
  split
  · rename_i s' h
    obtain ⟨arr, h1, h⟩ := R.bind_eq_ok.mp h
    obtain ⟨chunks, h2, h⟩ := R.bind_eq_ok.mp h
    obtain ⟨s2, h3, h⟩ := R.bind_eq_ok.mp h
    simp only [R.pure_eq, R.ok.injEq] at h
    obtain ⟨hnew, hlen⟩ := newChunks_of_alloc h1 h2
    have e := tagProxies_ok _ _ _ _ h3
    refine Or.inr ⟨chunks, by simpa using hv, ?_, hnew, hlen, by simpa using hk4, by simpa using hk0, ?_⟩
    · cases hf : s.findCluster name with
      | none => rfl
      | some c => simp [hf] at hnone
    · subst h; subst e; rfl
  all_goals exact Or.inl ⟨rfl, by intro u h; cases h⟩

theorem rx_addCluster {s : Store} (name : String) (k : Nat) (cfg : Config) (choice : List (String × String))
    (hx : RX s) : RX (addCluster s name k cfg choice).1 := by
  rcases addCluster_spec s name k cfg choice with ⟨h, _⟩ | ⟨chunks, hv, hnone, hnew, _, _, _, h⟩
  · rw [h]; exact hx
  · rw [h]
    refine ⟨rpt_addCluster (cl := { epoch := s.globalEpoch + 1, name := name, chunks := chunks, config := cfg })
      hx.1 hnone hnew rfl rfl, ?_⟩
    intro n hn
    simp only [addClusterResult, List.map_append, List.map_cons, List.map_nil, List.mem_append,
      List.mem_singleton] at hn
    rcases hn with hn | rfl
    · exact hx.2 n hn
    · exact hv

/-! ## auto_add_nodes / auto_scale_up_nodes -/

/-- the result of a successful `auto_add_nodes` -/
def addNodesResult (s : Store) (cl : Cluster) (new : List Chunk) : Store :=
  { globalEpoch := s.globalEpoch + 1,
    clusters := (s.setCluster { cl with chunks := cl.chunks ++ new, epoch := s.globalEpoch + 1 }).clusters,
    proxies := tagAll s.proxies (chunkAddrs (cl.chunks ++ new)) (some cl.name),
    failed := s.failed, failures := s.failures, ordered := s.ordered }

theorem autoAddNodes_spec (s : Store) (name : String) (k : Nat) (choice : List (String × String)) :
    ((autoAddNodes s name k choice).1 = s ∧ ∀ u, (autoAddNodes s name k choice).2 ≠ R.ok u) ∨
    (∃ cl new, s.findCluster name = some cl ∧ NewChunks s new ∧ new.length = (k / 2 + 1) / 2 ∧
        k % 4 = 0 ∧ k / 2 ≠ 0 ∧ cl.isMigrating = false ∧
        autoAddNodes s name k choice = (addNodesResult s cl new, R.ok ())) := by
  unfold autoAddNodes
  split
  · exact Or.inl ⟨rfl, by intro u h; cases h⟩
  split
  · exact Or.inl ⟨rfl, by intro u h; cases h⟩
  rename_i cl hf
  split
  · exact Or.inl ⟨rfl, by intro u h; cases h⟩
  rename_i hmig
  split
  · exact Or.inl ⟨rfl, by intro u h; cases h⟩
  rename_i hk4
  simp only
  split
  · exact Or.inl ⟨rfl, by intro u h; cases h⟩
  rename_i hk0
  split
  · rename_i s' h
    obtain ⟨arr, h1, h⟩ := R.bind_eq_ok.mp h
    obtain ⟨chunks, h2, h3⟩ := R.bind_eq_ok.mp h
    obtain ⟨hnew, hlen⟩ := newChunks_of_alloc h1 h2
    have e := tagProxies_ok _ _ _ _ h3
    have hcn : cl.name = name := (Store.findCluster_some hf).2
    refine Or.inr ⟨cl, chunks, hf, hnew, hlen, by simpa using hk4, by simpa using hk0, by simpa using hmig, ?_⟩
    subst e; subst hcn; rfl
  all_goals exact Or.inl ⟨rfl, by intro u h; cases h⟩

theorem rx_addNodesResult {s : Store} {cl : Cluster} {new : List Chunk} (hx : RX s)
    (hf : s.findCluster cl.name = some cl) (hnew : NewChunks s new) : RX (addNodesResult s cl new) := by
  refine ⟨rpt_addNodes (cl' := { cl with chunks := cl.chunks ++ new, epoch := s.globalEpoch + 1 })
    hx.1 hf hnew rfl rfl rfl rfl, ?_⟩
  unfold NamesValid
  show ∀ n ∈ (s.setCluster _).clusters.map (·.name), _
  rw [setCluster_names]; exact hx.2

theorem rx_autoAddNodes {s : Store} (name : String) (k : Nat) (choice : List (String × String))
    (hx : RX s) : RX (autoAddNodes s name k choice).1 := by
  rcases autoAddNodes_spec s name k choice with ⟨h, _⟩ | ⟨cl, new, hf, hnew, _, _, _, _, h⟩
  · rw [h]; exact hx
  · rw [h]
    have hcn : cl.name = name := (Store.findCluster_some hf).2
    exact rx_addNodesResult hx (hcn ▸ hf) hnew

theorem rx_autoScaleUpNodes {s : Store} (name : String) (k : Nat) (choice : List (String × String))
    (hx : RX s) : RX (autoScaleUpNodes s name k choice).1 := by
  unfold autoScaleUpNodes
  split
  · exact hx
  split
  · exact hx
  simp only
  split
  · exact hx
  · exact rx_autoAddNodes _ _ _ hx

/-! ## remove_cluster -/

theorem removeCluster_spec (s : Store) (name : String) :
    ((removeCluster s name).1 = s ∧ ∀ u, (removeCluster s name).2 ≠ R.ok u) ∨
    (∃ cl, s.findCluster name = some cl ∧
      removeCluster s name =
        ({ globalEpoch := s.globalEpoch + 1, clusters := s.clusters.filter (·.name != name),
           proxies := tagAll s.proxies cl.proxyAddrs none, failed := s.failed, failures := s.failures,
           ordered := s.ordered },
         R.ok ())) := by
  unfold removeCluster
  split
  · exact Or.inl ⟨rfl, by intro u h; cases h⟩
  split
  · exact Or.inl ⟨rfl, by intro u h; cases h⟩
  rename_i cl hf
  refine Or.inr ⟨cl, hf, ?_⟩
  simp only [foldl_setProxyCluster]
  rfl

theorem rx_removeCluster {s : Store} (name : String) (hx : RX s) : RX (removeCluster s name).1 := by
  rcases removeCluster_spec s name with ⟨h, _⟩ | ⟨cl, hf, h⟩
  · rw [h]; exact hx
  · rw [h]
    obtain ⟨hm, hn⟩ := Store.findCluster_some hf
    refine ⟨rpt_removeCluster hx.1 hm rfl (by rw [hn]), ?_⟩
    intro n hnm
    obtain ⟨c, hc, rfl⟩ := List.mem_map.mp hnm
    exact hx.2 _ (List.mem_map.mpr ⟨c, (List.mem_filter.mp hc).1, rfl⟩)

/-! ## auto_delete_free_nodes -/

/-- the result of a successful `auto_delete_free_nodes` -/
def delFreeResult (s : Store) (cl : Cluster) : Store :=
  { globalEpoch := s.globalEpoch + 1,
    clusters := (s.setCluster { cl with chunks := cl.chunks.filter (fun c => !c.isFree),
                                         epoch := s.globalEpoch + 1 }).clusters,
    proxies := tagAll s.proxies (chunkAddrs (cl.chunks.filter Chunk.isFree)) none,
    failed := s.failed, failures := s.failures, ordered := s.ordered }

theorem autoDeleteFreeNodes_spec (s : Store) (name : String) :
    ((autoDeleteFreeNodes s name).1 = s ∧ ∀ u, (autoDeleteFreeNodes s name).2 ≠ R.ok u) ∨
    (∃ cl, s.findCluster name = some cl ∧ cl.isMigrating = false ∧
      autoDeleteFreeNodes s name = (delFreeResult s cl, R.ok ())) := by
  unfold autoDeleteFreeNodes
  split
  · exact Or.inl ⟨rfl, by intro u h; cases h⟩
  simp only
  split
  · exact Or.inl ⟨rfl, by intro u h; cases h⟩
  rename_i cl hf
  split
  · exact Or.inl ⟨rfl, by intro u h; cases h⟩
  rename_i hmig
  split
  · exact Or.inl ⟨rfl, by intro u h; cases h⟩
  refine Or.inr ⟨cl, hf, by simpa using hmig, ?_⟩
  simp only [foldl_setProxyCluster_chunks]
  rfl

theorem rx_delFreeResult {s : Store} {cl : Cluster} (hx : RX s) (hf : s.findCluster cl.name = some cl) :
    RX (delFreeResult s cl) := by
  refine ⟨rpt_delFree (keep := Chunk.isFree)
    (cl' := { cl with chunks := cl.chunks.filter (fun c => !c.isFree), epoch := s.globalEpoch + 1 })
    hx.1 hf rfl rfl rfl rfl, ?_⟩
  unfold NamesValid
  show ∀ n ∈ (s.setCluster _).clusters.map (·.name), _
  rw [setCluster_names]; exact hx.2

theorem rx_autoDeleteFreeNodes {s : Store} (name : String) (hx : RX s) :
    RX (autoDeleteFreeNodes s name).1 := by
  rcases autoDeleteFreeNodes_spec s name with ⟨h, _⟩ | ⟨cl, hf, _, h⟩
  · rw [h]; exact hx
  · rw [h]
    have hcn : cl.name = name := (Store.findCluster_some hf).2
    exact rx_delFreeResult hx (hcn ▸ hf)

theorem autoDeleteFreeNodesIfExists_fst (s : Store) (name : String) :
    (autoDeleteFreeNodesIfExists s name).1 = (autoDeleteFreeNodes s name).1 := by
  unfold autoDeleteFreeNodesIfExists
  split <;> simp_all

theorem rx_autoDeleteFreeNodesIfExists {s : Store} (name : String) (hx : RX s) :
    RX (autoDeleteFreeNodesIfExists s name).1 := by
  rw [autoDeleteFreeNodesIfExists_fst]; exact rx_autoDeleteFreeNodes name hx

/-! ## add_proxy / remove_proxy -/

theorem addProxy_clusters (s : Store) (a n0 n1 : String) (h : Option String) (i : Option Nat) :
    (addProxy s a n0 n1 h i).1.clusters = s.clusters := by
  unfold addProxy
  split
  · rfl
  · simp only
    split
    · rfl
    · split <;> rfl

/-- the proxy list after `add_proxy` (`MissingIndex` = ordered mode without an index) -/
theorem addProxy_proxies (s : Store) (a n0 n1 : String) (h : Option String) (i : Option Nat) :
    (addProxy s a n0 n1 h i).1.proxies =
      if (colonCount a != 1 || n0 == n1) then s.proxies
      else match proxyIndex s i with
      | none => s.proxies
      | some idx =>
      if (s.findProxy a).isSome then s.proxies
      else s.proxies ++ [{ addr := a, node0 := n0, node1 := n1, host := h.getD (hostOfAddr a), index := idx,
                           cluster := none }] := by
  unfold addProxy
  split
  · rfl
  · simp only
    split
    · rename_i heq; simp only [heq]
    · rename_i heq; simp only [heq]; split <;> rfl

theorem rx_addProxy {s : Store} (a n0 n1 : String) (h : Option String) (i : Option Nat) (hx : RX s) :
    RX (addProxy s a n0 n1 h i).1 := by
  have hc := addProxy_clusters s a n0 n1 h i
  have hp := addProxy_proxies s a n0 n1 h i
  split at hp
  · exact (show SkelEq _ s from ⟨hp, by rw [hc]⟩).rx hx
  split at hp
  · exact (show SkelEq _ s from ⟨hp, by rw [hc]⟩).rx hx
  · split at hp
    · exact (show SkelEq _ s from ⟨hp, by rw [hc]⟩).rx hx
    · rename_i he
      have hnone : s.findProxy a = none := by
        cases hf : s.findProxy a with
        | none => rfl
        | some _ => simp [hf] at he
      refine ⟨rpt_addProxy hx.1 rfl (Store.findProxy_none.mp hnone) hp hc, ?_⟩
      unfold NamesValid; rw [hc]; exact hx.2

theorem rx_removeProxy {s : Store} (a : String) (hx : RX s) : RX (removeProxy s a).1 := by
  unfold removeProxy
  split
  · exact hx
  · rename_i p hf
    split
    · exact hx
    · rename_i hc
      have hfree : p.cluster = none := by
        cases hpc : p.cluster with
        | none => rfl
        | some _ => simp [hpc] at hc
      exact ⟨rpt_removeProxy hx.1 hf hfree rfl rfl, hx.2⟩

/-! ## skeleton-preserving operations -/

theorem rx_migrateSlots {s : Store} (n : String) (hx : RX s) : RX (migrateSlots s n).1 :=
  (migrateSlots_skelEq s n hx.nodupNames).rx hx

theorem rx_migrateSlotsToScaleDown {s : Store} (n : String) (k : Nat) (hx : RX s) :
    RX (migrateSlotsToScaleDown s n k).1 :=
  (migrateSlotsToScaleDown_skelEq s n k hx.nodupNames).rx hx

theorem rx_commitMigrationCore {s : Store} (n : String) (rl : RangeList) (e : Nat) (t : Bool) (hx : RX s) :
    RX (commitMigrationCore s n rl e t).1 :=
  (commitMigrationCore_skelEq s n rl e t hx.nodupNames).rx hx

theorem rx_commitMigration {s : Store} (n : String) (rl : RangeList) (e : Nat) (t c : Bool) (hx : RX s) :
    RX (commitMigration s n rl e t c).1 := by
  unfold commitMigration
  have h1 := rx_commitMigrationCore n rl e t hx
  split
  · rename_i s' heq
    rw [heq] at h1
    split
    · exact rx_autoDeleteFreeNodesIfExists n h1
    · exact h1
  · exact h1

theorem rx_takeoverMaster {s : Store} (n f : String) (hx : RX s) : RX (takeoverMaster s n f).1 :=
  (takeoverMaster_skelEq s n f hx.nodupNames).rx hx

theorem rx_balanceMasters {s : Store} (n : String) (hx : RX s) : RX (balanceMasters s n).1 :=
  (balanceMasters_skelEq s n hx.nodupNames).rx hx

theorem rx_changeConfig {s : Store} (n : String) (kvs : List (String × String)) (hx : RX s) :
    RX (changeConfig s n kvs).1 :=
  (changeConfig_skelEq s n kvs hx.nodupNames).rx hx

theorem rx_forceBumpAllEpoch {s : Store} (e : Nat) (hx : RX s) : RX (forceBumpAllEpoch s e).1 :=
  (forceBumpAllEpoch_skelEq s e).rx hx

theorem rx_recoverEpoch {s : Store} (e : Nat) (hx : RX s) : RX (recoverEpoch s e) :=
  (recoverEpoch_skelEq s e).rx hx

theorem rx_addFailure {s : Store} (a r : String) (t : Int) (hx : RX s) : RX (addFailure s a r t).1 :=
  (addFailure_skelEq s a r t).rx hx

theorem rx_autoScaleOutNodeNumber {s : Store} (n : String) (k : Nat) (hx : RX s) :
    RX (autoScaleOutNodeNumber s n k).1 := by
  unfold autoScaleOutNodeNumber
  split
  · exact hx
  split
  · exact hx
  split
  · exact rx_migrateSlots n hx
  · exact hx

theorem rx_autoChangeNodeNumber {s : Store} (n : String) (k : Nat) (choice : List (String × String))
    (hx : RX s) : RX (autoChangeNodeNumber s n k choice).1 := by
  unfold autoChangeNodeNumber
  split
  · exact hx
  split
  · exact hx
  split
  · exact hx
  have h1 := rx_autoDeleteFreeNodes n hx
  generalize autoDeleteFreeNodes s n = r at h1
  obtain ⟨s1, r1⟩ := r
  simp only at h1 ⊢
  split
  · split
    · exact h1
    · split
      · exact h1
      · split
        · have h2 := rx_autoScaleUpNodes n k choice h1
          split <;> (rename_i heq; rw [heq] at h2; exact h2)
        · have h2 := rx_migrateSlotsToScaleDown n k h1
          split <;> (rename_i heq; rw [heq] at h2; exact h2)
  · split
    · exact h1
    · split
      · exact h1
      · split
        · have h2 := rx_autoScaleUpNodes n k choice h1
          split <;> (rename_i heq; rw [heq] at h2; exact h2)
        · have h2 := rx_migrateSlotsToScaleDown n k h1
          split <;> (rename_i heq; rw [heq] at h2; exact h2)
  all_goals exact h1

end Um.Broker
