import UmProofs.BrokerEpochStep
import UmGen.EpochRecovery
/-!
# Epoch proofs (C13) — the recovery call chain and `MetaStore::restore` as model functions

`serviceRecoverEpoch`: `MemBrokerService::recover_epoch` → `MemoryStorage::recover_epoch` →
`MetaStore::recover_epoch` (`recoverEpoch` of `UmModel/Broker.lean`); the increments of the two outer
layers and the comparison operator of the `restore` guard are generated from the source
(`UmGen.EpochRecovery`, `tools/extract_epoch.py`).
-/
namespace Um.Broker.Epoch
open Um Um.Slots Um.Broker

open Um.Gen.EpochRecovery in
/-- `MemBrokerService::recover_epoch` → `MemoryStorage::recover_epoch` → `MetaStore::recover_epoch`
with `maxProxyEpoch` = the largest epoch reported by any proxy (`fetch_max_epoch`). The two
increments are re-extracted from the source on every run (`UmGen.EpochRecovery`). -/
def serviceRecoverEpoch (s : Store) (maxProxyEpoch : Nat) : Store :=
  let serviceArg := maxProxyEpoch + SERVICE_INC   -- service.rs: `self.storage.recover_epoch(max_epoch + 1)`
  let storageArg := serviceArg + STORAGE_INC      -- storage.rs: `.recover_epoch(exsting_largest_epoch + 1)`
  recoverEpoch s storageArg                       -- store.rs:   `max(exsting_largest_epoch, global_epoch + 1)`

/-- the store with the global epoch and the cluster epochs blanked (migration meta epochs stay) -/
def eraseEpochs (s : Store) : Store :=
  { s with globalEpoch := 0, clusters := s.clusters.map fun c => { c with epoch := 0 } }

theorem resInv_recover (s : Store) (x : Nat) (h : ResInv s) : ResInv (recoverEpoch s x) := by
  obtain ⟨h1, h2, h3, h4, h5⟩ := h
  have hmem : ∀ c' ∈ (recoverEpoch s x).clusters, ∃ c ∈ s.clusters,
      c'.name = c.name ∧ c'.chunks = c.chunks := by
    intro c' hc'
    obtain ⟨c, hc, rfl⟩ := List.mem_map.mp hc'
    exact ⟨c, hc, rfl, rfl⟩
  have hcl : (recoverEpoch s x).clusters =
      s.clusters.map fun c => { c with epoch := max x (s.globalEpoch + 1) } := rfl
  refine ⟨h1, ?_, ?_, ?_, ?_⟩
  · rw [hcl, List.map_map]; exact h2
  · rw [hcl, List.flatMap_map]; exact h3
  · intro c' hc' ch hch
    obtain ⟨c, hc, hn, hch'⟩ := hmem c' hc'
    rw [hn]
    exact h4 c hc ch (hch' ▸ hch)
  · intro p hp n hn
    obtain ⟨c, hc, hcn, hpa⟩ := h5 p hp n hn
    exact ⟨{ c with epoch := _ }, List.mem_map.mpr ⟨c, hc, rfl⟩, hcn, hpa⟩

inductive RestoreErr where
  | invalidMetaVersion | smallEpoch
  deriving DecidableEq, Repr

/-- the `SmallEpoch` guard of `MetaStore::restore` (`self.global_epoch > other.global_epoch`; the
comparison operator is re-extracted from the source: `RESTORE_REJECTS_EQUAL`) -/
def epochRejected (selfEpoch otherEpoch : Nat) : Bool :=
  if Um.Gen.EpochRecovery.RESTORE_REJECTS_EQUAL then decide (selfEpoch ≥ otherEpoch)
  else decide (selfEpoch > otherEpoch)

theorem epochRejected_false {a b : Nat} (h : epochRejected a b = false) : a ≤ b := by
  unfold epochRejected at h
  split at h <;> simp at h <;> omega

/-- `MetaStore::restore`: `self.version != other.version` → `InvalidMetaVersion`;
`self.global_epoch > other.global_epoch` → `SmallEpoch` (the comparison operator is re-extracted:
`RESTORE_REJECTS_EQUAL`); else `*self = other` (result `none` = `Ok(())`) -/
def restore (selfVersion : String) (self : Store) (otherVersion : String) (other : Store) :
    Store × Option RestoreErr :=
  if selfVersion != otherVersion then (self, some .invalidMetaVersion)
  else if epochRejected self.globalEpoch other.globalEpoch then (self, some .smallEpoch)
  else (other, none)

end Um.Broker.Epoch
