import UmProofs.RespValue
/-!
# C15 — soundness: whatever the parser accepts has the shape `Accepts`, and its index tree
resolves (no `expect` panic) to that value
-/
namespace Um.Resp
open Um

theorem line_sound {s : Bool} {b : Bytes} {st e n : Nat} (h : parseLine s b = .ok ((st, e), n)) :
    st = 0 ∧ n = e + 2 ∧ n ≤ b.length ∧ sliceGet (b.take n) 0 e = some (b.take e) ∧
      ∃ ch, b.take n = b.take e ++ [ch, LF] ∧ LF ∉ b.take e ∧ TermOk s ch := by
  obtain ⟨h0, hn, hle, _, _⟩ := parseLine_ok h
  obtain ⟨ch, h1, h2, h3, h4⟩ := parseLine_decomp h
  refine ⟨h0, hn, hle, ?_, ch, h1, h2, h3, h4⟩
  rw [sliceGet_zero _ _ (by simp; omega), List.take_take]
  congr 2; omega

theorem lineAs_sound {s : Bool} {b : Bytes} {idx : RespIdx} {n : Nat} {t : UInt8}
    {mk : DataIndex → RespIdx} {mkv : Bytes → Resp}
    (hmk : ∀ d a, toRespVec d (mk a) = (sliceGet d a.1 a.2).map mkv)
    (hacc : ∀ p e, (∃ ch, e = t :: (p ++ [ch, LF]) ∧ LF ∉ p ∧ TermOk s ch) → Accepts s (mkv p) e)
    (hnest : ∀ d p, NestOk d (mkv p))
    (h : parseLineAs mk s b = .ok (idx, n)) :
    ∃ v, toRespVec (b.take n) idx = some v ∧ Accepts s v (t :: b.take n) ∧ ∀ d, NestOk d v := by
  unfold parseLineAs at h
  cases hl : parseLine s b with
  | error e => simp [hl] at h
  | ok pr =>
    obtain ⟨⟨st, e⟩, c⟩ := pr
    simp only [hl, Except.ok.injEq, Prod.mk.injEq] at h
    obtain ⟨h1, h2⟩ := h
    subst h1 h2
    obtain ⟨h0, hn, hle, hsl, ch, hd, hnl, hterm⟩ := line_sound hl
    subst h0
    refine ⟨mkv (b.take e), ?_, ?_, fun d => hnest d _⟩
    · rw [hmk]; simp only; rw [hsl]; rfl
    · apply hacc
      exact ⟨ch, by rw [hd], hnl, hterm⟩

theorem bulk_sound {s : Bool} {b : Bytes} {idx : RespIdx} {n : Nat} (h : parseBulkStr s b = .ok (idx, n)) :
    ∃ v, toRespVec (b.take n) idx = some v ∧ Accepts s v (tBulk :: b.take n) ∧ ∀ d, NestOk d v := by
  unfold parseBulkStr at h
  cases hl : parseLen s b with
  | error e => simp [hl] at h
  | ok pr =>
    obtain ⟨len, c⟩ := pr
    obtain ⟨hc2, hcle, hline, hbtoi⟩ := parseLen_ok hl
    obtain ⟨_, _, _, _, ch, hd, hnl, hterm⟩ := line_sound hline
    simp only [hl] at h
    by_cases hneg : len < 0
    · simp only [hneg, if_true, Except.ok.injEq, Prod.mk.injEq] at h
      obtain ⟨h1, h2⟩ := h
      subst h1 h2
      refine ⟨.bulkNil, by simp [toRespVec, RespT.mapOpt], ?_, by intro d; simp [NestOk]⟩
      simp only [Accepts]
      exact ⟨b.take (c - 2), ch, len, by rw [hd], hbtoi, hneg, hterm⟩
    · simp only [hneg, if_false] at h
      by_cases hshort : b.length < c + len.toNat + 2
      · simp [hshort] at h
      · simp only [hshort, if_false] at h
        split at h
        · simp at h
        · rename_i hstrict
          simp only [Except.ok.injEq, Prod.mk.injEq] at h
          obtain ⟨h1, h2⟩ := h
          subst h1 h2
          have hk : ((len.toNat : Nat) : Int) = len := Int.toNat_of_nonneg (by omega)
          generalize len.toNat = k at *
          have hpl : ((b.drop c).take k).length = k := by simp; omega
          refine ⟨.bulk ((b.drop c).take k), ?_, ?_, by intro d; simp [NestOk]⟩
          · simp only [toRespVec, RespT.mapOpt, sliceGet]
            have hcond : c ≤ c + k ∧ c + k ≤ (b.take (c + k + 2)).length := by simp; omega
            simp only [hcond, and_self, if_true, Option.map_some, Option.some.injEq, RespT.bulk.injEq]
            rw [List.drop_take, List.take_take]
            congr 1; omega
          · simp only [Accepts]
            refine ⟨b.take (c - 2), ch, (b.drop (c + k)).take 2, ?_, ?_, hterm, ?_, ?_⟩
            · rw [take_split3, hd]
            · rw [hpl, hk]; exact hbtoi
            · simp; omega
            · intro hs
              subst hs
              simp only [Bool.true_and, bne_iff_ne, ne_eq, Decidable.not_not] at hstrict
              unfold sliceGet at hstrict
              have hcond : c + k ≤ c + k + 2 ∧ c + k + 2 ≤ b.length := by omega
              simp only [hcond, and_self, if_true, Option.some.injEq] at hstrict
              rw [← hstrict]
              congr 1; omega

theorem leaf_sound {s : Bool} {p : UInt8} {b : Bytes} {idx : RespIdx} {n : Nat}
    (h : parseLeaf s p b = some (.ok (idx, n))) :
    ∃ v, toRespVec (b.take n) idx = some v ∧ Accepts s v (p :: b.take n) ∧ ∀ d, NestOk d v := by
  unfold parseLeaf at h
  split at h
  · rename_i hp; subst hp
    simp only [Option.some.injEq] at h
    exact bulk_sound h
  · split at h
    · rename_i hp; subst hp
      simp only [Option.some.injEq] at h
      exact lineAs_sound (mkv := .simple) (by intro d a; simp [toRespVec, RespT.mapOpt])
        (by intro p e hh; simpa [Accepts] using hh) (by intro d p; simp [NestOk]) h
    · split at h
      · rename_i hp; subst hp
        simp only [Option.some.injEq] at h
        exact lineAs_sound (mkv := .integer) (by intro d a; simp [toRespVec, RespT.mapOpt])
          (by intro p e hh; simpa [Accepts] using hh) (by intro d p; simp [NestOk]) h
      · split at h
        · rename_i hp; subst hp
          simp only [Option.some.injEq] at h
          exact lineAs_sound (mkv := .error) (by intro d a; simp [toRespVec, RespT.mapOpt])
            (by intro p e hh; simpa [Accepts] using hh) (by intro d p; simp [NestOk]) h
        · simp at h

theorem arrayHeader_sound {s : Bool} {b : Bytes} :
    (∀ c, parseArrayHeader s b = .nil c → Accepts s .arrNil (tArr :: b.take c)) ∧
    (∀ k c, parseArrayHeader s b = .elems k c → 2 ≤ c ∧ c ≤ b.length ∧ reservePanics k = false ∧
      ∃ ch, b.take c = b.take (c - 2) ++ [ch, LF] ∧ btoiI64 (b.take (c - 2)) = some (k : Int) ∧ TermOk s ch) := by
  unfold parseArrayHeader
  cases hl : parseLen s b with
  | error e => simp
  | ok pr =>
    obtain ⟨len, c'⟩ := pr
    obtain ⟨hc2, hcle, hline, hbtoi⟩ := parseLen_ok hl
    obtain ⟨_, _, _, _, ch, hd, hnl, hterm⟩ := line_sound hline
    simp only
    by_cases hneg : len < 0
    · simp only [hneg, if_true, ArrHdr.nil.injEq, reduceCtorEq, false_implies, implies_true, and_true]
      intro c hc; subst hc
      simp only [Accepts]
      exact ⟨b.take (c' - 2), ch, len, by rw [hd], hbtoi, hneg, hterm⟩
    · simp only [hneg, if_false]
      by_cases hcap : reservePanics len.toNat = true
      · simp [hcap]
      · simp only [hcap, Bool.false_eq_true, if_false, reduceCtorEq, false_implies, implies_true, true_and,
          ArrHdr.elems.injEq, and_imp]
        intro k c hk hc; subst hk hc
        have hk : ((len.toNat : Nat) : Int) = len := Int.toNat_of_nonneg (by omega)
        refine ⟨hc2, hcle, by simpa using hcap, ch, hd, by rw [hk]; exact hbtoi, hterm⟩

/-- soundness of the recursive parser -/
theorem parse_sound (s : Bool) : ∀ f : Nat,
    (∀ d b idx n, parseResp s f d b = .ok (idx, n) →
      ∃ v, toRespVec (b.take n) idx = some v ∧ Accepts s v (b.take n) ∧ NestOk d v) ∧
    (∀ d bufLen rest k c idxs total, parseElems s f d bufLen rest k c = .ok (idxs, total) →
      ∃ vs, AcceptsList s vs (rest.take (total - c)) ∧ vs.length = k ∧ NestOkList d vs ∧
        ∀ D y, c ≤ D.length → D.drop c = rest.take (total - c) ++ y → toVecList D idxs = some vs) := by
  intro f
  induction f with
  | zero =>
    constructor
    · intro d b idx n h; simp [parseResp] at h
    · intro d bufLen rest k c idxs total h
      cases k with
      | zero =>
        simp only [parseElems, Except.ok.injEq, Prod.mk.injEq] at h
        obtain ⟨h1, h2⟩ := h; subst h1 h2
        exact ⟨[], by simp [AcceptsList], rfl, by simp [NestOkList], by intro D y _ _; simp [toVecList, RespT.mapOptList]⟩
      | succ k => simp [parseElems] at h
  | succ f ih =>
    obtain ⟨ihR, ihE⟩ := ih
    constructor
    · intro d b idx n h
      cases b with
      | nil => simp [parseResp] at h
      | cons p next =>
        simp only [parseResp] at h
        cases hleaf : parseLeaf s p next with
        | some r =>
          simp only [hleaf] at h
          obtain ⟨v', n', hr, hv, hn⟩ := shift1_ok h
          subst hr hv hn
          obtain ⟨v, h1, h2, h3⟩ := leaf_sound hleaf
          refine ⟨v, ?_, ?_, h3 d⟩
          · rw [toRespVec_advance _ _ _ (by simp; omega)]
            simpa [Nat.add_comm 1 n'] using h1
          · simpa [Nat.add_comm 1 n'] using h2
        | none =>
          simp only [hleaf] at h
          split at h
          · rename_i hp; subst hp
            by_cases hnest : nestingExceeded d = true
            · rw [if_pos hnest] at h; simp at h
            rw [if_neg hnest] at h
            have hallow : nestAllowed d := by simpa [nestAllowed] using hnest
            obtain ⟨hnil, helems⟩ := arrayHeader_sound (s := s) (b := next)
            cases hh : parseArrayHeader s next with
            | err e => simp [hh] at h
            | nil c =>
              simp only [hh] at h
              obtain ⟨v', n', hr, hv, hn⟩ := shift1_ok h
              simp only [Except.ok.injEq, Prod.mk.injEq] at hr
              obtain ⟨hr1, hr2⟩ := hr
              subst hr1 hr2 hv hn
              refine ⟨.arrNil, by simp [toRespVec, advance, RespT.map, RespT.mapOpt], ?_, by simpa [NestOk] using hallow⟩
              simpa [Nat.add_comm 1 c] using hnil c hh
            | elems k c =>
              simp only [hh] at h
              obtain ⟨hc2, hcle, hcap, ch, hd, hbtoi, hterm⟩ := helems k c hh
              cases he : parseElems s f (d + 1) next.length (next.drop c) k c with
              | error e => simp [he] at h
              | ok pr =>
                obtain ⟨arr, total⟩ := pr
                simp only [he] at h
                obtain ⟨v', n', hr, hv, hn⟩ := shift1_ok h
                simp only [Except.ok.injEq, Prod.mk.injEq] at hr
                obtain ⟨hr1, hr2⟩ := hr
                subst hr1 hr2 hv hn
                obtain ⟨hb1, hb2, _⟩ := parseElems_bounds he
                simp only [List.length_drop] at hb2
                obtain ⟨vs, hacc, hlen, hnl, hvec⟩ := ihE _ _ _ _ _ _ _ he
                have htake : (tArr :: next).take (1 + total) = tArr :: next.take total := by
                  rw [Nat.add_comm]; rfl
                have hsplit : next.take total = next.take c ++ (next.drop c).take (total - c) := by
                  have : total = c + (total - c) := by omega
                  rw [this, List.take_add]; congr 3 <;> omega
                refine ⟨.arr vs, ?_, ?_, by simp only [NestOk]; exact ⟨hallow, hnl⟩⟩
                · rw [toRespVec_advance _ _ _ (by simp; omega), htake]
                  simp only [List.drop_succ_cons, List.drop_zero]
                  rw [toRespVec_arr, hvec (next.take total) [] (by simp; omega) (by
                    rw [List.drop_take, List.append_nil])]
                  rfl
                · rw [htake]
                  simp only [Accepts]
                  refine ⟨next.take (c - 2), ch, (next.drop c).take (total - c), ?_, ?_, hterm, ?_, ?_⟩
                  · rw [hsplit, hd]
                  · rw [hlen]; exact hbtoi
                  · rw [hlen]; exact hcap
                  · exact hacc
          · simp at h
    · intro d bufLen rest k c idxs total h
      cases k with
      | zero =>
        simp only [parseElems, Except.ok.injEq, Prod.mk.injEq] at h
        obtain ⟨h1, h2⟩ := h; subst h1 h2
        exact ⟨[], by simp [AcceptsList], rfl, by simp [NestOkList], by intro D y _ _; simp [toVecList, RespT.mapOptList]⟩
      | succ k =>
        simp only [parseElems] at h
        split at h
        · simp at h
        · cases hp : parseResp s f d rest with
          | error e => simp [hp] at h
          | ok pr =>
            obtain ⟨v, ec⟩ := pr
            simp only [hp] at h
            obtain ⟨hec1, hec2⟩ := parseResp_bounds hp
            cases he : parseElems s f d bufLen (rest.drop ec) k (c + ec) with
            | error e => simp [he] at h
            | ok pr2 =>
              obtain ⟨vs, t⟩ := pr2
              simp only [he, Except.ok.injEq, Prod.mk.injEq] at h
              obtain ⟨h1, h2⟩ := h
              subst h1 h2
              obtain ⟨hb1, hb2, _⟩ := parseElems_bounds he
              simp only [List.length_drop] at hb2
              obtain ⟨v1, hv1, ha1, hn1⟩ := ihR _ _ _ _ hp
              obtain ⟨vs1, has, hlen, hns, hvs⟩ := ihE _ _ _ _ _ _ _ he
              have hsplit : rest.take (t - c) = rest.take ec ++ (rest.drop ec).take (t - (c + ec)) := by
                have : t - c = ec + (t - (c + ec)) := by omega
                rw [this, List.take_add]
              refine ⟨v1 :: vs1, ?_, by simp [hlen], by simp only [NestOkList]; exact ⟨hn1, hns⟩, ?_⟩
              · simp only [AcceptsList]
                exact ⟨_, _, hsplit, ha1, has⟩
              · intro D y hcD hD
                rw [toVecList_cons, toRespVec_advance _ _ _ hcD, hD, hsplit, List.append_assoc,
                  toRespVec_append _ hv1]
                simp only
                have hlenD : (D.drop c).length = (rest.take (t - c) ++ y).length := by rw [hD]
                simp only [List.length_drop, List.length_append, List.length_take] at hlenD
                rw [hvs D y (by omega) (by
                  rw [show c + ec = c + ec from rfl, ← List.drop_drop, hD, hsplit, List.append_assoc,
                    List.drop_left' (by simp; omega)])]

theorem parse_ok_sound {s : Bool} {b : Bytes} {idx : RespIdx} {n : Nat} (h : parse s b = .ok (idx, n)) :
    ∃ v, toRespVec (b.take n) idx = some v ∧ Accepts s v (b.take n) ∧ NestOk 0 v :=
  (parse_sound s _).1 _ _ _ _ h

end Um.Resp
