import UmProofs.BrokerScaleReachC
import UmProofs.BrokerEpochStep
/-!
# C10 over reachable states (part D): `SInv` holds for every cluster of every boundedly reachable
store; quiescent clusters are balanced, migrating ones are on track
-/
namespace Um.Broker.Scale
open Um Um.Slots Um.Broker Um.Broker.Plan

/-- one operation (as executed by `stepFull`) keeps `SInv` of every cluster -/
theorem allS_stepFull {s : Store} (h : AllS s) (hb : PlanBound s)
    (hc : ∀ c ∈ s.clusters, PosInv c ∧ TwinInv c ∧ SlotInv c) (op : Op)
    (hb' : PlanBound (stepFull s op).1) : AllS (stepFull s op).1 := by
  cases op with
  | addProxy a n0 n1 host i => exact allS_stepRel h (stepRel_addProxy s a n0 n1 host i)
  | removeProxy a => exact allS_stepRel h (stepRel_removeProxy s a)
  | addCluster n k c => exact allS_addCluster h n k defaultConfig c hb'
  | removeCluster n => exact allS_stepRel h (stepRel_removeCluster s n)
  | addNodes n k c => exact allS_autoAddNodes h hb n k c
  | scaleUp n k c => exact allS_autoScaleUpNodes h hb n k c
  | changeNum n k c => exact allS_autoChangeNodeNumber h hb n k c
  | scaleOutNum n k => exact allS_autoScaleOutNodeNumber h hb n k
  | delFree n => exact allS_autoDeleteFreeNodes h hb n
  | migrate n => exact allS_migrateSlots h hb n
  | scaleDown n k => exact allS_migrateSlotsToScaleDown h hb n k
  | commit n e rl tagNone clear => exact allS_commitMigration h hb hc n rl e tagNone clear
  | failover a c => exact allS_stepRel h (stepRel_replaceFailedProxy s a c)
  | balance n => exact allS_stepRel h (stepRel_balanceMasters s n)
  | config n kv => exact allS_stepRel h (stepRel_changeConfig s n kv)
  | bumpAll e => exact allS_stepRel h (stepRel_forceBumpAllEpoch s e)
  | recover e => exact allS_stepRel h (stepRel_recoverEpoch s e)
  | addFailure a r t => exact allS_stepRel h (stepRel_addFailure s a r t)
  | setOrdered =>
    exact allS_stepRel h (stepRel_of_clusters (s := s) (s' := s.setOrdered)
      (by unfold Store.setOrdered; split <;> rfl))

/-- **every cluster of every boundedly reachable store satisfies `SInv`** -/
theorem allS_reachableB : ∀ s, ReachableB s → AllS s := by
  intro s hs
  induction hs with
  | init => intro c hc; cases hc
  | @step s op hr hb' ih =>
    rcases step_cases s op with h1 | h1
    · rw [h1] at hb' ⊢
      exact allS_stepFull ih hr.bound (cinv_reachableB s hr) op hb'
    · rw [h1]; exact ih

/-- runs all of whose prefixes respect the bound are boundedly reachable -/
theorem reachableB_run (ops : List Op) (hb : ∀ k, PlanBound (run (ops.take k))) : ReachableB (run ops) := by
  have key : ∀ (l : List Op) (s : Store), ReachableB s →
      (∀ k, PlanBound ((l.take k).foldl step s)) → ReachableB (l.foldl step s) := by
    intro l
    induction l with
    | nil => intro s hs _; exact hs
    | cons op rest ih =>
      intro s hs hk
      have h1 : ReachableB (step s op) := ReachableB.step op hs (by simpa using hk 1)
      exact ih (step s op) h1 (fun k => by simpa using hk (k + 1))
  exact key ops Store.init ReachableB.init hb

/-- **quiescent clusters are balanced** -/
theorem reachable_balanced {s : Store} (hs : ReachableB s) {c : Cluster} (hc : c ∈ s.clusters)
    (hidle : c.isMigrating = false) : Balanced c :=
  (balanced_of_sinv (allS_reachableB s hs c hc) (migs_nil_of_idle hidle) (hs.bound c hc)).choose_spec.2.1

/-- **migrating clusters are on track**: `CommitInv`, the profile of a balanced target with `N`
chunks, and (trivially) as many pending tasks as it has -/
theorem reachable_onTrack {s : Store} (hs : ReachableB s) {c : Cluster} (hc : c ∈ s.clusters) :
    ∃ N, 0 < N ∧ N * 2 ≤ SLOT_NUM ∧ OnTrack (target N) N (Cluster.pending c).length c := by
  obtain ⟨N, hN, hcore⟩ := allS_reachableB s hs c hc
  obtain ⟨hp, ht, hsl⟩ := cinv_reachableB s hs c hc
  have hlen := hcore.len
  have hb := hs.bound c hc
  exact ⟨N, hN, by omega, Or.inl ⟨commitInv_of_invs hp ht hsl, hcore.withDisj (projInv_of_invs ht hsl), rfl⟩⟩

theorem findCluster_of_mem_reachable {s : Store} (hs : Reachable s) {c : Cluster} (hc : c ∈ s.clusters) :
    s.findCluster c.name = some c :=
  Epoch.findC_of_mem_nodup (Epoch.nameInv_reachable s hs) hc

/-- hence: from any boundedly reachable state, committing the pending tasks of a cluster in any
order, with failovers interleaved, reaches a balanced cluster -/
theorem reachable_chain_balanced {s s' : Store} (hs : ReachableB s) {c : Cluster} (hc : c ∈ s.clusters)
    (hch : ScaleChain c.name s (Cluster.pending c).length s') :
    ∃ c' N, s'.findCluster c.name = some c' ∧ 0 < N ∧ Balanced c' ∧ BalancedShape c'.chunks N := by
  obtain ⟨N, hN, hsz, htr⟩ := reachable_onTrack hs hc
  obtain ⟨c', hf', hb, hshape⟩ := scaleChain_to_balanced hN hsz (fun idx hidx => by simp [target, hidx]) hch
    (findCluster_of_mem_reachable hs.reachable hc) htr
  exact ⟨c', N, hf', hN, hb, hshape⟩

end Um.Broker.Scale
