import UmProofs.BrokerViewPartB
/-!
# C01, view layer, part C: store invariants imply `PartitionView`

`partition_of_inv : PosInv cl → TwinInv cl → SlotInv cl → clusterStoreToCluster cl = .ok v → PartitionView v`.

No hypothesis about distinct node addresses is needed: the twin of a pending range is located
*positionally* (it is a slot range of the master node of chunk half `(dstChunk, dstPart)`), and
the address/proxy of that node are, by construction of the view (`toSlotRange` and `chunkNode`
read the same chunk fields through tables that agree), the `dst_node`/`dst_proxy` of the meta.
"Exactly one" is uniqueness of `(ranges, epoch)` among pending entries (`TwinInv`), which does
not depend on addresses either.
-/
namespace Um.Broker
open Um Um.Slots

/-! ## (1) owned slots -/

theorem bv_flatMap_filter {α β} (l : List α) (p : α → Bool) (f : α → List β) :
    (l.filter p).flatMap f = l.flatMap fun a => if p a then f a else [] := by
  induction l with
  | nil => rfl
  | cons a as ih =>
    by_cases h : p a <;> simp [h, ih]

theorem isOwned_toSlotRangeP (chunks : List Chunk) (m : MigStore) :
    (toSlotRangeP chunks m).isOwned = m.isMigrating := by
  unfold toSlotRangeP SlotRange.isOwned
  cases m.isMigrating <;> rfl

theorem masterNode_ownedSlots (c : Chunk) (chunks : List Chunk) (part : Nat) :
    (masterNode c chunks part).ownedSlots =
      (stableD c part).toList.flatMap slotsOf ++
        ((migD c part).filter (·.isMigrating)).flatMap fun m => slotsOf m.ranges := by
  have h1 : ((stableSR (stableD c part)).filter SlotRange.isOwned).flatMap (fun s => slotsOf s.ranges) =
      (stableD c part).toList.flatMap slotsOf := by
    cases stableD c part with
    | none => rfl
    | some rl => simp [stableSR, List.filter_cons, SlotRange.isOwned]
  have h2 : ∀ l : List MigStore, ((l.map (toSlotRangeP chunks)).filter SlotRange.isOwned).flatMap (fun s => slotsOf s.ranges) =
      (l.filter (·.isMigrating)).flatMap fun m => slotsOf m.ranges := by
    intro l
    induction l with
    | nil => rfl
    | cons m ms ih =>
      simp only [List.map_cons, List.filter_cons, isOwned_toSlotRangeP]
      cases m.isMigrating
      · simpa using ih
      · simp only [if_true, List.flatMap_cons, ih]; rfl
  simp only [VNode.ownedSlots, masterNode, partSlotsP, List.filter_append, List.flatMap_append, h1, h2]

theorem viewP_ownedSlots_perm (cl : Cluster) : (viewP cl).ownedSlots.Perm cl.ownedSlots := by
  unfold VCluster.ownedSlots
  rw [bv_flatMap_filter]
  refine (flatMap_nodes_perm cl _ (fun c i => by simp [replicaNode])).trans ?_
  unfold Cluster.ownedSlots
  apply bv_perm_flatMap_left
  intro c _
  have e0 : (masterNode c cl.chunks 0).replica = false := rfl
  have e1 : (masterNode c cl.chunks 1).replica = false := rfl
  simp only [e0, e1, Bool.not_false, if_true, masterNode_ownedSlots, stableD, migD, if_true,
    show ¬ ((1 : Nat) = 0) by omega, if_false, Chunk.stables, Chunk.migs, List.flatMap_append,
    List.filter_append, List.append_assoc]
  exact List.Perm.append_left _ (List.perm_append_comm_assoc _ _ _)

/-! ## pending entries of a cluster with the node that shows them -/

/-- every stored pending entry paired with the master node that carries it in the view -/
def Cluster.entries (cl : Cluster) : List (VNode × MigStore) :=
  cl.chunks.flatMap fun c =>
    c.mig0.map (fun m => (masterNode c cl.chunks 0, m)) ++ c.mig1.map (fun m => (masterNode c cl.chunks 1, m))

theorem entries_snd (cl : Cluster) : cl.entries.map (·.2) = cl.migs := by
  simp only [Cluster.entries, Cluster.migs, List.map_flatMap, List.map_append, List.map_map, Function.comp_def,
    List.map_id']
  rfl

theorem mem_entries (cl : Cluster) (e : VNode × MigStore) (h : e ∈ cl.entries) :
    ∃ (i : Nat) (c : Chunk) (part : Nat), cl.chunks[i]? = some c ∧ part < 2 ∧
      e.1 = masterNode c cl.chunks part ∧ e.2 ∈ migD c part := by
  simp only [Cluster.entries, List.mem_flatMap, List.mem_append, List.mem_map] at h
  obtain ⟨c, hc, h⟩ := h
  obtain ⟨i, hi, hget⟩ := List.getElem_of_mem hc
  have hget' : cl.chunks[i]? = some c := by rw [List.getElem?_eq_getElem hi, hget]
  rcases h with ⟨m, hm, rfl⟩ | ⟨m, hm, rfl⟩
  · exact ⟨i, c, 0, hget', by omega, rfl, by simpa [migD] using hm⟩
  · exact ⟨i, c, 1, hget', by omega, rfl, by simpa [migD] using hm⟩

/-- the occurrences of pending ranges in the view are, up to order, the stored pending entries -/
theorem occ_perm (cl : Cluster) (p : SlotRange → Bool) (hp : ∀ rl, p { ranges := rl, tag := Tag.none } = false) :
    ((viewP cl).occ p).Perm
      ((cl.entries.filter fun e => p (toSlotRangeP cl.chunks e.2)).map fun e => (e.1, toSlotRangeP cl.chunks e.2)) := by
  unfold VCluster.occ
  refine (flatMap_nodes_perm cl _ (fun c i => by simp [replicaNode])).trans ?_
  have hn : ∀ (n : VNode) (l : List MigStore),
      ((l.map (toSlotRangeP cl.chunks)).filter p).map (fun s => (n, s)) =
        ((l.map fun m => (n, m)).filter fun e => p (toSlotRangeP cl.chunks e.2)).map
          fun e => (e.1, toSlotRangeP cl.chunks e.2) := by
    intro n l
    induction l with
    | nil => rfl
    | cons m ms ih =>
      simp only [List.map_cons, List.filter_cons]
      cases p (toSlotRangeP cl.chunks m) <;> simp [ih]
  have hmaster : ∀ (c : Chunk) (part : Nat),
      ((masterNode c cl.chunks part).slots.filter p).map (fun s => (masterNode c cl.chunks part, s)) =
      (((migD c part).map fun m => (masterNode c cl.chunks part, m)).filter
          fun e => p (toSlotRangeP cl.chunks e.2)).map fun e => (e.1, toSlotRangeP cl.chunks e.2) := by
    intro c part
    have hst : (stableSR (stableD c part)).filter p = [] := by
      cases stableD c part <;> simp [stableSR, hp]
    have hs : (masterNode c cl.chunks part).slots = stableSR (stableD c part) ++ (migD c part).map (toSlotRangeP cl.chunks) := rfl
    rw [hs, List.filter_append, hst, List.nil_append, hn]
  simp only [Cluster.entries, List.filter_flatMap, List.map_flatMap, List.filter_append, List.map_append]
  apply List.Perm.of_eq
  congr 1
  funext c
  rw [hmaster c 0, hmaster c 1]
  simp [migD]

end Um.Broker
