import UmProofs.CoordBasic
/-!
# C07 — every round, under every fault plan, is a sequence of delivered calls

`Step s t`: `t` is `s` after one delivered call (any call, any payload) or after a change of the
bag of delayed calls.  `Reach` is its reflexive-transitive closure.  Every combinator of the round
functions only moves along `Reach`, whatever the faults, the nested rounds and the recorded inputs.
-/
namespace Um.Coord
open Um Um.Broker

inductive Step : Sys → Sys → Prop where
  | exec (s : Sys) (c : Call) (ch : String) : Step s (exec s c ch).1
  | bag (s : Sys) (b : List (Nat × Call)) : Step s { s with bag := b }

inductive Reach : Sys → Sys → Prop where
  | refl (s : Sys) : Reach s s
  | tail {s t u : Sys} : Reach s t → Step t u → Reach s u

theorem Reach.trans {s t u : Sys} (h1 : Reach s t) (h2 : Reach t u) : Reach s u := by
  induction h2 with
  | refl => exact h1
  | tail _ hs ih => exact Reach.tail ih hs

theorem Reach.single {s t : Sys} (h : Step s t) : Reach s t := Reach.tail (Reach.refl s) h

/-- an invariant of single steps holds along `Reach` -/
theorem Reach.induct {P : Sys → Sys → Prop} (hrefl : ∀ s, P s s)
    (htrans : ∀ s t u, P s t → P t u → P s u) (hstep : ∀ s t, Step s t → P s t)
    {s t : Sys} (h : Reach s t) : P s t := by
  induction h with
  | refl => exact hrefl _
  | tail _ hs ih => exact htrans _ _ _ ih (hstep _ _ hs)

theorem step_le {s t : Sys} (h : Step s t) : Sys.le s t := by
  cases h with
  | exec c ch => exact exec_le s c ch
  | bag b => exact Sys.le_of_proxies_eq rfl

/-- **no process ever replaces its maps by older or equally old ones along delivered calls** -/
theorem reach_le {s t : Sys} (h : Reach s t) : Sys.le s t :=
  Reach.induct (P := Sys.le) Sys.le_refl (fun _ _ _ => Sys.le_trans) (fun _ _ => step_le) h

/-! ## the fault layer -/

/-- a hook (rounds of other coordinators) that itself only moves along `Reach` -/
def HookOk (hk : Hook) : Prop := ∀ k s, Reach s (hk k s).1

theorem noHook_ok : HookOk noHook := fun _ s => Reach.refl s

@[simp] theorem log_sys (st : RS) (l : String) : (st.log l).sys = st.sys := rfl

theorem deliver_reach (st : RS) (tag : String) (c : Call) : Reach st.sys (st.deliver tag c).1.sys := by
  unfold RS.deliver
  dsimp only
  simp only [log_sys]
  exact Reach.single (Step.exec st.sys c _)

theorem reach_deliver {s0 : Sys} {st : RS} (h : Reach s0 st.sys) (tag : String) (c : Call) :
    Reach s0 (st.deliver tag c).1.sys := h.trans (deliver_reach st tag c)

theorem foldl_deliver_reach (l : List Call) (st : RS) :
    Reach st.sys (l.foldl (fun st c => (st.deliver "late" c).1) st).sys := by
  induction l generalizing st with
  | nil => exact Reach.refl _
  | cons c cs ih => exact (deliver_reach st "late" c).trans (ih _)

theorem tick_reach (st : RS) : Reach st.sys st.tick.sys := by
  unfold RS.tick
  dsimp only
  have h := Reach.single (Step.bag st.sys ((st.sys.bag.filter (·.1 != 0)).map fun e => (e.1 - 1, e.2)))
  exact h.trans (foldl_deliver_reach _
    { st with sys := { st.sys with bag := (st.sys.bag.filter (·.1 != 0)).map fun e => (e.1 - 1, e.2) } })

theorem call_reach {hk : Hook} (hhk : HookOk hk) (st : RS) (c : Call) : Reach st.sys (st.call hk c).1.sys := by
  unfold RS.call
  split
  · exact Reach.refl _
  · dsimp only
    have h1 : Reach st.sys (hk st.n st.sys).1 := hhk st.n st.sys
    split
    · exact h1
    · generalize hX : ({ st with sys := (hk st.n st.sys).1, trace := (hk st.n st.sys).2.reverse ++ st.trace, issued := st.issued ++ [c] } : RS) = X
      have h1' : Reach st.sys X.sys := by rw [← hX]; exact h1
      have h2 : Reach st.sys ({ X.tick with n := st.n + 1 } : RS).sys := h1'.trans (tick_reach X)
      split
      · exact reach_deliver h2 _ c
      · exact h2
      · exact reach_deliver h2 _ c
      · exact reach_deliver (reach_deliver h2 _ c) _ c
      · exact h2.trans (Reach.single (Step.bag _ _))
      · exact h2

/-! ## the combinators -/

theorem sendMeta_reach {hk : Hook} (hhk : HookOk hk) (st : RS) (v : VProxy) : Reach st.sys (sendMeta hk st v).1.sys := by
  unfold sendMeta
  dsimp only
  have h0 := call_reach hhk st (.connect v.address)
  split
  · have h1 := call_reach hhk (st.call hk (.connect v.address)).1 (.setRepl v.address v.epoch (mkRMeta v))
    split
    · exact (h0.trans h1).trans (call_reach hhk _ _)
    · exact h0.trans h1
  · exact h0

theorem retrieveAndSend_reach {hk : Hook} (hhk : HookOk hk) (st : RS) (a : String) :
    Reach st.sys (retrieveAndSend hk st a).1.sys := by
  unfold retrieveAndSend
  dsimp only
  have h0 := call_reach hhk st (.getProxy a)
  split
  · exact h0.trans (sendMeta_reach hhk _ _)
  · exact h0
  · exact h0

theorem pagedLoop_reach {hk : Hook} (hhk : HookOk hk) (mk : Nat → Call) (fuel : Nat) (st : RS) (off : Nat)
    (acc : List String) : Reach st.sys (pagedLoop hk mk fuel st off acc).1.sys := by
  induction fuel generalizing st off acc with
  | zero => exact Reach.refl _
  | succ n ih =>
    unfold pagedLoop
    dsimp only
    have h0 := call_reach hhk st (mk off)
    split
    · split
      · exact h0
      · exact h0.trans (ih _ _ _)
    · exact h0

theorem listFailed_reach {hk : Hook} (hhk : HookOk hk) (st : RS) : Reach st.sys (listFailed hk st).1.sys := by
  unfold listFailed
  dsimp only
  have h0 := call_reach hhk st .failedProxies
  split <;> exact h0

theorem retrieveProxies_reach {hk : Hook} (hhk : HookOk hk) (st : RS) : Reach st.sys (retrieveProxies hk st).1.sys := by
  unfold retrieveProxies
  dsimp only
  exact (listFailed_reach hhk st).trans (pagedLoop_reach hhk _ _ _ _ _)

theorem foldl_reach {α : Type} (f : RS → α → RS) (hf : ∀ st a, Reach st.sys (f st a).sys) (l : List α) (st : RS) :
    Reach st.sys (l.foldl f st).sys := by
  induction l generalizing st with
  | nil => exact Reach.refl _
  | cons a as ih => exact (hf st a).trans (ih _)

theorem foldl_pair_reach {α β : Type} (f : RS × β → α → RS × β) (hf : ∀ x a, Reach x.1.sys (f x a).1.sys)
    (l : List α) (x : RS × β) : Reach x.1.sys (l.foldl f x).1.sys := by
  induction l generalizing x with
  | nil => exact Reach.refl _
  | cons a as ih => exact (hf x a).trans (ih _)

theorem retrieveOrdered_reach {hk : Hook} (hhk : HookOk hk) (st : RS) : Reach st.sys (retrieveOrdered hk st).1.sys := by
  unfold retrieveOrdered
  dsimp only
  have h0 : Reach st.sys (listClusterNames hk st).1.sys := pagedLoop_reach hhk _ _ _ _ _
  have key : ∀ (l : List String) (x : RS × List String), Reach x.1.sys
      (l.foldl (fun (acc : RS × List String) name =>
        match (acc.1.call hk (.cluster name)).2 with
        | some (.cluster (some v)) =>
          ((acc.1.call hk (.cluster name)).1, acc.2 ++ (clusterProxyAddrs v).filter fun a => !acc.2.contains a)
        | _ => ((acc.1.call hk (.cluster name)).1, acc.2)) x).1.sys := by
    intro l x
    apply foldl_pair_reach
    intro x name
    have := call_reach hhk x.1 (.cluster name)
    split <;> exact this
  exact (h0.trans (key (listClusterNames hk st).2 ((listClusterNames hk st).1, []))).trans ((listFailed_reach hhk _).trans (pagedLoop_reach hhk _ _ _ _ _))

theorem syncBody_reach {hk : Hook} (hhk : HookOk hk) (st : RS) (targets : List String) :
    Reach st.sys (syncBody hk st targets).sys := by
  unfold syncBody
  dsimp only
  have h0 := retrieveOrdered_reach hhk st
  split
  · simp only [log_sys]; exact h0
  · exact h0.trans (foldl_reach _ (fun st a => retrieveAndSend_reach hhk st a) _ _)

theorem syncMigrationState_reach {hk : Hook} (hhk : HookOk hk) (st : RS) (t : Task) :
    Reach st.sys (syncMigrationState hk st t).1.sys := by
  unfold syncMigrationState
  dsimp only
  split
  · exact Reach.refl _
  · rename_i mi _
    have h0 := call_reach hhk st (.commit t)
    split
    · have h1 := retrieveAndSend_reach hhk (st.call hk (.commit t)).1 mi.dstProxy
      split
      · exact (h0.trans h1).trans (retrieveAndSend_reach hhk _ _)
      · exact h0.trans h1
    · exact h0

theorem syncTasks_reach {hk : Hook} (hhk : HookOk hk) (st : RS) (l : List Task) :
    Reach st.sys (syncTasks hk st l).1.sys := by
  induction l generalizing st with
  | nil => exact Reach.refl _
  | cons t ts ih =>
    unfold syncTasks
    dsimp only
    have h0 := syncMigrationState_reach hhk st t
    split
    · exact h0.trans (ih _)
    · exact h0

theorem checkAndSync_reach {hk : Hook} (hhk : HookOk hk) (st : RS) (a : String) :
    Reach st.sys (checkAndSync hk st a).sys := by
  unfold checkAndSync
  dsimp only
  have h0 := call_reach hhk st (.connect a)
  split
  · have h1 := call_reach hhk (st.call hk (.connect a)).1 (.infoMgr a)
    split
    · exact (h0.trans h1).trans (syncTasks_reach hhk _ _)
    · exact h0.trans h1
  · exact h0

theorem migBody_reach {hk : Hook} (hhk : HookOk hk) (st : RS) : Reach st.sys (migBody hk st).sys := by
  unfold migBody
  dsimp only
  exact (retrieveProxies_reach hhk st).trans (foldl_reach _ (fun st a => checkAndSync_reach hhk st a) _ _)

theorem pingCheck_reach {hk : Hook} (hhk : HookOk hk) (n : Nat) (st : RS) (a : String) :
    Reach st.sys (pingCheck hk n st a).1.sys := by
  induction n generalizing st with
  | zero => exact Reach.refl _
  | succ i ih =>
    unfold pingCheck
    dsimp only
    have h0 := call_reach hhk st (.connect a)
    split
    · have h1 := call_reach hhk (st.call hk (.connect a)).1 (.ping a)
      split
      · exact h0.trans h1
      · exact (h0.trans h1).trans (ih _)
    · exact h0.trans (ih _)

theorem detectBody_reach {hk : Hook} (hhk : HookOk hk) (rep : String) (st : RS) :
    Reach st.sys (detectBody hk rep st).sys := by
  unfold detectBody
  dsimp only
  refine (retrieveProxies_reach hhk st).trans (foldl_reach _ ?_ _ _)
  intro st a
  have h0 := pingCheck_reach hhk Um.Gen.Coord.PING_RETRY st a
  split
  · exact h0.trans (call_reach hhk _ _)
  · exact h0

theorem failoverBody_reach {hk : Hook} (hhk : HookOk hk) (st : RS) : Reach st.sys (failoverBody hk st).sys := by
  unfold failoverBody
  dsimp only
  have h0 := call_reach hhk st .getFailures
  split
  · exact h0.trans (foldl_reach _ (fun st a => call_reach hhk st _) _ _)
  · exact h0

theorem runBody_reach {hk : Hook} (hhk : HookOk hk) (r : Round0) (st : RS) : Reach st.sys (runBody hk r st).sys := by
  unfold runBody
  cases r.kind with
  | sync => exact syncBody_reach hhk st _
  | mig => exact migBody_reach hhk st
  | detect => exact detectBody_reach hhk _ st
  | failover => exact failoverBody_reach hhk st

theorem runRound0_reach (s : Sys) (r : Round0) : Reach s (runRound0 s r).1 := by
  unfold runRound0
  exact runBody_reach noHook_ok r (RS.start s r)

theorem nestHook_ok (nested : List (Nat × Round0)) : HookOk (nestHook nested) := by
  intro k s
  unfold nestHook
  split
  · exact runRound0_reach s _
  · exact Reach.refl s

/-- **a round, under any fault plan and with any nested rounds, is a sequence of delivered calls** -/
theorem runRound_reach (s : Sys) (r : Round) : Reach s (runRound s r).1 := by
  unfold runRound
  exact runBody_reach (nestHook_ok r.nested) r.base (RS.start s r.base)

theorem flush_reach (s : Sys) (cs : List String) : Reach s (s.flush cs).1 := by
  unfold Sys.flush
  dsimp only
  have h := Reach.single (Step.bag s (s.bag.map fun e => (0, e.2)))
  exact h.trans (tick_reach { sys := { s with bag := s.bag.map fun e => (0, e.2) }, n := 0, faults := [], choices := cs,
                              crashed := false, trace := [], issued := [] })

end Um.Coord
