import UmProofs.BrokerSlotsCommitDst
/-!
# C01, `commit_migration`: list-level preservation (`InvL.commit`)

Given `InvL cs` and a migrating-out entry `m` of `cs`, the three passes of `commit_migration`
(`dropSrc`, `commitDst`, `compactSlots`) with `(m.ranges, m.mm)` remove exactly `m` and its importing
twin, merge `m.ranges` into the twin's half, and `InvL` holds again; `compactSlots` is the identity.
-/
namespace Um.Broker
open Um Um.Slots

/-! ## `compactSlots` on normal-form chunk lists -/

theorem compactSlots_of_normL {cs : List Chunk} (h : NormL cs) : compactSlots cs = cs := by
  unfold compactSlots
  conv => rhs; rw [← List.map_id cs]
  apply List.map_congr_left
  intro c hc
  obtain ⟨h1, h2⟩ := h c hc
  have hs0 : c.stable0.map compact = c.stable0 := by
    cases hh : c.stable0 with
    | none => rfl
    | some rl => simp only [Option.map_some]; rw [compact_of_normal rl (h1 rl (by simp [Chunk.stables, hh]))]
  have hs1 : c.stable1.map compact = c.stable1 := by
    cases hh : c.stable1 with
    | none => rfl
    | some rl => simp only [Option.map_some]; rw [compact_of_normal rl (h1 rl (by simp [Chunk.stables, hh]))]
  have hm : ∀ l : List MigStore, (∀ m ∈ l, m ∈ c.migs) →
      l.map (fun m => { m with ranges := compact m.ranges }) = l := by
    intro l hl
    conv => rhs; rw [← List.map_id l]
    apply List.map_congr_left
    intro m hm
    rw [compact_of_normal m.ranges (h2 m (hl m hm)).1]
    rfl
  have hm0 := hm c.mig0 (fun m hm => Chunk.mem_migs.mpr (Or.inl hm))
  have hm1 := hm c.mig1 (fun m hm => Chunk.mem_migs.mpr (Or.inr hm))
  simp only [hs0, hs1, hm0, hm1, id]

/-! ## the rewritten chunk -/

theorem mem_stableSlots {c : Chunk} {x : Nat} :
    x ∈ c.stableSlots ↔ ∃ rl ∈ c.stables, x ∈ slotsOf rl := by
  simp [Chunk.stableSlots]

theorem mergeSt_spec (st : Option RangeList) (r : RangeList) (hst : ∀ rl ∈ st.toList, NormalRanges rl)
    (hr : NormalRanges r) (hd : ∀ rl ∈ st.toList, ∀ x ∈ slotsOf rl, x ∉ slotsOf r) :
    (∀ rl ∈ (mergeSt st r).toList, NormalRanges rl) ∧
    ((mergeSt st r).toList.flatMap slotsOf).Perm (slotsOf r ++ st.toList.flatMap slotsOf) := by
  cases st with
  | none => simp [mergeSt, hr]
  | some rl =>
    have h := mergeAnother_spec rl r (hst rl (by simp)) hr (hd rl (by simp))
    simp only [mergeSt, Option.toList_some, List.mem_singleton, forall_eq, List.flatMap_cons,
      List.flatMap_nil, List.append_nil]
    exact ⟨h.2, h.1.trans List.perm_append_comm⟩

theorem CommitChunk.spec {r : RangeList} {mm : MigMeta} {c c' : Chunk} (h : CommitChunk r mm c c')
    (hn : NormChunk c) (hr : NormalRanges r) (hd : ∀ x ∈ c.stableSlots, x ∉ slotsOf r) :
    NormChunk c' ∧ c'.stableSlots.Perm (slotsOf r ++ c.stableSlots) ∧
    (∀ m ∈ c'.mig0, m ∈ c.mig0) ∧ (∀ m ∈ c'.mig1, m ∈ c.mig1) := by
  have hd' : ∀ rl ∈ c.stables, ∀ x ∈ slotsOf rl, x ∉ slotsOf r :=
    fun rl hrl x hx => hd x (mem_stableSlots.mpr ⟨rl, hrl, hx⟩)
  rcases h with ⟨_, rfl⟩ | ⟨_, _, rfl⟩
  · have hs := mergeSt_spec c.stable0 r (fun rl h => hn.1 rl (by simp [Chunk.stables, h])) hr
      (fun rl h => hd' rl (by simp [Chunk.stables, h]))
    refine ⟨⟨?_, ?_⟩, ?_, fun m hm => List.mem_of_mem_eraseP hm, fun m hm => hm⟩
    · intro rl hrl
      simp only [Chunk.stables, List.mem_append] at hrl
      rcases hrl with hrl | hrl
      · exact hs.1 rl hrl
      · exact hn.1 rl (by simp [Chunk.stables, hrl])
    · intro m hm
      apply hn.2 m
      rcases Chunk.mem_migs.mp hm with hm | hm
      · exact Chunk.mem_migs.mpr (Or.inl (List.mem_of_mem_eraseP hm))
      · exact Chunk.mem_migs.mpr (Or.inr hm)
    · simp only [Chunk.stableSlots, Chunk.stables, List.flatMap_append]
      rw [← List.append_assoc]
      exact List.Perm.append_right _ hs.2
  · have hs := mergeSt_spec c.stable1 r (fun rl h => hn.1 rl (by simp [Chunk.stables, h])) hr
      (fun rl h => hd' rl (by simp [Chunk.stables, h]))
    refine ⟨⟨?_, ?_⟩, ?_, fun m hm => hm, fun m hm => List.mem_of_mem_eraseP hm⟩
    · intro rl hrl
      simp only [Chunk.stables, List.mem_append] at hrl
      rcases hrl with hrl | hrl
      · exact hn.1 rl (by simp [Chunk.stables, hrl])
      · exact hs.1 rl hrl
    · intro m hm
      apply hn.2 m
      rcases Chunk.mem_migs.mp hm with hm | hm
      · exact Chunk.mem_migs.mpr (Or.inl hm)
      · exact Chunk.mem_migs.mpr (Or.inr (List.mem_of_mem_eraseP hm))
    · simp only [Chunk.stableSlots, Chunk.stables, List.flatMap_append]
      refine (List.Perm.append_left _ hs.2).trans ?_
      exact List.perm_append_comm_assoc _ _ _

/-! ## entries: what `keepE` does to the migrating-out list -/

theorem outs_filter (p : MigStore → Bool) (l : List MigStore) : outs (l.filter p) = (outs l).filter p := by
  simp only [outs, List.filter_filter]
  apply List.filter_congr
  intro x _
  exact Bool.and_comm _ _

theorem ins_filter_keepE (r : RangeList) (mm : MigMeta) (l : List MigStore) :
    ins (l.filter (keepE r mm)) = ins l := by
  simp only [ins, List.filter_filter]
  apply List.filter_congr
  intro x _
  cases h : x.isMigrating <;> simp [keepE, h]

theorem keys_filter_keepE (r : RangeList) (mm : MigMeta) (l : List MigStore)
    (hl : ∀ x ∈ l, x.isMigrating = true) :
    keys (l.filter (keepE r mm)) = (keys l).filter (fun k => k != (r, mm)) := by
  unfold keys
  rw [List.filter_map]
  congr 1
  apply List.filter_congr
  intro x hx
  simp only [keepE, hl x hx, Bool.true_and, Function.comp, MigStore.key]
  cases h1 : x.ranges == r <;> cases h2 : x.mm == mm <;> simp_all [bne, Prod.ext_iff]

/-- the slots of `m` leave the migrating-out part when `m` is filtered out -/
theorem outSlots_filter_keepE {l : List MigStore} {m : MigStore} (hm : m ∈ outs l)
    (hk : (keys (outs l)).Nodup) :
    (outSlots l).Perm (slotsOf m.ranges ++ outSlots (l.filter (keepE m.ranges m.mm))) := by
  have hO : (outs l).Nodup := nodup_of_map_nodup _ _ hk
  have h1 : (outs l).filter (keepE m.ranges m.mm) = (outs l).erase m := by
    rw [hO.erase_eq_filter]
    apply List.filter_congr
    intro x hx
    have hxm := (mem_outs.mp hx).2
    by_cases hxe : x = m
    · subst hxe; simp [keepE, hxm]
    · have hkey : x.key ≠ m.key := fun hkk => hxe (eq_of_nodup_map MigStore.key _ hk x m hx hm hkk)
      have : ¬ (x.ranges = m.ranges ∧ x.mm = m.mm) := by
        intro ⟨a, b⟩; apply hkey; simp [MigStore.key, a, b]
      simp only [keepE, hxm, Bool.true_and]
      have hne : (x != m) = true := by simpa using hxe
      rw [hne]
      cases h1 : x.ranges == m.ranges <;> cases h2 : x.mm == m.mm <;> simp_all
  unfold outSlots
  rw [outs_filter, h1]
  have := List.Perm.flatMap_right (fun m : MigStore => slotsOf m.ranges) (List.perm_cons_erase hm)
  simpa using this

/-! ## the list-level theorem -/

/-- B, list level -/
theorem InvL.commit {cs : List Chunk} (hinv : InvL cs) {m : MigStore} (hm : m ∈ outs (migsOf cs)) :
    InvL (commitDst m.ranges m.mm (dropSrc m.ranges m.mm cs)) ∧
    compactSlots (commitDst m.ranges m.mm (dropSrc m.ranges m.mm cs)) =
      commitDst m.ranges m.mm (dropSrc m.ranges m.mm cs) ∧
    (commitDst m.ranges m.mm (dropSrc m.ranges m.mm cs)).length = cs.length ∧
    (stableSlotsOf (commitDst m.ranges m.mm (dropSrc m.ranges m.mm cs))).Perm
      (slotsOf m.ranges ++ stableSlotsOf cs) ∧
    (∃ m' ∈ ins (migsOf cs), m'.key = m.key) := by
  obtain ⟨hpos, ⟨htw, hek⟩, hnorm, hperm⟩ := hinv
  have hslot : SlotL cs := ⟨hnorm, hperm⟩
  have hkO := nodup_keys_of_nodup_ekey hek
  -- the twin exists and survives the first loop
  have hK : m.key ∈ keys (ins (migsOf cs)) := htw.mem_iff.mp (List.mem_map.mpr ⟨m, hm, rfl⟩)
  obtain ⟨m', hm'I, hm'k⟩ := List.mem_map.mp hK
  have hm1 : migsOf (dropSrc m.ranges m.mm cs) = (migsOf cs).filter (keepE m.ranges m.mm) := migsOf_dropSrc _ _ _
  have hm'1 : m' ∈ migsOf (dropSrc m.ranges m.mm cs) := by
    have : m' ∈ ins (migsOf (dropSrc m.ranges m.mm cs)) := by rw [hm1, ins_filter_keepE]; exact hm'I
    exact (mem_ins.mp this).1
  have hm'T : isTwinOf m.ranges m.mm m' = true := isTwinOf_iff.mpr ⟨(mem_ins.mp hm'I).2, hm'k⟩
  -- normality / disjointness of the merged ranges
  have hmM : m ∈ migsOf cs := (mem_outs.mp hm).1
  have hr : NormalRanges m.ranges := (hnorm.of_mem_migsOf hmM).1
  have hsub_r : ∀ x ∈ slotsOf m.ranges, x ∈ outSlots (migsOf cs) := by
    intro x hx
    unfold outSlots
    exact List.mem_flatMap.mpr ⟨m, hm, hx⟩
  have hdis : ∀ x ∈ stableSlotsOf cs, x ∉ slotsOf m.ranges := by
    intro x hx hxr
    exact (List.nodup_append.mp hslot.nodup_split).2.2 x hx x (hsub_r x hxr) rfl
  -- structure of the second loop
  rcases commitDst_spec m.ranges m.mm (dropSrc m.ranges m.mm cs) with ⟨h1, _⟩ | ⟨pre, c, post, c', h1, h2, _, h4⟩
  · have := h1 m' hm'1; rw [hm'T] at this; cases this
  have hget : (dropSrc m.ranges m.mm cs)[pre.length]? = some c := by rw [h1]; simp
  have hset : commitDst m.ranges m.mm (dropSrc m.ranges m.mm cs) = (dropSrc m.ranges m.mm cs).set pre.length c' := by
    rw [h2, h1, set_split]
  have hcmem : c ∈ dropSrc m.ranges m.mm cs := List.mem_of_getElem? hget
  have hnorm1 := hnorm.dropSrc m.ranges m.mm
  have hpos1 := hpos.dropSrc m.ranges m.mm
  have hcdis : ∀ x ∈ c.stableSlots, x ∉ slotsOf m.ranges := by
    intro x hx
    apply hdis x
    rw [← stableSlotsOf_dropSrc m.ranges m.mm cs]
    exact List.mem_flatMap.mpr ⟨c, hcmem, hx⟩
  obtain ⟨hc'n, hc'p, hc's0, hc's1⟩ := h4.spec (hnorm1 c hcmem) hr hcdis
  have hnorm2 : NormL (commitDst m.ranges m.mm (dropSrc m.ranges m.mm cs)) := by
    rw [hset]; exact hnorm1.set _ _ hc'n
  have hpos2 : PosL (commitDst m.ranges m.mm (dropSrc m.ranges m.mm cs)) := by
    rw [hset]; exact hpos1.set _ _ ((hpos1 _ _ hget).of_sub hc's0 hc's1)
  have hlen : (commitDst m.ranges m.mm (dropSrc m.ranges m.mm cs)).length = cs.length := by
    rw [hset, List.length_set, length_dropSrc]
  have hst : (stableSlotsOf (commitDst m.ranges m.mm (dropSrc m.ranges m.mm cs))).Perm
      (slotsOf m.ranges ++ stableSlotsOf cs) := by
    rw [hset, ← stableSlotsOf_dropSrc m.ranges m.mm cs]
    exact flatMap_set_add Chunk.stableSlots _ _ c c' _ hget hc'p
  -- entries
  have hm2 : migsOf (commitDst m.ranges m.mm (dropSrc m.ranges m.mm cs)) =
      ((migsOf cs).filter (keepE m.ranges m.mm)).eraseP (isTwinOf m.ranges m.mm) := by
    rw [migsOf_commitDst, hm1]
  have hperm2 : (ownedOf (commitDst m.ranges m.mm (dropSrc m.ranges m.mm cs))).Perm (List.range SLOT_NUM) := by
    refine (ownedOf_perm _).trans ?_
    refine List.Perm.trans ?_ ((ownedOf_perm cs).symm.trans hperm)
    rw [hm2]
    have e1 : outSlots (((migsOf cs).filter (keepE m.ranges m.mm)).eraseP (isTwinOf m.ranges m.mm)) =
        outSlots ((migsOf cs).filter (keepE m.ranges m.mm)) := by
      unfold outSlots; rw [outs_eraseP_twin]
    rw [e1]
    have p1 := outSlots_filter_keepE hm hkO
    refine (List.Perm.append_right _ hst).trans ?_
    refine List.Perm.trans ?_ (List.Perm.append_left _ p1.symm)
    rw [List.append_assoc]
    exact List.perm_append_comm_assoc _ _ _
  have hslot2 : SlotL (commitDst m.ranges m.mm (dropSrc m.ranges m.mm cs)) := ⟨hnorm2, hperm2⟩
  refine ⟨⟨hpos2, ⟨?_, hslot2.nodup_ekey⟩, hslot2⟩, compactSlots_of_normL hnorm2, hlen, hst, m', hm'I, hm'k⟩
  rw [hm2, outs_eraseP_twin, keys_ins_eraseP_twin, ins_filter_keepE, outs_filter,
    keys_filter_keepE _ _ _ (fun x hx => (mem_outs.mp hx).2)]
  have : (keys (outs (migsOf cs))).filter (fun k => k != (m.ranges, m.mm)) =
      (keys (outs (migsOf cs))).erase (m.ranges, m.mm) := (hkO.erase_eq_filter _).symm
  rw [this]
  exact htw.erase _

end Um.Broker
