import UmProofs.BrokerSlotsPlanB
/-!
# C01, planning layer — one iteration of the scale-out planning loop (`srcBody`) and the loop

`loopSlots rl st` = slots still at the source ++ slots collected for the current destination ++
slots of the tasks emitted so far. One iteration of `srcBody` permutes `loopSlots`, keeps
well-formedness and the side invariants (`SrcInv`), keeps `NormalRanges` of the source list, and
every emitted task has a non-empty normal-form range list. `srcWhile_spec` lifts this through
`iterate`.

The moved piece is `(end-k+1, end)` with `k = min need surplus`; it is well-formed because
`k ≥ 1`, which is where `curNum < dstFinal` (from `1 ≤ average`) enters.
-/
namespace Um.Broker.Plan
open Um Um.Slots Um.Broker

def outSlots (out : List MigSlots) : List Nat := out.flatMap fun m => slotsOf m.ranges

def loopSlots (rl : RangeList) (st : LoopSt) : List Nat :=
  slotsOf rl ++ slotsOf st.curSlots ++ outSlots st.out

theorem outSlots_append (a b : List MigSlots) : outSlots (a ++ b) = outSlots a ++ outSlots b := by
  simp [outSlots]

theorem outSlots_single (m : MigSlots) : outSlots [m] = slotsOf m.ranges := by simp [outSlots]

theorem count_loopSlots (rl : RangeList) (st : LoopSt) (x : Nat) :
    (loopSlots rl st).count x =
      (slotsOf rl).count x + (slotsOf st.curSlots).count x + (outSlots st.out).count x := by
  simp only [loopSlots, List.count_append]

/-- a planned task: non-empty normal-form ranges -/
def GoodTask (m : MigSlots) : Prop := NormalRanges m.ranges ∧ m.ranges ≠ []

/-- shape of a planned task: `GoodTask`, the new epoch, and the destination half is the `j`-th
destination master (`base` = number of source chunks for scale-out, `0` for scale-down) -/
def TaskShape (epoch base dstMasterNum : Nat) (m : MigSlots) : Prop :=
  GoodTask m ∧ ∃ i p j, j < dstMasterNum ∧
    m.mm = { epoch := epoch, srcChunk := i, srcPart := p, dstChunk := base + j / 2, dstPart := j % 2 }

/-- result of cutting a piece off a source list -/
structure CutOk (rl cur rl' cur' : List Range) : Prop where
  wfRl : WFRanges rl'
  wfCur : WFRanges cur'
  ne : cur' ≠ []
  count : ∀ x, (slotsOf rl').count x + (slotsOf cur').count x = (slotsOf rl).count x + (slotsOf cur).count x
  normal : NormalRanges rl → NormalRanges rl'

/-- taking `k ≥ 1` slots from the *end* of the last range (or the whole last range) -/
theorem cutLast_ok {rl cur : List Range} {last : Range} (hl : rl.getLast? = some last)
    (hwf : WFRanges rl) (hc : WFRanges cur) (k : Nat) (hk : 1 ≤ k) :
    CutOk rl cur (if k ≥ rangeNum last then rl.dropLast else rl.dropLast ++ [(last.1, last.2 - k)])
      (if k ≥ rangeNum last then cur ++ [last] else cur ++ [(last.2 - k + 1, last.2)]) := by
  have hrl := eq_dropLast_append hl
  have hwf' : WFRanges (rl.dropLast ++ [last]) := hrl ▸ hwf
  obtain ⟨hdl, hlast⟩ := wf_append.mp hwf'
  have hlast : last.1 ≤ last.2 := wf_single.mp hlast
  have hs : slotsOf rl = slotsOf rl.dropLast ++ rangeSlots last := by
    conv => lhs; rw [hrl]
    rw [slotsOf_append, slotsOf_single]
  by_cases hge : k ≥ rangeNum last
  · simp only [hge, if_true]
    refine ⟨hdl, wf_append.mpr ⟨hc, wf_single.mpr hlast⟩, by simp, ?_, ?_⟩
    · intro x
      rw [hs, slotsOf_append, slotsOf_single]
      simp only [List.count_append]
      omega
    · intro hn
      rw [hrl] at hn
      exact normal_append_left _ _ hn
  · simp only [hge, if_false]
    have hlt : k < last.2 - last.1 + 1 := by unfold rangeNum at hge; omega
    have hsplit := rangeSlots_adjacent last.1 (last.2 - k) last.2 (by omega) (by omega)
    refine ⟨wf_append.mpr ⟨hdl, wf_single.mpr (by simp only; omega)⟩,
      wf_append.mpr ⟨hc, wf_single.mpr (by simp only; omega)⟩, by simp, ?_, ?_⟩
    · intro x
      rw [hs]
      have : rangeSlots last = rangeSlots (last.1, last.2) := rfl
      rw [this, hsplit]
      simp only [slotsOf_append, slotsOf_single, List.count_append]
      omega
    · intro hn
      rw [hrl] at hn
      exact normal_change_last _ last _ hn rfl (by simp only; omega)

/-- `RangeList::new` of the collected pieces: a good task with the same slots -/
theorem rlNew_ok {cur : List Range} (hwf : WFRanges cur) (hne : cur ≠ []) (hnd : (slotsOf cur).Nodup) :
    NormalRanges (rlNew cur) ∧ rlNew cur ≠ [] ∧ ∀ x, (slotsOf (rlNew cur)).count x = (slotsOf cur).count x := by
  obtain ⟨hp, hn⟩ := compact_spec cur hwf hnd
  refine ⟨hn, ?_, fun x => count_of_perm hp x⟩
  intro h
  have h1 : slotsOf (compact cur) = [] := by
    have : compact cur = [] := h
    rw [this]; rfl
  have := hp.length_eq
  rw [h1] at this
  exact slotsOf_ne_nil hwf hne (List.eq_nil_of_length_eq_zero this.symm)

/-- the loop invariant of `srcWhile` for source master `(i, p)` -/
structure SrcInv (P : OutParams) (i p : Nat) (rl : RangeList) (st : LoopSt) : Prop where
  wfRl : WFRanges rl
  wfCur : WFRanges st.curSlots
  nodup : (loopSlots rl st).Nodup
  side : st.dstIdx ≠ P.dstMasterNum → st.curNum < dstFinalOf P st.dstIdx
  le : st.dstIdx ≤ P.dstMasterNum
  pending : st.curSlots ≠ [] → st.dstIdx ≠ P.dstMasterNum ∧ slotsNum rl > srcFinalOf P i p
  tasks : ∀ m ∈ st.out, TaskShape P.epoch P.srcChunkNum P.dstMasterNum m

theorem cut_nodup {rl cur rl' cur' : List Range} {out : List Nat} (hc : CutOk rl cur rl' cur')
    (hnd : (slotsOf rl ++ slotsOf cur ++ out).Nodup) : (slotsOf cur').Nodup := by
  apply nodup_of_count
  intro x
  have h1 := count_of_nodup hnd x
  have h2 := hc.count x
  simp only [List.count_append] at h1
  omega

/-- an iteration that emits a task -/
theorem srcInv_emit {P : OutParams} {i p : Nat} {rl rl' cur' : RangeList} {st : LoopSt}
    (h : SrcInv P i p rl st) (hne : st.dstIdx ≠ P.dstMasterNum) (hc : CutOk rl st.curSlots rl' cur')
    (st' : LoopSt) (hside : st'.dstIdx ≠ P.dstMasterNum → st'.curNum < dstFinalOf P st'.dstIdx)
    (hle : st'.dstIdx ≤ P.dstMasterNum) (hcs : st'.curSlots = [])
    (hout : st'.out = st.out ++ [{ ranges := rlNew cur',
                                   mm := { epoch := P.epoch, srcChunk := i, srcPart := p,
                                           dstChunk := P.srcChunkNum + st.dstIdx / 2,
                                           dstPart := st.dstIdx % 2 } }]) :
    SrcInv P i p rl' st' ∧ (loopSlots rl' st').Perm (loopSlots rl st) := by
  have hnd' := cut_nodup hc h.nodup
  obtain ⟨hn, hne', hcnt⟩ := rlNew_ok hc.wfCur hc.ne hnd'
  have hcount : ∀ x, (loopSlots rl' st').count x = (loopSlots rl st).count x := by
    intro x
    rw [count_loopSlots, count_loopSlots, hout, hcs]
    simp only [outSlots_append, outSlots_single, List.count_append, slotsOf_nil, List.count_nil]
    have := hc.count x
    have := hcnt x
    omega
  refine ⟨⟨hc.wfRl, hcs ▸ wf_nil, ?_, hside, hle, fun hx => absurd hcs hx, ?_⟩, perm_of_count hcount⟩
  · apply nodup_of_count
    intro x
    rw [hcount]
    exact count_of_nodup h.nodup x
  · intro m hm
    rw [hout] at hm
    rcases List.mem_append.mp hm with hm | hm
    · exact h.tasks m hm
    · have := List.mem_singleton.mp hm
      subst this
      exact ⟨⟨hn, hne'⟩, i, p, st.dstIdx, by have := h.le; omega, rfl⟩

/-- an iteration that only collects a piece -/
theorem srcInv_keep {P : OutParams} {i p : Nat} {rl rl' cur' : RangeList} {st : LoopSt}
    (h : SrcInv P i p rl st) (hne : st.dstIdx ≠ P.dstMasterNum) (hc : CutOk rl st.curSlots rl' cur')
    (cn : Nat) (hside : cn < dstFinalOf P st.dstIdx) (hpend : slotsNum rl' > srcFinalOf P i p) :
    SrcInv P i p rl' { st with curSlots := cur', curNum := cn } ∧
      (loopSlots rl' { st with curSlots := cur', curNum := cn }).Perm (loopSlots rl st) := by
  have hcount : ∀ x, (loopSlots rl' { st with curSlots := cur', curNum := cn }).count x =
      (loopSlots rl st).count x := by
    intro x
    rw [count_loopSlots, count_loopSlots]
    have := hc.count x
    simp only
    omega
  refine ⟨⟨hc.wfRl, hc.wfCur, ?_, fun _ => hside, h.le, fun _ => ⟨hne, hpend⟩, h.tasks⟩, perm_of_count hcount⟩
  apply nodup_of_count
  intro x
  rw [hcount]
  exact count_of_nodup h.nodup x

/-- what one iteration guarantees about its result -/
def SrcStep (P : OutParams) (i p : Nat) (rl : RangeList) (st : LoopSt) (x : RangeList × LoopSt) : Prop :=
  SrcInv P i p x.1 x.2 ∧ (loopSlots x.1 x.2).Perm (loopSlots rl st) ∧ (NormalRanges rl → NormalRanges x.1)

def IterPost {α : Type} (Q D : α → Prop) : Iter α → Prop
  | .done a => Q a ∧ D a
  | .cont a => Q a

/-- **one iteration of `srcBody`** -/
theorem srcBody_step (P : OutParams) (hav : 1 ≤ P.average) (i p : Nat) (rl : RangeList) (st : LoopSt)
    (it : Iter (RangeList × LoopSt)) (h : SrcInv P i p rl st) (hb : srcBody P i p (rl, st) = R.ok it) :
    IterPost (SrcStep P i p rl st) (fun x => x.2.curSlots = []) it := by
  have hself : SrcStep P i p rl st (rl, st) := ⟨h, List.Perm.refl _, id⟩
  have hempty1 : st.dstIdx = P.dstMasterNum → st.curSlots = [] := by
    intro he; false_or_by_contra; rename_i hx; exact (h.pending hx).1 he
  have hempty2 : slotsNum rl ≤ srcFinalOf P i p → st.curSlots = [] := by
    intro he; false_or_by_contra; rename_i hx; have := (h.pending hx).2; omega
  unfold srcBody at hb
  dsimp only at hb
  split at hb
  · rename_i heq
    injection hb with hb; subst hb
    exact ⟨hself, hempty1 (by simpa using heq)⟩
  rename_i hne
  have hne : st.dstIdx ≠ P.dstMasterNum := by simpa using hne
  split at hb
  · rename_i hle
    injection hb with hb; subst hb
    exact ⟨hself, hempty2 hle⟩
  rename_i hgt
  split at hb
  · cases hb
  split at hb
  · cases hb
  rename_i last hlast
  have hk1 : 1 ≤ min (dstFinalOf P st.dstIdx - st.curNum) (slotsNum rl - srcFinalOf P i p) := by
    have := h.side hne
    omega
  have hcut := cutLast_ok hlast h.wfRl h.wfCur _ hk1
  generalize min (dstFinalOf P st.dstIdx - st.curNum) (slotsNum rl - srcFinalOf P i p) = k at hb hcut
  generalize (if k ≥ rangeNum last then rl.dropLast else rl.dropLast ++ [(last.1, last.2 - k)]) = rl' at hb hcut
  generalize (if k ≥ rangeNum last then st.curSlots ++ [last] else st.curSlots ++ [(last.2 - k + 1, last.2)]) = cur' at hb hcut
  generalize (if k ≥ rangeNum last then st.curNum + rangeNum last else st.curNum + k) = cn' at hb
  have hnext : st.dstIdx + 1 ≠ P.dstMasterNum → 0 < dstFinalOf P (st.dstIdx + 1) := by
    intro _; unfold dstFinalOf; omega
  have hle1 : st.dstIdx + 1 ≤ P.dstMasterNum := by have := h.le; omega
  split at hb
  · -- a task is emitted
    by_cases hfull : cn' ≥ dstFinalOf P st.dstIdx
    · simp only [hfull, if_true] at hb
      split at hb
      · injection hb with hb; subst hb
        obtain ⟨h1, h2⟩ := srcInv_emit h hne hcut { dstIdx := st.dstIdx + 1, curSlots := [], curNum := 0, out := _ } hnext hle1 rfl rfl
        exact ⟨⟨h1, h2, hcut.normal⟩, rfl⟩
      · injection hb with hb; subst hb
        obtain ⟨h1, h2⟩ := srcInv_emit h hne hcut { dstIdx := st.dstIdx + 1, curSlots := [], curNum := 0, out := _ } hnext hle1 rfl rfl
        exact ⟨h1, h2, hcut.normal⟩
    · simp only [hfull, if_false] at hb
      split at hb
      · injection hb with hb; subst hb
        obtain ⟨h1, h2⟩ := srcInv_emit h hne hcut { dstIdx := st.dstIdx, curSlots := [], curNum := cn', out := _ } (fun _ => by show cn' < dstFinalOf P st.dstIdx; omega) h.le rfl rfl
        exact ⟨⟨h1, h2, hcut.normal⟩, rfl⟩
      · injection hb with hb; subst hb
        obtain ⟨h1, h2⟩ := srcInv_emit h hne hcut { dstIdx := st.dstIdx, curSlots := [], curNum := cn', out := _ } (fun _ => by show cn' < dstFinalOf P st.dstIdx; omega) h.le rfl rfl
        exact ⟨h1, h2, hcut.normal⟩
  · rename_i hcond
    injection hb with hb; subst hb
    have hcond' : ¬ (cn' ≥ dstFinalOf P st.dstIdx) ∧ ¬ (slotsNum rl' ≤ srcFinalOf P i p) := by
      simpa using hcond
    obtain ⟨h1, h2⟩ := srcInv_keep h hne hcut cn' (by omega) (by omega)
    exact ⟨h1, h2, hcut.normal⟩

/-- **the planning loop for one source master**: slots are permuted between the source list and
the emitted tasks, nothing stays in `curSlots`, the source list stays in normal form -/
theorem srcWhile_spec (P : OutParams) (hav : 1 ≤ P.average) (i p fuel : Nat) (rl rl' : RangeList)
    (st st' : LoopSt) (h : SrcInv P i p rl st) (hw : srcWhile P i p fuel rl st = R.ok (rl', st')) :
    SrcInv P i p rl' st' ∧ (loopSlots rl' st').Perm (loopSlots rl st) ∧
      (NormalRanges rl → NormalRanges rl') ∧ st'.curSlots = [] := by
  unfold srcWhile at hw
  have := iterate_ind (srcBody P i p) (SrcStep P i p rl st)
    (fun x => SrcStep P i p rl st x ∧ x.2.curSlots = [])
    (fun a a' ha hf => by
      have := srcBody_step P hav i p a.1 a.2 _ ha.1 hf
      exact ⟨this.1, this.2.1.trans ha.2.1, fun hn => this.2.2 (ha.2.2 hn)⟩)
    (fun a a' ha hf => by
      have := srcBody_step P hav i p a.1 a.2 _ ha.1 hf
      exact ⟨⟨this.1.1, this.1.2.1.trans ha.2.1, fun hn => this.1.2.2 (ha.2.2 hn)⟩, this.2⟩)
    fuel (rl, st) (rl', st') ⟨h, List.Perm.refl _, id⟩ hw
  exact ⟨this.1.1, this.1.2.1, this.1.2.2, this.2⟩

end Um.Broker.Plan
