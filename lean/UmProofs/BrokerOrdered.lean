import UmModel.BrokerOps
/-!
# Ordered-proxy mode (`enable_ordered_proxy = true`): base facts shared by all broker proofs

* what `generate_free_chunks_for_ordered_proxy_index` (`generateFreeChunksOrdered`) hands out:
  pairs of distinct free healthy proxies whose indices are `first, first+1, …` in order;
* `allocChunks` in either mode;
* the mode flag `Store.ordered` is changed by no operation of the running broker; the
  pseudo-operation `Op.setOrdered` changes it only on a store on which nothing has happened.

Self-contained (imports the model only) so that every proof layer can use it.
-/
namespace Um.Broker
open Um Um.Slots

namespace Ord

theorem bindOk {α β : Type} {x : R α} {f : α → R β} {b : β} (h : (x >>= f) = R.ok b) :
    ∃ a, x = R.ok a ∧ f a = R.ok b := by
  cases x with
  | ok a => exact ⟨a, rfl, h⟩
  | err e => cases h
  | panic w => cases h
  | badChoice w => cases h

/-! ## `pairUp` -/

theorem pairUp_length : ∀ (l : List ProxyRes), (pairUp l).length = l.length / 2
  | [] => by simp [pairUp]
  | [_] => by simp [pairUp]
  | a :: b :: rest => by
    simp only [pairUp, List.length_cons, pairUp_length rest]
    omega

theorem pairUp_flat : ∀ (l : List ProxyRes), l.length % 2 = 0 →
    (pairUp l).flatMap (fun pr => [pr.1, pr.2]) = l
  | [], _ => by simp [pairUp]
  | [_], h => by simp at h
  | a :: b :: rest, h => by
    have h' : rest.length % 2 = 0 := by simp only [List.length_cons] at h; omega
    simp only [pairUp, List.flatMap_cons, pairUp_flat rest h', List.cons_append, List.nil_append]

theorem pairUp_mem : ∀ (l : List ProxyRes) (pr : ProxyRes × ProxyRes), pr ∈ pairUp l → pr.1 ∈ l ∧ pr.2 ∈ l
  | [], pr, h => by simp [pairUp] at h
  | [_], pr, h => by simp [pairUp] at h
  | a :: b :: rest, pr, h => by
    simp only [pairUp, List.mem_cons] at h
    rcases h with rfl | h
    · simp
    · have := pairUp_mem rest pr h
      simp [this.1, this.2]

/-! ## `orderedPick` -/

theorem orderedPick_ok (free : List ProxyRes) : ∀ (addrs : List String) (i : Nat) (picked : List ProxyRes),
    orderedPick free i addrs = R.ok picked →
    picked.map (·.addr) = addrs ∧ picked.map (·.index) = List.range' i addrs.length ∧
    ∀ p ∈ picked, free.find? (·.addr == p.addr) = some p := by
  intro addrs
  induction addrs with
  | nil =>
    intro i picked h
    simp only [orderedPick] at h
    cases h
    simp
  | cons a rest ih =>
    intro i picked h
    simp only [orderedPick] at h
    split at h
    · cases h
    · rename_i p hp
      split at h
      · cases h
      · rename_i hidx
        obtain ⟨tl, htl, h⟩ := bindOk h
        cases h
        obtain ⟨h1, h2, h3⟩ := ih _ _ htl
        have hpa : p.addr = a := by
          have := List.find?_some hp
          simpa using this
        have hpi : p.index = i := by simpa using hidx
        refine ⟨by simp [hpa, h1], by simp [hpi, h2, List.range'_succ], ?_⟩
        intro q hq
        simp only [List.mem_cons] at hq
        rcases hq with rfl | hq
        · rw [hpa]; exact hp
        · exact h3 q hq

/-- the picked proxies are pairwise distinct (their indices are) -/
theorem orderedPick_nodup {free : List ProxyRes} {addrs : List String} {i : Nat} {picked : List ProxyRes}
    (h : orderedPick free i addrs = R.ok picked) : (picked.map (·.addr)).Nodup := by
  obtain ⟨_, h2, h3⟩ := orderedPick_ok free addrs i picked h
  have hnd : (picked.map (·.index)).Nodup := by rw [h2]; exact List.nodup_range'
  rw [List.Nodup, List.pairwise_map] at hnd ⊢
  refine hnd.imp_of_mem ?_
  intro p q hp hq hne heq
  apply hne
  have e1 := h3 p hp
  have e2 := h3 q hq
  rw [heq, e2] at e1
  cases e1
  rfl

/-! ## `generateFreeChunksOrdered` -/

/-- what `generate_free_chunks_for_ordered_proxy_index` returns: `n / 2` pairs (`n` even) of free
healthy proxies, all distinct, carrying the indices `first, first + 1, …, first + n - 1` in order -/
theorem generateFreeChunksOrdered_ok {s : Store} {n first : Nat} {choice : List (String × String)}
    {arr : List (ProxyRes × ProxyRes)} (h : generateFreeChunksOrdered s n first choice = R.ok arr) :
    n % 2 = 0 ∧ arr.length = n / 2 ∧
    (∀ pr ∈ arr, pr.1 ∈ s.freeProxies ∧ pr.2 ∈ s.freeProxies) ∧
    (arr.flatMap fun pr => [pr.1.addr, pr.2.addr]).Nodup ∧
    (arr.flatMap fun pr => [pr.1.index, pr.2.index]) = List.range' first n ∧
    (arr.map fun pr => (pr.1.addr, pr.2.addr)) = choice := by
  unfold generateFreeChunksOrdered at h
  simp only at h
  split at h
  · cases h
  split at h
  · cases h
  split at h
  · cases h
  rename_i hev
  split at h
  · cases h
  rename_i hlen
  obtain ⟨picked, hp, h⟩ := bindOk h
  cases h
  have hev : n % 2 = 0 := by simpa using hev
  have hlen : (choice.flatMap fun c => [c.1, c.2]).length = n := by simpa using hlen
  obtain ⟨h1, h2, h3⟩ := orderedPick_ok _ _ _ _ hp
  have hnd := orderedPick_nodup hp
  have hpl : picked.length = n := by
    have := congrArg List.length h1
    simp only [List.length_map] at this
    omega
  have hpe : picked.length % 2 = 0 := by omega
  have hflat := pairUp_flat picked hpe
  have hmapflat : ∀ {β : Type} (g : ProxyRes → β),
      (pairUp picked).flatMap (fun pr => [g pr.1, g pr.2]) = picked.map g := by
    intro β g
    have : (pairUp picked).flatMap (fun pr => [g pr.1, g pr.2]) =
        ((pairUp picked).flatMap (fun pr => [pr.1, pr.2])).map g := by
      simp [List.map_flatMap]
    rw [this, hflat]
  refine ⟨hev, by rw [pairUp_length, hpl], ?_, ?_, ?_, ?_⟩
  · intro pr hpr
    obtain ⟨m1, m2⟩ := pairUp_mem _ _ hpr
    exact ⟨List.mem_of_find?_eq_some (h3 _ m1), List.mem_of_find?_eq_some (h3 _ m2)⟩
  · rw [hmapflat (·.addr)]; exact hnd
  · rw [hmapflat (·.index), h2, hlen]
  · -- the pairs are the supplied choice
    have e : (pairUp picked).flatMap (fun pr => [pr.1.addr, pr.2.addr]) = choice.flatMap fun c => [c.1, c.2] := by
      rw [hmapflat (·.addr), h1]
    have key : ∀ (l : List (ProxyRes × ProxyRes)) (c : List (String × String)),
        l.flatMap (fun pr => [pr.1.addr, pr.2.addr]) = c.flatMap (fun c => [c.1, c.2]) →
        l.map (fun pr => (pr.1.addr, pr.2.addr)) = c := by
      intro l
      induction l with
      | nil =>
        intro c hc
        cases c with
        | nil => rfl
        | cons x xs => simp at hc
      | cons pr l ih =>
        intro c hc
        cases c with
        | nil => simp at hc
        | cons x xs =>
          simp only [List.flatMap_cons, List.cons_append, List.nil_append, List.cons.injEq] at hc
          obtain ⟨e1, e2, e3⟩ := hc
          simp only [List.map_cons, List.cons.injEq]
          exact ⟨Prod.ext e1 e2, ih xs e3⟩
    exact key _ _ e

/-! ## `allocChunks` -/

theorem allocChunks_normal {s : Store} (h : s.ordered = false) (n first : Nat) (choice : List (String × String)) :
    allocChunks s n first choice = generateFreeChunks s n choice := by
  simp [allocChunks, h]

theorem allocChunks_ordered {s : Store} (h : s.ordered = true) (n first : Nat) (choice : List (String × String)) :
    allocChunks s n first choice = generateFreeChunksOrdered s n first choice := by
  simp [allocChunks, h]

/-- lift a fact about both allocators to `allocChunks` -/
theorem allocChunks_cases {s : Store} {n first : Nat} {choice : List (String × String)} {r : R (List (ProxyRes × ProxyRes))}
    (h : allocChunks s n first choice = r) :
    (s.ordered = false ∧ generateFreeChunks s n choice = r) ∨
    (s.ordered = true ∧ generateFreeChunksOrdered s n first choice = r) := by
  unfold allocChunks at h
  split at h
  · rename_i ho; exact Or.inr ⟨ho, h⟩
  · rename_i ho; exact Or.inl ⟨by simpa using ho, h⟩

/-- `orderedPick` only validates the choice: it answers `ok` or `badChoice` -/
theorem orderedPick_ok_or_bad (free : List ProxyRes) : ∀ (addrs : List String) (i : Nat),
    (∃ l, orderedPick free i addrs = R.ok l) ∨ (∃ w, orderedPick free i addrs = R.badChoice w) := by
  intro addrs
  induction addrs with
  | nil => intro i; exact Or.inl ⟨[], rfl⟩
  | cons a rest ih =>
    intro i
    simp only [orderedPick]
    split
    · exact Or.inr ⟨_, rfl⟩
    · split
      · exact Or.inr ⟨_, rfl⟩
      · rcases ih (i + 1) with ⟨l, hl⟩ | ⟨w, hw⟩
        · rw [hl]; exact Or.inl ⟨_, rfl⟩
        · rw [hw]; exact Or.inr ⟨_, rfl⟩

/-- the ordered allocator never panics -/
theorem generateFreeChunksOrdered_noPanic (s : Store) (n first : Nat) (choice : List (String × String)) (w : String) :
    generateFreeChunksOrdered s n first choice ≠ R.panic w := by
  unfold generateFreeChunksOrdered
  simp only
  split
  · intro h; cases h
  split
  · intro h; cases h
  split
  · intro h; cases h
  split
  · intro h; cases h
  · rcases orderedPick_ok_or_bad s.freeProxies (choice.flatMap fun c => [c.1, c.2]) first with ⟨l, hl⟩ | ⟨w', hw⟩
    · rw [hl]; intro h; cases h
    · rw [hw]; intro h; cases h

/-- errors of the ordered allocator -/
theorem generateFreeChunksOrdered_err {s : Store} {n first : Nat} {choice : List (String × String)} {e : Err}
    (h : generateFreeChunksOrdered s n first choice = R.err e) :
    e = .noAvailableResource ∨ e = .proxyResourceOutOfOrder ∨ e = .invalidNodeNum := by
  unfold generateFreeChunksOrdered at h
  simp only at h
  split at h
  · cases h; exact Or.inl rfl
  split at h
  · cases h; exact Or.inr (Or.inl rfl)
  split at h
  · cases h; exact Or.inr (Or.inr rfl)
  split at h
  · cases h
  · exfalso
    rcases orderedPick_ok_or_bad s.freeProxies (choice.flatMap fun c => [c.1, c.2]) first with ⟨l, hl⟩ | ⟨w', hw⟩
    · rw [hl] at h; cases h
    · rw [hw] at h; cases h

/-! ## the mode flag is constant -/

@[simp] theorem bump_ordered (s : Store) : s.bump.ordered = s.ordered := rfl
@[simp] theorem setCluster_ordered (s : Store) (c : Cluster) : (s.setCluster c).ordered = s.ordered := rfl
@[simp] theorem setProxyCluster_ordered (s : Store) (a : String) (v : Option String) :
    (s.setProxyCluster a v).ordered = s.ordered := rfl

theorem foldl_ordered {α : Type} (f : Store → α → Store) (hf : ∀ s a, (f s a).ordered = s.ordered) :
    ∀ (l : List α) (s : Store), (l.foldl f s).ordered = s.ordered := by
  intro l
  induction l with
  | nil => intro s; rfl
  | cons a rest ih => intro s; simp only [List.foldl_cons]; rw [ih, hf]

theorem tagProxies_ordered : ∀ (addrs : List String) (s s' : Store) (name : String),
    tagProxies s addrs name = R.ok s' → s'.ordered = s.ordered := by
  intro addrs
  induction addrs with
  | nil => intro s s' name h; simp only [tagProxies, List.foldlM_nil] at h; cases h; rfl
  | cons a rest ih =>
    intro s s' name h
    simp only [tagProxies, List.foldlM_cons] at h
    obtain ⟨s1, h1, h2⟩ := bindOk h
    split at h1
    · cases h1
      have := ih _ _ name h2
      simpa using this
    · cases h1

theorem addFailure_ordered (s : Store) (a r : String) (t : Int) : (addFailure s a r t).1.ordered = s.ordered := by
  unfold addFailure
  split
  · split <;> rfl
  · rfl

theorem addProxy_ordered (s : Store) (a n0 n1 : String) (h : Option String) (i : Option Nat) :
    (addProxy s a n0 n1 h i).1.ordered = s.ordered := by
  unfold addProxy
  split
  · rfl
  · simp only
    split
    · rfl
    · split <;> rfl

theorem removeProxy_ordered (s : Store) (a : String) : (removeProxy s a).1.ordered = s.ordered := by
  unfold removeProxy
  split
  · rfl
  · split <;> rfl

theorem addCluster_ordered (s : Store) (name : String) (k : Nat) (cfg : Config) (choice : List (String × String)) :
    (addCluster s name k cfg choice).1.ordered = s.ordered := by
  unfold addCluster
  split; · rfl
  split; · rfl
  split; · rfl
  split; · rfl
  simp only
  split; · rfl
  split
  · rename_i s' h
    obtain ⟨arr, _, h⟩ := bindOk h
    obtain ⟨chunks, _, h⟩ := bindOk h
    obtain ⟨s2, h2, h⟩ := bindOk h
    cases h
    have := tagProxies_ordered _ _ _ _ h2
    simpa using this
  all_goals rfl

theorem removeCluster_ordered (s : Store) (name : String) : (removeCluster s name).1.ordered = s.ordered := by
  unfold removeCluster
  split; · rfl
  split
  · rfl
  · simp only [bump_ordered]
    rw [foldl_ordered (fun s a => s.setProxyCluster a none) (fun s a => rfl)]

theorem autoAddNodes_ordered (s : Store) (name : String) (k : Nat) (choice : List (String × String)) :
    (autoAddNodes s name k choice).1.ordered = s.ordered := by
  unfold autoAddNodes
  split; · rfl
  split; · rfl
  split; · rfl
  split; · rfl
  simp only
  split; · rfl
  split
  · rename_i s' h
    obtain ⟨arr, _, h⟩ := bindOk h
    obtain ⟨chunks, _, h⟩ := bindOk h
    have := tagProxies_ordered _ _ _ _ h
    simpa using this
  all_goals rfl

theorem autoScaleUpNodes_ordered (s : Store) (name : String) (k : Nat) (choice : List (String × String)) :
    (autoScaleUpNodes s name k choice).1.ordered = s.ordered := by
  unfold autoScaleUpNodes
  split; · rfl
  split; · rfl
  simp only
  split
  · rfl
  · exact autoAddNodes_ordered _ _ _ _

theorem autoDeleteFreeNodes_ordered (s : Store) (name : String) :
    (autoDeleteFreeNodes s name).1.ordered = s.ordered := by
  unfold autoDeleteFreeNodes
  split; · rfl
  simp only
  split; · rfl
  split; · rfl
  split; · rfl
  simp only [bump_ordered]
  rw [foldl_ordered (fun s (ch : Chunk) => (s.setProxyCluster ch.proxy0 none).setProxyCluster ch.proxy1 none)
    (fun s a => rfl)]
  rfl

theorem autoDeleteFreeNodesIfExists_ordered (s : Store) (name : String) :
    (autoDeleteFreeNodesIfExists s name).1.ordered = s.ordered := by
  have := autoDeleteFreeNodes_ordered s name
  unfold autoDeleteFreeNodesIfExists
  split <;> simp_all

theorem migrateSlots_ordered (s : Store) (name : String) : (migrateSlots s name).1.ordered = s.ordered := by
  unfold migrateSlots
  split; · rfl
  simp only
  split; · rfl
  split; · rfl
  split; · rfl
  split <;> rfl

theorem migrateSlotsToScaleDown_ordered (s : Store) (name : String) (k : Nat) :
    (migrateSlotsToScaleDown s name k).1.ordered = s.ordered := by
  unfold migrateSlotsToScaleDown
  split; · rfl
  simp only
  split; · rfl
  split; · rfl
  split; · rfl
  split; · rfl
  split <;> rfl

theorem commitMigrationCore_ordered (s : Store) (name : String) (rl : RangeList) (e : Nat) (tn : Bool) :
    (commitMigrationCore s name rl e tn).1.ordered = s.ordered := by
  unfold commitMigrationCore
  simp only
  split; · rfl
  split; · rfl
  split; · rfl
  split <;> rfl

theorem commitMigration_ordered (s : Store) (name : String) (rl : RangeList) (e : Nat) (tn cl : Bool) :
    (commitMigration s name rl e tn cl).1.ordered = s.ordered := by
  have h1 := commitMigrationCore_ordered s name rl e tn
  unfold commitMigration
  split
  · rename_i s' heq
    rw [heq] at h1
    split
    · rw [autoDeleteFreeNodesIfExists_ordered]; exact h1
    · exact h1
  · exact h1

theorem takeoverMaster_ordered (s : Store) (name failed : String) :
    (takeoverMaster s name failed).1.ordered = s.ordered := by
  unfold takeoverMaster
  simp only
  split; · rfl
  split <;> rfl

theorem replaceFailedProxy_ordered (s : Store) (a c : String) : (replaceFailedProxy s a c).1.ordered = s.ordered := by
  unfold replaceFailedProxy
  split; · rfl
  split; · rfl
  rename_i name _
  have h1 := takeoverMaster_ordered s name a
  generalize takeoverMaster s name a = r at h1 ⊢
  obtain ⟨s1, r1⟩ := r
  simp only at h1
  cases r1 with
  | ok u =>
    cases u
    simp only
    split
    · exact h1
    · split
      · split <;> exact h1
      all_goals exact h1
  | err e => exact h1
  | panic w => exact h1
  | badChoice w => exact h1

theorem balanceMasters_ordered (s : Store) (name : String) : (balanceMasters s name).1.ordered = s.ordered := by
  unfold balanceMasters
  split; · rfl
  simp only
  split <;> rfl

theorem changeConfig_ordered (s : Store) (name : String) (kvs : List (String × String)) :
    (changeConfig s name kvs).1.ordered = s.ordered := by
  unfold changeConfig
  split; · rfl
  simp only
  split; · rfl
  split; · rfl
  split <;> rfl

theorem forceBumpAllEpoch_ordered (s : Store) (e : Nat) : (forceBumpAllEpoch s e).1.ordered = s.ordered := by
  unfold forceBumpAllEpoch
  split <;> rfl

theorem recoverEpoch_ordered (s : Store) (e : Nat) : (recoverEpoch s e).ordered = s.ordered := rfl

theorem autoScaleOutNodeNumber_ordered (s : Store) (name : String) (k : Nat) :
    (autoScaleOutNodeNumber s name k).1.ordered = s.ordered := by
  unfold autoScaleOutNodeNumber
  split; · rfl
  split; · rfl
  split
  · exact migrateSlots_ordered _ _
  · rfl

theorem autoChangeNodeNumber_ordered (s : Store) (name : String) (k : Nat) (choice : List (String × String)) :
    (autoChangeNodeNumber s name k choice).1.ordered = s.ordered := by
  have hd := autoDeleteFreeNodes_ordered s name
  unfold autoChangeNodeNumber
  split; · rfl
  split; · rfl
  split; · rfl
  generalize autoDeleteFreeNodes s name = r at hd ⊢
  obtain ⟨s1, r1⟩ := r
  simp only at hd ⊢
  have hup := autoScaleUpNodes_ordered s1 name k choice
  have hdn := migrateSlotsToScaleDown_ordered s1 name k
  split
  · split
    · exact hd
    · split
      · exact hd
      · split
        · split <;> simp_all
        · split <;> simp_all
  · split
    · exact hd
    · split
      · exact hd
      · split
        · split <;> simp_all
        · split <;> simp_all
  all_goals exact hd

/-- no operation of the running broker changes the mode -/
theorem stepFull_ordered (s : Store) (op : Op) (hop : op ≠ .setOrdered) : (stepFull s op).1.ordered = s.ordered := by
  cases op with
  | addProxy a n0 n1 h i => exact addProxy_ordered _ _ _ _ _ _
  | removeProxy a => exact removeProxy_ordered _ _
  | addCluster n k c => exact addCluster_ordered _ _ _ _ _
  | removeCluster n => exact removeCluster_ordered _ _
  | addNodes n k c => exact autoAddNodes_ordered _ _ _ _
  | scaleUp n k c => exact autoScaleUpNodes_ordered _ _ _ _
  | changeNum n k c => exact autoChangeNodeNumber_ordered _ _ _ _
  | scaleOutNum n k => exact autoScaleOutNodeNumber_ordered _ _ _
  | delFree n => exact autoDeleteFreeNodes_ordered _ _
  | migrate n => exact migrateSlots_ordered _ _
  | scaleDown n k => exact migrateSlotsToScaleDown_ordered _ _ _
  | commit n e rl t c => exact commitMigration_ordered _ _ _ _ _ _
  | failover a c => exact replaceFailedProxy_ordered _ _ _
  | balance n => exact balanceMasters_ordered _ _
  | config n kv => exact changeConfig_ordered _ _ _
  | bumpAll e => exact forceBumpAllEpoch_ordered _ _
  | recover e => exact recoverEpoch_ordered _ _
  | addFailure a r t => exact addFailure_ordered _ _ _ _
  | setOrdered => exact absurd rfl hop

theorem step_eq (s : Store) (op : Op) : step s op = (stepFull s op).1 ∨ step s op = s := by
  unfold step
  split
  · rename_i h; exact Or.inl (by rw [h])
  · rename_i h; exact Or.inl (by rw [h])
  · exact Or.inr rfl
  · exact Or.inr rfl

theorem step_ordered (s : Store) (op : Op) (hop : op ≠ .setOrdered) : (step s op).ordered = s.ordered := by
  rcases step_eq s op with h | h
  · rw [h]; exact stepFull_ordered s op hop
  · rw [h]

/-- `setOrdered` acts only on a fresh store -/
theorem step_setOrdered (s : Store) : step s .setOrdered = s.setOrdered := rfl

theorem setOrdered_of_not_fresh {s : Store} (h : s.isFresh = false) : s.setOrdered = s := by
  simp [Store.setOrdered, h]

theorem setOrdered_fresh {s : Store} (h : s.isFresh = true) : s.setOrdered = { s with ordered := true } := by
  simp [Store.setOrdered, h]

@[simp] theorem setOrdered_globalEpoch (s : Store) : s.setOrdered.globalEpoch = s.globalEpoch := by
  unfold Store.setOrdered; split <;> rfl
@[simp] theorem setOrdered_clusters (s : Store) : s.setOrdered.clusters = s.clusters := by
  unfold Store.setOrdered; split <;> rfl
@[simp] theorem setOrdered_proxies (s : Store) : s.setOrdered.proxies = s.proxies := by
  unfold Store.setOrdered; split <;> rfl
@[simp] theorem setOrdered_failed (s : Store) : s.setOrdered.failed = s.failed := by
  unfold Store.setOrdered; split <;> rfl
@[simp] theorem setOrdered_failures (s : Store) : s.setOrdered.failures = s.failures := by
  unfold Store.setOrdered; split <;> rfl

/-- the mode never goes back to normal -/
theorem step_ordered_mono (s : Store) (op : Op) (h : s.ordered = true) : (step s op).ordered = true := by
  by_cases hop : op = .setOrdered
  · subst hop
    rw [step_setOrdered]; unfold Store.setOrdered; split
    · rfl
    · exact h
  · rw [step_ordered s op hop]; exact h


/-! ## ordered mode serves at most one cluster -/

@[simp] theorem bump_clen (s : Store) : s.bump.clusters.length = s.clusters.length := rfl
@[simp] theorem setCluster_clen (s : Store) (c : Cluster) : (s.setCluster c).clusters.length = s.clusters.length := by
  simp [Store.setCluster]
@[simp] theorem setProxyCluster_clen (s : Store) (a : String) (v : Option String) :
    (s.setProxyCluster a v).clusters.length = s.clusters.length := rfl

theorem foldl_clen {α : Type} (f : Store → α → Store) (hf : ∀ s a, (f s a).clusters.length = s.clusters.length) :
    ∀ (l : List α) (s : Store), (l.foldl f s).clusters.length = s.clusters.length := by
  intro l
  induction l with
  | nil => intro s; rfl
  | cons a rest ih => intro s; simp only [List.foldl_cons]; rw [ih, hf]

theorem tagProxies_clen : ∀ (addrs : List String) (s s' : Store) (name : String),
    tagProxies s addrs name = R.ok s' → s'.clusters.length = s.clusters.length := by
  intro addrs
  induction addrs with
  | nil => intro s s' name h; simp only [tagProxies, List.foldlM_nil] at h; cases h; rfl
  | cons a rest ih =>
    intro s s' name h
    simp only [tagProxies, List.foldlM_cons] at h
    obtain ⟨s1, h1, h2⟩ := bindOk h
    split at h1
    · cases h1
      have := ih _ _ name h2
      simpa using this
    · cases h1

/-- `add_cluster` in ordered mode: refused when a cluster exists, otherwise at most one is added -/
theorem addCluster_clen_ordered (s : Store) (ho : s.ordered = true) (name : String) (k : Nat) (cfg : Config)
    (choice : List (String × String)) : (addCluster s name k cfg choice).1.clusters.length ≤ 1 ∨
      (addCluster s name k cfg choice).1 = s := by
  unfold addCluster
  split; · exact Or.inr rfl
  rename_i hemp
  have hnil : s.clusters = [] := by
    cases hc : s.clusters with
    | nil => rfl
    | cons x xs => simp [ho, hc] at hemp
  split; · exact Or.inr rfl
  split; · exact Or.inr rfl
  split; · exact Or.inr rfl
  simp only
  split; · exact Or.inr rfl
  split
  · rename_i s' h
    obtain ⟨arr, _, h⟩ := bindOk h
    obtain ⟨chunks, _, h⟩ := bindOk h
    obtain ⟨s2, h2, h⟩ := bindOk h
    cases h
    have := tagProxies_clen _ _ _ _ h2
    left
    simp only [List.length_append, List.length_cons, List.length_nil, this, bump_clen, hnil]
    omega
  all_goals exact Or.inr rfl

theorem addFailure_clen (s : Store) (a r : String) (t : Int) :
    (addFailure s a r t).1.clusters.length = s.clusters.length := by
  unfold addFailure
  split
  · split <;> rfl
  · rfl

theorem addProxy_clen (s : Store) (a n0 n1 : String) (h : Option String) (i : Option Nat) :
    (addProxy s a n0 n1 h i).1.clusters.length = s.clusters.length := by
  unfold addProxy
  split
  · rfl
  · simp only
    split
    · rfl
    · split <;> rfl

theorem removeProxy_clen (s : Store) (a : String) : (removeProxy s a).1.clusters.length = s.clusters.length := by
  unfold removeProxy
  split
  · rfl
  · split <;> rfl

theorem removeCluster_clen (s : Store) (name : String) :
    (removeCluster s name).1.clusters.length ≤ s.clusters.length := by
  unfold removeCluster
  split; · exact Nat.le_refl _
  split
  · exact Nat.le_refl _
  · simp only [bump_clen]
    rw [foldl_clen (fun s a => s.setProxyCluster a none) (fun s a => rfl)]
    exact List.length_filter_le _ _

theorem autoAddNodes_clen (s : Store) (name : String) (k : Nat) (choice : List (String × String)) :
    (autoAddNodes s name k choice).1.clusters.length = s.clusters.length := by
  unfold autoAddNodes
  split; · rfl
  split; · rfl
  split; · rfl
  split; · rfl
  simp only
  split; · rfl
  split
  · rename_i s' h
    obtain ⟨arr, _, h⟩ := bindOk h
    obtain ⟨chunks, _, h⟩ := bindOk h
    have := tagProxies_clen _ _ _ _ h
    simpa using this
  all_goals rfl

theorem autoScaleUpNodes_clen (s : Store) (name : String) (k : Nat) (choice : List (String × String)) :
    (autoScaleUpNodes s name k choice).1.clusters.length = s.clusters.length := by
  unfold autoScaleUpNodes
  split; · rfl
  split; · rfl
  simp only
  split
  · rfl
  · exact autoAddNodes_clen _ _ _ _

theorem autoDeleteFreeNodes_clen (s : Store) (name : String) :
    (autoDeleteFreeNodes s name).1.clusters.length = s.clusters.length := by
  unfold autoDeleteFreeNodes
  split; · rfl
  simp only
  split; · rfl
  split; · rfl
  split; · rfl
  simp only [bump_clen]
  rw [foldl_clen (fun s (ch : Chunk) => (s.setProxyCluster ch.proxy0 none).setProxyCluster ch.proxy1 none)
    (fun s a => rfl)]
  simp

theorem autoDeleteFreeNodesIfExists_clen (s : Store) (name : String) :
    (autoDeleteFreeNodesIfExists s name).1.clusters.length = s.clusters.length := by
  have := autoDeleteFreeNodes_clen s name
  unfold autoDeleteFreeNodesIfExists
  split <;> simp_all

theorem migrateSlots_clen (s : Store) (name : String) : (migrateSlots s name).1.clusters.length = s.clusters.length := by
  unfold migrateSlots
  split; · rfl
  simp only
  split; · rfl
  split; · rfl
  split; · rfl
  split <;> simp

theorem migrateSlotsToScaleDown_clen (s : Store) (name : String) (k : Nat) :
    (migrateSlotsToScaleDown s name k).1.clusters.length = s.clusters.length := by
  unfold migrateSlotsToScaleDown
  split; · rfl
  simp only
  split; · rfl
  split; · rfl
  split; · rfl
  split; · rfl
  split <;> simp

theorem commitMigrationCore_clen (s : Store) (name : String) (rl : RangeList) (e : Nat) (tn : Bool) :
    (commitMigrationCore s name rl e tn).1.clusters.length = s.clusters.length := by
  unfold commitMigrationCore
  simp only
  split; · rfl
  split; · rfl
  split; · rfl
  split <;> simp

theorem commitMigration_clen (s : Store) (name : String) (rl : RangeList) (e : Nat) (tn cl : Bool) :
    (commitMigration s name rl e tn cl).1.clusters.length = s.clusters.length := by
  have h1 := commitMigrationCore_clen s name rl e tn
  unfold commitMigration
  split
  · rename_i s' heq
    rw [heq] at h1
    split
    · rw [autoDeleteFreeNodesIfExists_clen]; exact h1
    · exact h1
  · exact h1

theorem takeoverMaster_clen (s : Store) (name failed : String) :
    (takeoverMaster s name failed).1.clusters.length = s.clusters.length := by
  unfold takeoverMaster
  simp only
  split; · rfl
  split <;> simp

theorem replaceFailedProxy_clen (s : Store) (a c : String) :
    (replaceFailedProxy s a c).1.clusters.length = s.clusters.length := by
  unfold replaceFailedProxy
  split; · rfl
  split; · rfl
  rename_i name _
  have h1 := takeoverMaster_clen s name a
  generalize takeoverMaster s name a = r at h1 ⊢
  obtain ⟨s1, r1⟩ := r
  simp only at h1
  cases r1 with
  | ok u =>
    cases u
    simp only
    split
    · exact h1
    · split
      · split
        · exact h1
        · simpa using h1
      all_goals exact h1
  | err e => exact h1
  | panic w => exact h1
  | badChoice w => exact h1

theorem balanceMasters_clen (s : Store) (name : String) : (balanceMasters s name).1.clusters.length = s.clusters.length := by
  unfold balanceMasters
  split; · rfl
  simp only
  split <;> simp

theorem changeConfig_clen (s : Store) (name : String) (kvs : List (String × String)) :
    (changeConfig s name kvs).1.clusters.length = s.clusters.length := by
  unfold changeConfig
  split; · rfl
  simp only
  split; · rfl
  split; · rfl
  split <;> simp

theorem forceBumpAllEpoch_clen (s : Store) (e : Nat) : (forceBumpAllEpoch s e).1.clusters.length = s.clusters.length := by
  unfold forceBumpAllEpoch
  split <;> simp

theorem recoverEpoch_clen (s : Store) (e : Nat) : (recoverEpoch s e).clusters.length = s.clusters.length := by
  simp [recoverEpoch]

theorem autoScaleOutNodeNumber_clen (s : Store) (name : String) (k : Nat) :
    (autoScaleOutNodeNumber s name k).1.clusters.length = s.clusters.length := by
  unfold autoScaleOutNodeNumber
  split; · rfl
  split; · rfl
  split
  · exact migrateSlots_clen _ _
  · rfl

theorem autoChangeNodeNumber_clen (s : Store) (name : String) (k : Nat) (choice : List (String × String)) :
    (autoChangeNodeNumber s name k choice).1.clusters.length = s.clusters.length := by
  have hd := autoDeleteFreeNodes_clen s name
  unfold autoChangeNodeNumber
  split; · rfl
  split; · rfl
  split; · rfl
  generalize autoDeleteFreeNodes s name = r at hd ⊢
  obtain ⟨s1, r1⟩ := r
  simp only at hd ⊢
  have hup := autoScaleUpNodes_clen s1 name k choice
  have hdn := migrateSlotsToScaleDown_clen s1 name k
  split
  · split
    · exact hd
    · split
      · exact hd
      · split
        · split <;> simp_all
        · split <;> simp_all
  · split
    · exact hd
    · split
      · exact hd
      · split
        · split <;> simp_all
        · split <;> simp_all
  all_goals exact hd

/-- in ordered mode no operation takes the store beyond one cluster -/
theorem stepFull_clen_ordered (s : Store) (op : Op) (ho : s.ordered = true) (h1 : s.clusters.length ≤ 1) :
    (stepFull s op).1.clusters.length ≤ 1 := by
  cases op with
  | addProxy a n0 n1 h i => show (addProxy s a n0 n1 h i).1.clusters.length ≤ 1; rw [addProxy_clen]; exact h1
  | removeProxy a => show (removeProxy s a).1.clusters.length ≤ 1; rw [removeProxy_clen]; exact h1
  | addCluster n k c =>
    show (addCluster s n k defaultConfig c).1.clusters.length ≤ 1
    rcases addCluster_clen_ordered s ho n k defaultConfig c with h | h
    · exact h
    · rw [h]; exact h1
  | removeCluster n => exact Nat.le_trans (removeCluster_clen s n) h1
  | addNodes n k c => show (autoAddNodes s n k c).1.clusters.length ≤ 1; rw [autoAddNodes_clen]; exact h1
  | scaleUp n k c => show (autoScaleUpNodes s n k c).1.clusters.length ≤ 1; rw [autoScaleUpNodes_clen]; exact h1
  | changeNum n k c =>
    show (autoChangeNodeNumber s n k c).1.clusters.length ≤ 1; rw [autoChangeNodeNumber_clen]; exact h1
  | scaleOutNum n k =>
    show (autoScaleOutNodeNumber s n k).1.clusters.length ≤ 1; rw [autoScaleOutNodeNumber_clen]; exact h1
  | delFree n => show (autoDeleteFreeNodes s n).1.clusters.length ≤ 1; rw [autoDeleteFreeNodes_clen]; exact h1
  | migrate n => show (migrateSlots s n).1.clusters.length ≤ 1; rw [migrateSlots_clen]; exact h1
  | scaleDown n k =>
    show (migrateSlotsToScaleDown s n k).1.clusters.length ≤ 1; rw [migrateSlotsToScaleDown_clen]; exact h1
  | commit n e rl t c =>
    show (commitMigration s n rl e t c).1.clusters.length ≤ 1; rw [commitMigration_clen]; exact h1
  | failover a c => show (replaceFailedProxy s a c).1.clusters.length ≤ 1; rw [replaceFailedProxy_clen]; exact h1
  | balance n => show (balanceMasters s n).1.clusters.length ≤ 1; rw [balanceMasters_clen]; exact h1
  | config n kv => show (changeConfig s n kv).1.clusters.length ≤ 1; rw [changeConfig_clen]; exact h1
  | bumpAll e => show (forceBumpAllEpoch s e).1.clusters.length ≤ 1; rw [forceBumpAllEpoch_clen]; exact h1
  | recover e => show (recoverEpoch s e).clusters.length ≤ 1; rw [recoverEpoch_clen]; exact h1
  | addFailure a r t => show (addFailure s a r t).1.clusters.length ≤ 1; rw [addFailure_clen]; exact h1
  | setOrdered => show s.setOrdered.clusters.length ≤ 1; rw [setOrdered_clusters]; exact h1

/-- the invariant "ordered mode ⇒ at most one cluster" is kept by every step, from any store -/
theorem step_oneCluster (s : Store) (op : Op) (h : s.ordered = true → s.clusters.length ≤ 1) :
    (step s op).ordered = true → (step s op).clusters.length ≤ 1 := by
  intro ho'
  by_cases hop : op = .setOrdered
  · subst hop
    rw [step_setOrdered] at ho' ⊢
    unfold Store.setOrdered at ho' ⊢
    split
    · rename_i hf
      have : s.clusters = [] := by
        unfold Store.isFresh at hf
        simp only [Bool.and_eq_true, List.isEmpty_iff] at hf
        exact hf.1.1.1.2
      simp [this]
    · rename_i hf
      rw [if_neg hf] at ho'
      exact h ho'
  · have ho : s.ordered = true := by rw [← step_ordered s op hop]; exact ho'
    rcases step_eq s op with he | he
    · rw [he]; exact stepFull_clen_ordered s op ho (h ho)
    · rw [he]; exact h ho


end Ord

end Um.Broker
