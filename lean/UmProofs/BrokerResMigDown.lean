import UmProofs.BrokerResMig
/-!
# `migrate_slots_to_scale_down` never panics (C12, migration planner part)
-/
namespace Um.Broker
open Um Um.Slots

/-- `dst_existing_slots_num` exactly as `removeSlotsToScaleDown` computes it -/
def downExisting (c : Cluster) (k : Nat) : List Nat :=
  (c.chunks.take k).flatMap fun ch => [(ch.stable0.map slotsNum).getD 0, (ch.stable1.map slotsNum).getD 0]

/-- additional hypothesis for scale-down to `k` chunks: every kept master `i < 2k` owns at most
its final share -/
def DownPre (c : Cluster) (k : Nat) : Prop :=
  MigPre c ∧ ∀ i e, (downExisting c k)[i]? = some e →
    e ≤ SLOT_NUM / (k * 2) + (if i < SLOT_NUM - SLOT_NUM / (k * 2) * (k * 2) then 1 else 0)

namespace Mig

def downFinal (P : DownParams) (d : Nat) : Nat := P.average + (if d < P.remainder then 1 else 0)

/-- loop invariant of `remove_slots_from_src_to_scale_down` -/
def DownInv (P : DownParams) (n : Nat) (st : LoopSt) : Prop :=
  st.dstIdx ≤ P.dstMasterNum ∧
  (∀ e, P.existing[st.dstIdx]? = some e → st.curNum + e ≤ downFinal P st.dstIdx) ∧
  ∀ m ∈ st.out, Good n m

def downMs (P : DownParams) (i part : Nat) (st : LoopSt) (cur' : List Range) : MigSlots :=
  { ranges := rlNew cur',
    mm := { epoch := P.epoch, srcChunk := i, srcPart := part,
            dstChunk := st.dstIdx / 2, dstPart := st.dstIdx % 2 } }

theorem good_downMs (P : DownParams) (n i part : Nat) (hi : i < n) (hp : part < 2)
    (hD : P.dstMasterNum ≤ 2 * n) (st : LoopSt) (cur' : List Range)
    (hlt : st.dstIdx < P.dstMasterNum) : Good n (downMs P i part st cur') := by
  unfold Good downMs
  simp only
  omega

/-- the part of one iteration after the slots have been taken from the first range -/
theorem down_tail (P : DownParams) (n i part : Nat) (hi : i < n) (hp : part < 2)
    (hD : P.dstMasterNum ≤ 2 * n)
    (hex : ∀ d e, P.existing[d]? = some e → e ≤ downFinal P d) (m : Nat)
    (st : LoopSt) (dstFinal dstExisting : Nat)
    (e3 : dstFinal = downFinal P st.dstIdx) (hsome : P.existing[st.dstIdx]? = some dstExisting)
    (rl' : RangeList) (cur' : List Range) (curNum' : Nat)
    (hlt : st.dstIdx < P.dstMasterNum) (h3 : ∀ m ∈ st.out, Good n m)
    (hc : curNum' + dstExisting ≤ dstFinal)
    (hm : slotsNum rl' + (P.dstMasterNum - st.dstIdx) < m) :
    StepRes
      (if (decide (curNum' + dstExisting ≥ dstFinal) || slotsNum rl' == 0) = true then
        if (slotsNum rl' == 0) = true then
          R.ok (Iter.done (rl',
            if curNum' + dstExisting ≥ dstFinal then
              { dstIdx := st.dstIdx + 1, curSlots := [], curNum := 0, out := st.out ++ [downMs P i part st cur'] }
            else { dstIdx := st.dstIdx, curSlots := [], curNum := curNum', out := st.out ++ [downMs P i part st cur'] }))
        else
          R.ok (Iter.cont (rl',
            if curNum' + dstExisting ≥ dstFinal then
              { dstIdx := st.dstIdx + 1, curSlots := [], curNum := 0, out := st.out ++ [downMs P i part st cur'] }
            else { dstIdx := st.dstIdx, curSlots := [], curNum := curNum', out := st.out ++ [downMs P i part st cur'] }))
      else
        R.ok (Iter.cont (rl', { dstIdx := st.dstIdx, curSlots := cur', curNum := curNum', out := st.out })))
      (fun x : RangeList × LoopSt => DownInv P n x.2) (loopMu P.dstMasterNum) m := by
  have hg := good_snoc n st.out _ h3 (good_downMs P n i part hi hp hD st cur' hlt)
  have hsame : ∀ e, P.existing[st.dstIdx]? = some e → curNum' + e ≤ downFinal P st.dstIdx := by
    intro e he
    rw [hsome] at he
    have := Option.some.inj he
    omega
  by_cases a : curNum' + dstExisting ≥ dstFinal
  · have inv2 : DownInv P n (LoopSt.mk (st.dstIdx + 1) [] 0 (st.out ++ [downMs P i part st cur'])) := by
      refine ⟨by simp only; omega, ?_, hg⟩
      intro e he
      have := hex _ _ he
      simp only at this ⊢
      omega
    by_cases b : (slotsNum rl' == 0) = true
    · simp only [a, b, decide_true, Bool.or_self, if_true]
      exact stepRes_done _ _ _ _ inv2
    · simp only [a, b, decide_true, Bool.true_or, if_true]
      exact stepRes_cont _ _ _ _ inv2 (by simp only [loopMu]; omega)
  · have inv2 : DownInv P n (LoopSt.mk st.dstIdx [] curNum' (st.out ++ [downMs P i part st cur'])) :=
      ⟨by simp only; omega, hsame, hg⟩
    by_cases b : (slotsNum rl' == 0) = true
    · simp only [a, b, decide_false, Bool.false_or, if_true, if_false]
      exact stepRes_done _ _ _ _ inv2
    · simp only [a, b, decide_false, Bool.false_or, if_false]
      exact stepRes_cont _ _ _ _ ⟨by simp only; omega, hsame, h3⟩ (by simp only [loopMu]; omega)

/-- one iteration of the loop body: no panic, invariant kept, measure decreases on `cont` -/
theorem downBody_step (P : DownParams) (n i part : Nat) (hi : i < n) (hp : part < 2)
    (hD : P.dstMasterNum ≤ 2 * n) (hlen : P.existing.length = P.dstMasterNum)
    (hex : ∀ d e, P.existing[d]? = some e → e ≤ downFinal P d) (rl : RangeList) (st : LoopSt)
    (hinv : DownInv P n st) :
    StepRes (downBody P i part (rl, st)) (fun x : RangeList × LoopSt => DownInv P n x.2)
      (loopMu P.dstMasterNum) (loopMu P.dstMasterNum (rl, st)) := by
  obtain ⟨h1, h2, h3⟩ := hinv
  show StepRes _ _ _ (slotsNum rl + (P.dstMasterNum - st.dstIdx))
  generalize hmv : slotsNum rl + (P.dstMasterNum - st.dstIdx) = m
  unfold downBody
  extract_lets rl0 st0 dstFinal avail
  have e0 : rl0 = rl := rfl
  have e1 : st0 = st := rfl
  have e3 : dstFinal = downFinal P st0.dstIdx := rfl
  have e5 : avail = slotsNum rl0 := rfl
  clear_value avail dstFinal st0 rl0
  subst e0 e1
  split
  · exact stepRes_done _ _ _ _ ⟨h1, h2, h3⟩
  · rename_i hne
    have hlt : st0.dstIdx < P.dstMasterNum := by simp at hne; omega
    split
    · rename_i hnone
      rw [List.getElem?_eq_none_iff] at hnone
      omega
    · rename_i dstExisting hsome
      have h2' := h2 _ hsome
      split
      · omega
      · extract_lets need removeNum
        have e4 : need = dstFinal - st0.curNum - dstExisting := rfl
        have e6 : removeNum = min need avail := rfl
        clear_value removeNum need
        split
        · refine stepRes_cont _ _ _ _ ⟨by simp only; omega, ?_, h3⟩ (by simp only [loopMu]; omega)
          intro e he
          have := hex _ _ he
          simp only at this ⊢
          omega
        · rename_i hneed
          split
          · exact stepRes_done _ _ _ _ ⟨h1, h2, h3⟩
          · rename_i havail
            have hrm : 1 ≤ removeNum := by simp at hneed havail; omega
            split
            · simp [slotsNum_nil] at e5; simp at havail; omega
            · rename_i first rest
              extract_lets num rl' cur' curNum' ms st2
              have e7 : num = rangeNum first := rfl
              rw [slotsNum_cons] at e5 hmv
              have hpos := rangeNum_pos first
              split
              · rename_i hpn; simp at hpn; omega
              · have hfacts : curNum' + dstExisting ≤ dstFinal ∧
                    slotsNum rl' + (P.dstMasterNum - st0.dstIdx) < m := by
                  by_cases hr : removeNum ≥ num
                  · have er : rl' = rest := if_pos hr
                    have ec : curNum' = st0.curNum + num := if_pos hr
                    rw [er, ec]
                    omega
                  · have er : rl' = (first.1 + removeNum, first.2) :: rest := if_neg hr
                    have ec : curNum' = st0.curNum + removeNum := if_neg hr
                    rw [er, ec, slotsNum_cons]
                    have : rangeNum (first.1 + removeNum, first.2) = num - removeNum := by
                      unfold rangeNum at *; simp only; omega
                    omega
                exact down_tail P n i part hi hp hD hex m st0 dstFinal dstExisting e3 hsome
                  rl' cur' curNum' hlt h3 hfacts.1 hfacts.2

theorem downWhile_ok (P : DownParams) (n i part : Nat) (hi : i < n) (hp : part < 2)
    (hD : P.dstMasterNum ≤ 2 * n) (hlen : P.existing.length = P.dstMasterNum)
    (hex : ∀ d e, P.existing[d]? = some e → e ≤ downFinal P d)
    (fuel : Nat) (rl : RangeList) (st : LoopSt) (hinv : DownInv P n st)
    (hm : slotsNum rl + (P.dstMasterNum - st.dstIdx) < fuel) :
    OkWith (downWhile P i part fuel rl st) (fun p => DownInv P n p.2) :=
  iterate_ok (downBody P i part) (fun x : RangeList × LoopSt => DownInv P n x.2) (loopMu P.dstMasterNum)
    (fun a ha => downBody_step P n i part hi hp hD hlen hex a.1 a.2 ha) fuel (rl, st) hinv hm

/-! ## the outer loops -/

theorem downChunks_ok (P : DownParams) (n : Nat) (hD : P.dstMasterNum ≤ 2 * n)
    (hlen : P.existing.length = P.dstMasterNum)
    (hex : ∀ d e, P.existing[d]? = some e → e ≤ downFinal P d) (hn : n * 2 ≤ SLOT_NUM) :
    ∀ (chunks : List Chunk) (i : Nat) (st : LoopSt), i + chunks.length ≤ n →
      (∀ ch ∈ chunks, ∀ rl ∈ ch.stables, slotsNum rl ≤ SLOT_NUM) → DownInv P n st →
      OkWith (downChunks P chunks i st) (fun p => p.1.length = chunks.length ∧ DownInv P n p.2) := by
  intro chunks
  induction chunks with
  | nil => intro i st _ _ hinv; exact okWith_pure _ _ ⟨rfl, hinv⟩
  | cons ch rest ih =>
    intro i st hi hsz hinv
    have hfuel : ∀ (rl : RangeList) (st : LoopSt), rl ∈ ch.stables →
        slotsNum rl + (P.dstMasterNum - st.dstIdx) < loopFuel := by
      intro rl st hrl
      have := hsz ch (by simp) rl hrl
      unfold loopFuel
      unfold SLOT_NUM at *
      omega
    have hi' : i < n := by simp only [List.length_cons] at hi; omega
    unfold downChunks
    extract_lets jpA jpB
    have hA : ∀ st1 : LoopSt, DownInv P n st1 →
        OkWith (jpA st1) (fun p => p.1.length = (ch :: rest).length ∧ DownInv P n p.2) := by
      intro st1 hinv1
      simp only [jpA]
      apply okWith_bind
      refine okWith_mono _ _ _ (ih (i + 1) st1 (by simp only [List.length_cons] at hi; omega)
        (fun c hc => hsz c (by simp [hc])) hinv1) ?_
      intro p2 h2
      exact okWith_pure _ _ ⟨by simp only [List.length_cons]; rw [h2.1], h2.2⟩
    clear_value jpA
    have hB : ∀ st0 : LoopSt, DownInv P n st0 →
        OkWith (jpB st0) (fun p => p.1.length = (ch :: rest).length ∧ DownInv P n p.2) := by
      intro st0 hinv0
      simp only [jpB]
      split
      · rename_i rl h1
        apply okWith_bind
        refine okWith_mono _ _ _ (downWhile_ok P n i 1 hi' (by omega) hD hlen hex _ rl st0 hinv0
          (hfuel rl st0 (mem_stables1 ch rl h1))) ?_
        intro a ha
        exact hA a.2 ha
      · exact hA st0 hinv0
    clear_value jpB
    split
    · rename_i rl h0
      apply okWith_bind
      refine okWith_mono _ _ _ (downWhile_ok P n i 0 hi' (by omega) hD hlen hex _ rl st hinv
        (hfuel rl st (mem_stables0 ch rl h0))) ?_
      intro a ha
      exact hB a.2 ha
    · exact hB st hinv

theorem length_pairs {α β} (f g : α → β) (l : List α) :
    (l.flatMap fun c => [f c, g c]).length = l.length * 2 := by
  induction l with
  | nil => rfl
  | cons a l ih => simp only [List.flatMap_cons, List.length_append, List.length_cons, List.length_nil, ih]; omega

theorem removeSlotsToScaleDown_ok (cl : Cluster) (epoch k : Nat) (hk : 0 < k)
    (hkn : k < cl.chunks.length) (hpre : DownPre cl k) :
    OkWith (removeSlotsToScaleDown cl epoch k)
      (fun p => p.1.length = cl.chunks.length ∧ ∀ m ∈ p.2, Good cl.chunks.length m) := by
  unfold removeSlotsToScaleDown
  extract_lets dstMasterNum average existing P
  have hm : dstMasterNum = k * 2 := rfl
  have hlen : existing.length = k * 2 := by
    show (List.flatMap _ (cl.chunks.take k)).length = k * 2
    rw [length_pairs, List.length_take]
    omega
  have hex : ∀ d e, P.existing[d]? = some e → e ≤ downFinal P d := hpre.2
  have hP1 : P.dstMasterNum = dstMasterNum := rfl
  have hP2 : P.existing = existing := rfl
  clear_value P existing average dstMasterNum
  split
  · rename_i h0; simp at h0; omega
  · apply okWith_bind
    refine okWith_mono _ _ _ (downChunks_ok P cl.chunks.length (by omega) (by rw [hP1, hP2]; omega) hex hpre.1.1
      (cl.chunks.drop k) k { dstIdx := 0, curSlots := [], curNum := 0, out := [] }
      (by rw [List.length_drop]; omega)
      (fun ch hch => hpre.1.2 ch (List.mem_of_mem_drop hch))
      ⟨by simp only; omega, fun e he => by have := hex _ _ he; simp only at this ⊢; omega, by simp⟩) ?_
    intro p hp
    refine okWith_pure _ _ ⟨?_, hp.2.2.2⟩
    rw [List.length_append, hp.1, List.length_take, List.length_drop]
    omega

/-- planning and assignment together -/
theorem planDown_ok (cl : Cluster) (epoch k : Nat) (hk : 0 < k)
    (hkn : k < cl.chunks.length) (hpre : DownPre cl k) :
    OkWith (do
      let (chunks, ms) ← removeSlotsToScaleDown cl epoch k
      assignDstSlots chunks ms : R (List Chunk)) (fun r => r.length = cl.chunks.length) := by
  apply okWith_bind
  refine okWith_mono _ _ _ (removeSlotsToScaleDown_ok cl epoch k hk hkn hpre) ?_
  intro p hp
  obtain ⟨chunks, ms⟩ := p
  refine okWith_mono _ _ _ (assignDstSlots_ok chunks ms (by rw [hp.1]; exact hp.2)) ?_
  intro r hr
  rw [hr]; exact hp.1

end Mig

open Mig in
/-- `migrate_slots_to_scale_down` never panics when the cluster found by name satisfies the
size and balance hypotheses -/
theorem migrateSlotsToScaleDown_no_panic' (s : Store) (name : String) (newNodeNum : Nat)
    (h : ∀ c, s.findCluster name = some c → DownPre c (newNodeNum / 4)) :
    ∀ w, (migrateSlotsToScaleDown s name newNodeNum).2 ≠ R.panic w := by
  intro w
  unfold migrateSlotsToScaleDown
  split
  · simp
  · simp only [findCluster_bump]
    split
    · simp
    · rename_i cl hcl
      split
      · simp
      · split
        · simp
        · split
          · simp
          · rename_i hnn
            simp only [Bool.or_eq_true, beq_iff_eq, bne_iff_ne, decide_eq_true_eq, not_or] at hnn
            obtain ⟨r, hr, _⟩ := planDown_ok cl s.bump.globalEpoch (newNodeNum / 4)
              (by omega) (by omega) (h cl hcl)
            rw [hr]
            simp

theorem migrateSlotsToScaleDown_no_panic (s : Store) (name : String) (newNodeNum : Nat)
    (h : ∀ c ∈ s.clusters, DownPre c (newNodeNum / 4)) :
    ∀ w, (migrateSlotsToScaleDown s name newNodeNum).2 ≠ R.panic w :=
  migrateSlotsToScaleDown_no_panic' s name newNodeNum
    (fun c hc => h c (List.mem_of_find?_eq_some hc))

end Um.Broker
