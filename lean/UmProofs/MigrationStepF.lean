import UmProofs.MigrationStepE
/-! C03 invariant preservation: scan-loop decisions, the handshake, UMSYNC delivery, the commit. -/
namespace Um.Mig

/-- only task states / flags change -/
theorem oinv_flags {s s' : Sys} (hO : OInv s) (hops : s'.ops = s.ops) (hn : s'.nextId = s.nextId)
    (hsrc : s'.src = s.src) (hdst : s'.dst = s.dst) (hcrit : critDump s' = critDump s) (hscan : s'.scan.held = s.scan.held)
    (hst : (∃ o ∈ s.ops, o.pc = .direct .src) → srcRank s.srcSt ≤ 1 → srcRank s'.srcSt ≤ 1)
    (hdt : s.dstTask = false → s'.dstTask = false) (hds : s.dstSt ≠ .preCheck → s'.dstSt ≠ .preCheck) : OInv s' := by
  refine oinv_eff hO hops (by omega) hst hdt hds (by rw [hsrc, hdst]; exact eff_refl s) ?_ ?_
  · intro _ h; rw [hcrit]; exact h
  · intro _ h; rw [hscan]; exact h

macro "flag_hammer" hG:ident : tactic =>
  `(tactic| (obtain ⟨a1, a2, a3a, a3b, a4a, a4b, a5a, a5b, a6, b1, b2, b2', b3a, b3b, b4a, b4b, b4c, b5a, b5b, b6a, b6b, b7, b8, g8, g9⟩ := $hG
             constructor <;> (simp only [critDump, Moved] at * ; mig_grind)))

theorem step_tau_global {s s' : Sys} {t : Tau} (hG : GInv s) (hO : OInv s)
    (ht : t = .srcPreCheckOk ∨ t = .startBlocking ∨ t = .blockingDone ∨ t = .srcPreSwitchOk ∨ t = .stopBlocking ∨
          t = .srcFinalSwitchOk)
    (hs : stepTau s t = some s') :
    (GInv s' ∧ OInv s') ∧ logical s' = logical s := by
  rcases ht with rfl | rfl | rfl | rfl | rfl | rfl
  all_goals
    simp only [stepTau] at hs
    obtain ⟨hg, rfl⟩ := guard_some hs
    simp only [Bool.and_eq_true, beq_iff_eq, Bool.not_eq_true', List.all_eq_true, bne_iff_ne, ne_eq] at hg
    refine ⟨⟨?_, ?_⟩, rfl⟩
  · flag_hammer hG
  · exact oinv_flags hO rfl rfl rfl rfl rfl rfl (fun _ _ => by simp [srcRank]) id id
  · flag_hammer hG
  · exact oinv_flags hO rfl rfl rfl rfl rfl rfl (fun _ h => h) id id
  · flag_hammer hG
  · refine oinv_flags hO rfl rfl rfl rfl rfl rfl ?_ id id
    rintro ⟨o, ho, hpc⟩ _
    exact absurd hpc (hg.2 o ho)
  · flag_hammer hG
  · refine oinv_flags hO rfl rfl rfl rfl rfl rfl ?_ id id
    intro _ h; rw [hg.1.2] at h; simp [srcRank] at h
  · flag_hammer hG
  · exact oinv_flags hO rfl rfl rfl rfl rfl rfl (fun _ h => h) id id
  · flag_hammer hG
  · refine oinv_flags hO rfl rfl rfl rfl rfl rfl ?_ id id
    intro _ h; rw [hg.1.2] at h; simp [srcRank] at h

theorem critFast_some {s : Sys} {k : Crit} (hk : s.crit = some k) : critFast s.crit = k.pc.isFast := by
  simp [critFast, hk]

theorem step_tau_scan {s s' : Sys} {t : Tau} (hG : GInv s) (hO : OInv s)
    (ht : t = .scanLock ∨ t = .scanSlow ∨ t = .scanEnd ∨ t = .scanFinish)
    (hs : stepTau s t = some s') :
    (GInv s' ∧ OInv s') ∧ logical s' = logical s := by
  rcases ht with rfl | rfl | rfl | rfl
  · -- a scan batch takes the slot mutex
    simp only [stepTau] at hs
    obtain ⟨hg, rfl⟩ := guard_some hs
    simp only [Bool.and_eq_true, beq_iff_eq, Bool.not_eq_true', mutexHeld, Bool.or_eq_false_iff] at hg
    obtain ⟨⟨⟨⟨hidle, _⟩, hsc⟩, _⟩, _, hnf⟩ := hg
    have hpre : s.dstSt ≠ .preCheck := hG.a2 (by rw [hsc]; decide)
    refine ⟨⟨?_, ?_⟩, rfl⟩
    · refine ginv_scan (s := s) (sc := .pttl true) hG (eff_refl s) ?_ ?_ ?_ ?_ ?_ ?_ ?_ hpre
      · simp [ScanPc.held]
      · simp [ScanPc.delPending]
      · simp [ScanPc.srcGone]
      · intro k hk hf; rw [critFast_some hk, hf] at hnf; cases hnf
      · simp [scanLocked]
      · simp [ScanPc.held]
      · intro _; rw [hsc]; rfl
    · exact oinv_flags hO rfl rfl rfl rfl rfl (by rw [hidle]; rfl) (fun _ h => h) id id
  · -- the scan loop picks the queued UMSYNC
    simp only [stepTau] at hs
    split at hs
    · rename_i k hk
      obtain ⟨hg, rfl⟩ := guard_some hs
      simp only [Bool.and_eq_true, beq_iff_eq, Bool.not_eq_true'] at hg
      obtain ⟨⟨⟨⟨hq, hidle⟩, _⟩, hsc⟩, _⟩ := hg
      have hpre : s.dstSt ≠ .preCheck := hG.a2 (by rw [hsc]; decide)
      have hG1 : GInv { s with src := s.src, dst := s.dst, crit := some { id := k.id, pc := .uSlow } } := by
        refine ginv_crit hG hk (eff_refl s) ?_ ?_ ?_ ?_ ?_ ?_ ?_ ?_
        · simp [CritPc.held]
        · simp [CritPc.delPending]
        · simp [CritPc.srcGone]
        · simp [CritPc.isFast]
        · simp [CritPc.isSyncGot]
        · intro h; exact absurd hidle h
        · simp [CritPc.held]
        · intro _; rw [hq]; simp [CritPc.isPull]
      refine ⟨⟨?_, ?_⟩, rfl⟩
      · refine ginv_scan (sc := .pttl false) hG1 (Or.inl ⟨rfl, rfl⟩) ?_ ?_ ?_ ?_ ?_ ?_ ?_ hpre
        · simp [ScanPc.held]
        · simp [ScanPc.delPending]
        · simp [ScanPc.srcGone]
        · intro k' hk' hf; cases hk'; simp [CritPc.isFast] at hf
        · intro _ _; exact ⟨_, rfl, rfl⟩
        · simp [ScanPc.held]
        · intro _; show srcRank s.srcSt = 3; rw [hsc]; rfl
      · refine oinv_flags hO rfl rfl rfl rfl ?_ (by rw [hidle]; rfl) (fun _ h => h) id id
        simp [critDump, setCrit, hk, hq, CritPc.held]
    · simp at hs
  · -- end of a batch
    simp only [stepTau] at hs
    split at hs
    · rename_i hsc
      cases hs
      obtain ⟨hr, hpre⟩ := scan_active hG (by rw [hsc]; simp)
      refine ⟨⟨?_, ?_⟩, rfl⟩
      · refine ginv_scan (s := s) (sc := .idle) hG (eff_refl s) ?_ ?_ ?_ ?_ ?_ ?_ ?_ hpre <;> simp [ScanPc.held, ScanPc.delPending, ScanPc.srcGone]
      · exact oinv_flags hO rfl rfl rfl rfl rfl (by rw [hsc]; rfl) (fun _ h => h) id id
    · rename_i hsc
      obtain ⟨hr, hpre⟩ := scan_active hG (by rw [hsc]; simp)
      have hgone : s.src = none := hG.b5b (by rw [hsc]; rfl)
      have hG1 : GInv { s with src := s.src, dst := s.dst, scan := .idle } := by
        refine ginv_scan (s := s) (sc := .idle) hG (eff_refl s) ?_ ?_ ?_ ?_ ?_ ?_ ?_ hpre <;> simp [ScanPc.held, ScanPc.delPending, ScanPc.srcGone]
      have hO1 : OInv { s with src := s.src, dst := s.dst, scan := .idle } :=
        oinv_flags hO rfl rfl rfl rfl rfl (by rw [hsc]; rfl) (fun _ h => h) id id
      split at hs
      · rename_i k hk
        split at hs
        · rename_i hslow
          cases hs
          simp only [beq_iff_eq] at hslow
          refine ⟨⟨?_, ?_⟩, rfl⟩
          · refine ginv_crit (s := { s with src := s.src, dst := s.dst, scan := .idle }) (pc := .uSyncGot .ok) hG1 hk
              (Or.inl ⟨rfl, rfl⟩) ?_ ?_ ?_ ?_ ?_ ?_ ?_ ?_
            · simp [CritPc.held]
            · simp [CritPc.delPending]
            · intro _; exact hgone
            · simp [CritPc.isFast]
            · simp [ScanPc.held]
            · intro h; exact absurd rfl h
            · simp [CritPc.held]
            · intro _; rw [hslow]; simp [CritPc.isPull]
          · refine oinv_flags hO1 rfl rfl rfl rfl ?_ rfl (fun _ h => h) id id
            simp [critDump, setCrit, hk, hslow, CritPc.held]
        · cases hs; exact ⟨⟨hG1, hO1⟩, rfl⟩
      · cases hs; exact ⟨⟨hG1, hO1⟩, rfl⟩
    · simp at hs
  · -- the scan is over
    simp only [stepTau] at hs
    obtain ⟨hg, rfl⟩ := guard_some hs
    simp only [Bool.and_eq_true, beq_iff_eq, Bool.not_eq_true', Option.isNone_iff_eq_none] at hg
    obtain ⟨⟨⟨⟨_, hsc⟩, hidle⟩, hsrc⟩, hnb⟩ := hg
    have hG1 : GInv { s with srcSt := .finalSwitch, queueClosed := true } := by
      flag_hammer hG
    have hO1 : OInv { s with srcSt := .finalSwitch, queueClosed := true } := by
      refine oinv_flags hO rfl rfl rfl rfl rfl rfl ?_ id id
      intro _ h; rw [hsc] at h; simp [srcRank] at h
    split
    · rename_i k hk
      split
      · rename_i hq
        simp only [beq_iff_eq] at hq
        refine ⟨⟨?_, ?_⟩, rfl⟩
        · refine ginv_crit (s := { s with srcSt := .finalSwitch, queueClosed := true }) (pc := .uSyncGot .finished) hG1 hk
            (Or.inl ⟨rfl, rfl⟩) ?_ ?_ ?_ ?_ ?_ ?_ ?_ ?_
          · simp [CritPc.held]
          · simp [CritPc.delPending]
          · intro _; exact hsrc
          · simp [CritPc.isFast]
          · intro _; show s.scan.held = none; rw [hidle]; rfl
          · intro h; exact absurd hidle h
          · simp [CritPc.held]
          · intro _; rw [hq]; simp [CritPc.isPull]
        · refine oinv_flags hO1 rfl rfl rfl rfl ?_ rfl (fun _ h => h) id id
          simp [critDump, setCrit, hk, hq, CritPc.held]
      · exact ⟨⟨hG1, hO1⟩, rfl⟩
    · exact ⟨⟨hG1, hO1⟩, rfl⟩

end Um.Mig
