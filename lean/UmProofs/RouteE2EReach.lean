import UmProofs.RouteE2EExample
import UmProps.C01
import UmProps.C12
import UmProofs.RouteE2ENodes
/-!
# C02, broker layer: `ViewOk` and `Synced` from reachable broker states

For every bounded run (`PlanBound` on every prefix, as in C01) the view the broker serves for a
cluster under any migration limit is `viewP lc` (`lc` = the limited cluster) and satisfies
`ViewOk`, given the three facts that are *not* broker invariants:
the cluster name is not empty (`ClusterName::try_from("")` succeeds) and — for a slot under
migration — source and destination proxy differ.  That the two Redis nodes of every proxy have
different addresses *is* an invariant since the fix of finding F02a (`nodesDistinct_of_run`).  `SyncedWith` says, in terms of the broker's own query
`proxyView`, that every proxy of the cluster has installed what is served for it; it implies
`Synced`.
-/
namespace Um.E2E
open Um Um.Broker Um.Route Um.Slots

/-! ## the nodes of `viewP` -/

theorem mem_chunkNodesP_iff (c : Chunk) (chunks : List Chunk) (n : VNode) :
    n ∈ chunkNodesP c chunks ↔ ∃ i, i < 4 ∧ n = chunkNodeP c chunks i := by
  unfold chunkNodesP
  have h4 : List.range Um.Gen.Chunk.CHUNK_NODE_NUM = [0, 1, 2, 3] := by decide
  rw [h4]
  simp only [List.map_cons, List.map_nil, List.mem_cons, List.not_mem_nil, or_false]
  constructor
  · rintro (h | h | h | h)
    · exact ⟨0, by omega, h⟩
    · exact ⟨1, by omega, h⟩
    · exact ⟨2, by omega, h⟩
    · exact ⟨3, by omega, h⟩
  · rintro ⟨i, hi, h⟩
    have : i = 0 ∨ i = 1 ∨ i = 2 ∨ i = 3 := by omega
    rcases this with rfl | rfl | rfl | rfl
    · exact Or.inl h
    · exact Or.inr (Or.inl h)
    · exact Or.inr (Or.inr (Or.inl h))
    · exact Or.inr (Or.inr (Or.inr h))

theorem chunkNodeP_proxy (c : Chunk) (chunks : List Chunk) (i : Nat) (hi : i < 4) :
    (chunkNodeP c chunks i).proxy = if i < 2 then c.proxy0 else c.proxy1 := by
  have : i = 0 ∨ i = 1 ∨ i = 2 ∨ i = 3 := by omega
  rcases this with rfl | rfl | rfl | rfl <;> rfl

/-- the proxies of the served view are exactly the proxy addresses of the stored cluster -/
theorem isProxy_viewP_iff (cl : Cluster) (a : String) : IsProxy (viewP cl) a ↔ a ∈ cl.proxyAddrs := by
  unfold IsProxy
  rw [Cluster.mem_proxyAddrs]
  constructor
  · rintro ⟨n, hn, rfl⟩
    simp only [viewP, List.mem_flatMap] at hn
    obtain ⟨c, hc, hn⟩ := hn
    obtain ⟨i, hi, rfl⟩ := (mem_chunkNodesP_iff c cl.chunks n).mp hn
    refine ⟨c, hc, ?_⟩
    rw [chunkNodeP_proxy c cl.chunks i hi]
    by_cases h : i < 2
    · left; rw [if_pos h]
    · right; rw [if_neg h]
  · rintro ⟨c, hc, h | h⟩
    · refine ⟨chunkNodeP c cl.chunks 0, ?_, ?_⟩
      · simp only [viewP, List.mem_flatMap]
        exact ⟨c, hc, (mem_chunkNodesP_iff _ _ _).mpr ⟨0, by omega, rfl⟩⟩
      · rw [h]; rfl
    · refine ⟨chunkNodeP c cl.chunks 2, ?_, ?_⟩
      · simp only [viewP, List.mem_flatMap]
        exact ⟨c, hc, (mem_chunkNodesP_iff _ _ _).mpr ⟨2, by omega, rfl⟩⟩
      · rw [h]; rfl

/-! ## pending ranges are compacted and in range -/

theorem tagged_bound {v : VCluster} (hV : PartitionView v) {n : VNode} {sr : SlotRange}
    (hn : n ∈ v.nodes) (hsr : sr ∈ n.slots) (ht : SlotRange.tagged sr = true) (hnorm : NormalRanges sr.ranges) :
    ∀ r ∈ sr.ranges, r.2 < SLOT_NUM := by
  intro r hr
  have hle := normal_each _ hnorm r hr
  have hmem : r.2 ∈ slotsOf sr.ranges := by
    unfold slotsOf
    exact List.mem_flatMap.mpr ⟨r, hr, (mem_rangeSlots r r.2).mpr ⟨hle, Nat.le_refl _⟩⟩
  -- an owning range with the same range list
  have hown : ∃ n' s', Cov v r.2 n' s' ∧ s'.isOwned = true := by
    cases htag : sr.tag with
    | none => unfold SlotRange.tagged at ht; rw [htag] at ht; cases ht
    | migrating i =>
      exact ⟨n, sr, cov_of_mem hV hn hsr hmem, by unfold SlotRange.isOwned; rw [htag]⟩
    | importing i =>
      obtain ⟨n', s', hc, ht', _⟩ := twin_of_importing hV (cov_of_mem hV hn hsr hmem) htag
      exact ⟨n', s', hc, by unfold SlotRange.isOwned; rw [ht']⟩
  obtain ⟨n', s', hc, ho⟩ := hown
  apply mem_ownedSlots_lt hV
  unfold VCluster.ownedSlots
  refine List.mem_flatMap.mpr ⟨n', List.mem_filter.mpr ⟨hc.node, by simp [hc.master]⟩, ?_⟩
  unfold VNode.ownedSlots
  exact List.mem_flatMap.mpr ⟨s', List.mem_filter.mpr ⟨hc.range, ho⟩, hc.covers⟩

theorem migD_sub_migs (c : Chunk) (part : Nat) (m : MigStore) (h : m ∈ migD c part) : m ∈ c.migs := by
  unfold migD at h
  unfold Chunk.migs
  split at h
  · exact List.mem_append_left _ h
  · exact List.mem_append_right _ h

theorem pendingNormal_viewP (cl : Cluster) (hS : SlotInv cl) (hV : PartitionView (viewP cl)) :
    PendingNormal (viewP cl) := by
  intro n hn sr hsr ht
  have hnorm : NormalRanges sr.ranges := by
    obtain ⟨i, c, part, hget, _, _, hsrc⟩ := mem_view_slots cl n sr hn hsr
    have hc : c ∈ cl.chunks := List.mem_of_getElem? hget
    rcases hsrc with h | ⟨m, hm, rfl⟩
    · exfalso
      unfold stableSR at h
      split at h
      · simp only [List.mem_cons, List.not_mem_nil, or_false] at h
        rw [h] at ht; cases ht
      · cases h
    · exact ((hS.1 c hc).2 m (migD_sub_migs c part m hm)).1
  exact ⟨hnorm, tagged_bound hV hn hsr ht hnorm⟩

/-! ## distinct node addresses per proxy -/

/-- the two Redis nodes of each proxy of the cluster have different addresses.  Since /repo bf43b2d
`add_proxy` refuses equal node addresses (fix of finding F02a), so this holds of every cluster of
every reachable store: `nodesDistinct_of_run`. -/
def NodesDistinct (cl : Cluster) : Prop := ∀ c ∈ cl.chunks, c.node0 ≠ c.node1 ∧ c.node2 ≠ c.node3

/-- addresses of the masters a chunk places on proxy `a` -/
def chunkLocal (chunks : List Chunk) (a : String) (c : Chunk) : List String :=
  (((chunkNodesP c chunks).filter fun n => n.proxy == a).filter fun n => !n.replica).map (·.address)

theorem mastersOn_viewP (cl : Cluster) (a : String) :
    (mastersOn (viewP cl) a).map (·.address) = cl.chunks.flatMap (chunkLocal cl.chunks a) := by
  unfold mastersOn chunkLocal viewP
  simp only [List.filter_flatMap, List.map_flatMap]

theorem chunkLocal_nil (chunks : List Chunk) (a : String) (c : Chunk) (h0 : c.proxy0 ≠ a) (h1 : c.proxy1 ≠ a) :
    chunkLocal chunks a c = [] := by
  unfold chunkLocal
  have : (chunkNodesP c chunks).filter (fun n => n.proxy == a) = [] := by
    rw [List.filter_eq_nil_iff]
    intro n hn
    obtain ⟨i, hi, rfl⟩ := (mem_chunkNodesP_iff c chunks n).mp hn
    rw [chunkNodeP_proxy c chunks i hi]
    by_cases h : i < 2
    · rw [if_pos h]; simpa using h0
    · rw [if_neg h]; simpa using h1
  rw [this]; rfl

theorem chunkLocal_eq (chunks : List Chunk) (a : String) (c : Chunk) :
    chunkLocal chunks a c =
      ((([(c.node0, c.proxy0, replicaD c.role 0), (c.node1, c.proxy0, replicaD c.role 1),
          (c.node2, c.proxy1, replicaD c.role 2), (c.node3, c.proxy1, replicaD c.role 3)] :
          List (String × String × Bool)).filter fun x => x.2.1 == a).filter fun x => !x.2.2).map (·.1) := by
  have h4 : List.range Um.Gen.Chunk.CHUNK_NODE_NUM = [0, 1, 2, 3] := by decide
  have key : chunkNodesP c chunks =
      ([(c.node0, c.proxy0, replicaD c.role 0), (c.node1, c.proxy0, replicaD c.role 1),
        (c.node2, c.proxy1, replicaD c.role 2), (c.node3, c.proxy1, replicaD c.role 3)] :
        List (String × String × Bool)).zipWith (fun x n => n)
        [chunkNodeP c chunks 0, chunkNodeP c chunks 1, chunkNodeP c chunks 2, chunkNodeP c chunks 3] := by
    unfold chunkNodesP; rw [h4]; rfl
  unfold chunkLocal
  unfold chunkNodesP
  rw [h4]
  simp only [List.map_cons, List.map_nil, List.filter_cons, List.filter_nil]
  have q0 : (chunkNodeP c chunks 0).proxy = c.proxy0 := rfl
  have q1 : (chunkNodeP c chunks 1).proxy = c.proxy0 := rfl
  have q2 : (chunkNodeP c chunks 2).proxy = c.proxy1 := rfl
  have q3 : (chunkNodeP c chunks 3).proxy = c.proxy1 := rfl
  have r0 : (chunkNodeP c chunks 0).replica = replicaD c.role 0 := rfl
  have r1 : (chunkNodeP c chunks 1).replica = replicaD c.role 1 := rfl
  have r2 : (chunkNodeP c chunks 2).replica = replicaD c.role 2 := rfl
  have r3 : (chunkNodeP c chunks 3).replica = replicaD c.role 3 := rfl
  have a0 : (chunkNodeP c chunks 0).address = c.node0 := rfl
  have a1 : (chunkNodeP c chunks 1).address = c.node1 := rfl
  have a2 : (chunkNodeP c chunks 2).address = c.node2 := rfl
  have a3 : (chunkNodeP c chunks 3).address = c.node3 := rfl
  simp only [q0, q1, q2, q3]
  cases (c.proxy0 == a) <;> cases (c.proxy1 == a) <;>
    simp only [Bool.false_eq_true, if_false, if_true, List.filter_cons, List.filter_nil, r0, r1, r2, r3] <;>
    cases replicaD c.role 0 <;> cases replicaD c.role 1 <;> cases replicaD c.role 2 <;> cases replicaD c.role 3 <;>
    simp [a0, a1, a2, a3]

theorem chunkLocal_nodup (chunks : List Chunk) (a : String) (c : Chunk) (hp : c.proxy0 ≠ c.proxy1)
    (hn : c.node0 ≠ c.node1 ∧ c.node2 ≠ c.node3) : (chunkLocal chunks a c).Nodup := by
  rw [chunkLocal_eq]
  have both : ¬ ((c.proxy0 == a) = true ∧ (c.proxy1 == a) = true) := by
    rintro ⟨h0, h1⟩
    exact hp ((beq_iff_eq.mp h0).trans (beq_iff_eq.mp h1).symm)
  rcases hr : c.role with _ | _ | _ <;>
    simp only [show replicaD RolePos.normal 0 = false from rfl, show replicaD RolePos.normal 1 = true from rfl,
      show replicaD RolePos.normal 2 = false from rfl, show replicaD RolePos.normal 3 = true from rfl,
      show replicaD RolePos.first 0 = false from rfl, show replicaD RolePos.first 1 = false from rfl,
      show replicaD RolePos.first 2 = true from rfl, show replicaD RolePos.first 3 = true from rfl,
      show replicaD RolePos.second 0 = true from rfl, show replicaD RolePos.second 1 = true from rfl,
      show replicaD RolePos.second 2 = false from rfl, show replicaD RolePos.second 3 = false from rfl] <;>
    cases h0 : (c.proxy0 == a) <;> cases h1 : (c.proxy1 == a) <;>
    first
    | exact absurd (And.intro h0 h1) both
    | simp [List.filter_cons, h0, h1, hn.1, hn.2]

theorem flatMap_chunkLocal_nodup (all : List Chunk) (a : String) :
    ∀ (chunks : List Chunk), (chunks.flatMap fun ch => [ch.proxy0, ch.proxy1]).Nodup →
      (∀ c ∈ chunks, c.node0 ≠ c.node1 ∧ c.node2 ≠ c.node3) → (chunks.flatMap (chunkLocal all a)).Nodup := by
  intro chunks
  induction chunks with
  | nil => intro _ _; simp
  | cons c cs ih =>
    intro hnd hn
    simp only [List.flatMap_cons] at hnd ⊢
    rw [List.nodup_append] at hnd
    obtain ⟨hc, hcs, hdis⟩ := hnd
    have hp : c.proxy0 ≠ c.proxy1 := by
      intro h
      rw [h] at hc
      simp at hc
    have ihs := ih hcs (fun x hx => hn x (List.mem_cons_of_mem _ hx))
    by_cases hin : c.proxy0 = a ∨ c.proxy1 = a
    · -- no later chunk mentions `a`
      have hrest : cs.flatMap (chunkLocal all a) = [] := by
        rw [List.flatMap_eq_nil_iff]
        intro x hx
        apply chunkLocal_nil
        · intro h
          have hm : x.proxy0 ∈ cs.flatMap fun ch => [ch.proxy0, ch.proxy1] :=
            List.mem_flatMap.mpr ⟨x, hx, by simp⟩
          rcases hin with h' | h'
          · exact hdis c.proxy0 (by simp) x.proxy0 hm (h'.trans h.symm)
          · exact hdis c.proxy1 (by simp) x.proxy0 hm (h'.trans h.symm)
        · intro h
          have hm : x.proxy1 ∈ cs.flatMap fun ch => [ch.proxy0, ch.proxy1] :=
            List.mem_flatMap.mpr ⟨x, hx, by simp⟩
          rcases hin with h' | h'
          · exact hdis c.proxy0 (by simp) x.proxy1 hm (h'.trans h.symm)
          · exact hdis c.proxy1 (by simp) x.proxy1 hm (h'.trans h.symm)
      rw [hrest, List.append_nil]
      exact chunkLocal_nodup all a c hp (hn c (by simp))
    · have h0 : c.proxy0 ≠ a := fun h => hin (Or.inl h)
      have h1 : c.proxy1 ≠ a := fun h => hin (Or.inr h)
      rw [chunkLocal_nil all a c h0 h1, List.nil_append]
      exact ihs

theorem localNodup_viewP (cl : Cluster) (hnd : cl.proxyAddrs.Nodup) (hn : NodesDistinct cl) (a : String) :
    ((mastersOn (viewP cl) a).map (·.address)).Nodup := by
  rw [mastersOn_viewP]
  exact flatMap_chunkLocal_nodup cl.chunks a cl.chunks hnd hn

/-! ## the served view of a bounded run -/

theorem proxyAddrs_of_addrs {c c' : Cluster} (h : c'.chunks.map Chunk.addrs = c.chunks.map Chunk.addrs) :
    c'.proxyAddrs = c.proxyAddrs := by
  unfold Cluster.proxyAddrs
  have key : ∀ (l : List Chunk), (l.flatMap fun ch => [ch.proxy0, ch.proxy1]) =
      (l.map Chunk.addrs).flatMap fun x => [x.2.1.1, x.2.1.2] := by
    intro l
    induction l with
    | nil => rfl
    | cons x xs ih => simp only [List.flatMap_cons, List.map_cons, ih]; rfl
  rw [key, key, h]

theorem nodesDistinct_of_addrs {c c' : Cluster} (h : c'.chunks.map Chunk.addrs = c.chunks.map Chunk.addrs)
    (hn : NodesDistinct c) : NodesDistinct c' := by
  intro x hx
  have hm : x.addrs ∈ c.chunks.map Chunk.addrs := by rw [← h]; exact List.mem_map.mpr ⟨x, hx, rfl⟩
  obtain ⟨y, hy, he⟩ := List.mem_map.mp hm
  have := hn y hy
  unfold Chunk.addrs at he
  simp only [Prod.mk.injEq] at he
  obtain ⟨_, _, _, e0, e1, e2, e3⟩ := he
  rw [← e0, ← e1, ← e2, ← e3]
  exact this

/-- every stored cluster of every run has `NodesDistinct` (`UmProofs/RouteE2ENodes.lean`: `add_proxy`
is the only operation that registers a proxy and it refuses equal node addresses) -/
theorem nodesDistinct_of_run (ops : List Op) (cl : Cluster) (h : cl ∈ (run ops).clusters) : NodesDistinct cl :=
  chunk_nodes_distinct (run ops) (reachable_run ops) cl h

/-- what the broker serves for cluster `name` under `limit` in a bounded run: the view `v`, with
everything the routing theorems need -/
structure Served (s : Store) (name : String) (limit : Nat) (cl : Cluster) (v : VCluster) : Prop where
  cluster : clusterView s name limit = .ok (some v)
  ok : ViewOk v
  proxies : ∀ a, IsProxy v a ↔ a ∈ cl.proxyAddrs
  proxy : ∀ a ∈ cl.proxyAddrs, proxyView s a limit = .ok (some (proxyOfView a v))
  vname : v.name = name

theorem served_of_run (ops : List Op) (hb : ∀ k, Plan.PlanBound (run (ops.take k)))
    (name : String) (limit : Nat) (cl : Cluster) (hc : (run ops).findCluster name = some cl)
    (hvalid : validName name = true) (hname : name ≠ "") :
    ∃ v, Served (run ops) name limit cl v := by
  obtain ⟨hcm, hcn⟩ := Store.findCluster_some hc
  have hnodes : NodesDistinct cl := nodesDistinct_of_run ops cl hcm
  have hinv := Um.Broker.C01.C01_store_invariants ops hb cl hcm
  obtain ⟨lc, hl, hlc, hepoch, hlname, _, _, haddrs⟩ := limitMigration_spec cl limit hinv
  obtain ⟨r1, r2, r3, r4, _⟩ := Um.Broker.C12_accounting (run ops) (reachable_run ops)
  have hpa : lc.proxyAddrs = cl.proxyAddrs := proxyAddrs_of_addrs haddrs
  have hnd : cl.proxyAddrs.Nodup := nodup_flatMap_elem _ _ r3 cl hcm
  have hV := partitionView_viewP lc hlc.1 hlc.2.1 hlc.2.2
  refine ⟨viewP lc, clusterView_eq _ name limit cl lc hvalid hc hl hlc.1, ⟨hV, ⟨?_, ?_⟩, ?_, ?_⟩, ?_, ?_, ?_⟩
  · exact localNodup_viewP lc (hpa ▸ hnd) (nodesDistinct_of_addrs haddrs hnodes)
  · intro a; exact proxy_peers_nodup lc a (hpa ▸ hnd)
  · show lc.name ≠ ""
    rw [hlname, hcn]; exact hname
  · exact pendingNormal_viewP lc hlc.2.2 hV
  · intro a; rw [isProxy_viewP_iff, hpa]
  · intro a ha
    obtain ⟨ch, hch, hor⟩ := Cluster.mem_proxyAddrs.mp ha
    obtain ⟨⟨p0, hp0, e0, c0, _⟩, ⟨p1, hp1, e1, c1, _⟩⟩ := r4 cl hcm ch hch
    have hfc : (run ops).findCluster cl.name = some cl := by rw [hcn]; exact hc
    rcases hor with rfl | rfl
    · have hf := Store.findProxy_of_mem r1 hp0
      rw [e0] at hf
      exact proxyView_eq _ _ limit p0 cl lc hf (by rw [c0]; exact hfc) hl hlc.1
    · have hf := Store.findProxy_of_mem r1 hp1
      rw [e1] at hf
      exact proxyView_eq _ _ limit p1 cl lc hf (by rw [c1]; exact hfc) hl hlc.1
  · show lc.name = name
    rw [hlname, hcn]

/-- every proxy of the cluster is reachable under its address and has installed — through
`encodeFor`, a faithful wire and an accepted `set_meta` — the view `get_proxy_by_address` serves for
it in store `s` under `limit` -/
def SyncedWith (cfg : RouteCfg) (s : Store) (cl : Cluster) (limit : Nat) (net : Addr → Option ProxyState) : Prop :=
  ∀ a ∈ cl.proxyAddrs, ∃ pv p c m', proxyView s a limit = .ok (some pv) ∧ net a = some p ∧
    WireFaithful (encodeFor c pv) m' ∧ Installed cfg m' p

theorem synced_of_syncedWith {cfg : RouteCfg} {s : Store} {name : String} {limit : Nat} {cl : Cluster} {v : VCluster}
    {net : Addr → Option ProxyState} (hs : Served s name limit cl v) (h : SyncedWith cfg s cl limit net) :
    Synced cfg v net := by
  intro a ha
  have hm := (hs.proxies a).mp ha
  obtain ⟨pv, p, c, m', hpv, hn, hw, hi⟩ := h a hm
  rw [hs.proxy a hm] at hpv
  injection hpv with hpv
  injection hpv with hpv
  subst hpv
  exact ⟨p, hn, ⟨⟨c, m', hw, hi⟩⟩⟩

/-! ## non-vacuity: a concrete bounded run with every proxy synced -/

/-- every registered proxy has installed, from scratch and through the plain encoding, what the
broker serves for it -/
def freshNet (s : Store) (limit : Nat) : Addr → Option ProxyState := fun a =>
  match proxyView s a limit with
  | .ok (some pv) => some (installFresh {} (dropEmpty (encodeFor false pv)))
  | _ => none

theorem syncedWith_fresh {s : Store} {name : String} {limit : Nat} {cl : Cluster} {v : VCluster}
    (hs : Served s name limit cl v) : SyncedWith {} s cl limit (freshNet s limit) := by
  intro a ha
  refine ⟨proxyOfView a v, installFresh {} (dropEmpty (encodeFor false (proxyOfView a v))), false, _,
    hs.proxy a ha, ?_, WireFaithful.of_dropEmpty _, installFresh_installed _ _⟩
  unfold freshNet
  rw [hs.proxy a ha]

/-- two proxies, one 4-node cluster -/
def runOps : List Op :=
  [.addProxy "p1:1" "p1:11" "p1:12" none none, .addProxy "p2:1" "p2:11" "p2:12" none none, .addCluster "c" 4 [("p1:1", "p2:1")]]

theorem runOps_bound : ∀ k, Plan.PlanBound (run (runOps.take k)) := by
  intro k
  unfold Plan.PlanBound
  match k with
  | 0 => decide
  | 1 => decide
  | 2 => decide
  | k + 3 =>
    have : runOps.take (k + 3) = runOps := by simp [runOps]
    rw [this]; decide

theorem runOps_found : ((run runOps).findCluster "c").isSome = true := by decide

/-- the stored cluster of the example run -/
def runCluster : Cluster := ((run runOps).findCluster "c").get runOps_found

theorem runCluster_found : (run runOps).findCluster "c" = some runCluster := by
  unfold runCluster; simp

end Um.E2E
