import UmProofs.BrokerSlotsA
/-!
# C01, planning layer — basics

Shared vocabulary for the lemmas about the operations that *create* clusters, chunks and
migrations (`addCluster`, `autoAddNodes`, `migrateSlots`, `migrateSlotsToScaleDown`):

* `CInv c := PosInv c ∧ TwinInv c ∧ SlotInv c`;
* the `R` monad (`bind_ok`), `iterate` induction principle;
* slot bookkeeping by `List.count` (`perm_iff_count`, `nodup_iff_count`);
* range-list facts (`NormalRanges` under `dropLast`/changing the last end, `slotsNum` vs. `slotsOf`);
* chunk-list views of the cluster invariants (`stableSlots`, `migsL`, `migSlots`, `NoMig`).

Everything lives in `Um.Broker.Plan` so that helper names cannot clash with other agents' files.
-/
namespace Um.Broker.Plan
open Um Um.Slots Um.Broker

/-- the three per-cluster store invariants of C01 -/
def CInv (c : Cluster) : Prop := PosInv c ∧ TwinInv c ∧ SlotInv c

/-! ## the result monad -/

instance lawfulR : LawfulMonad R := LawfulMonad.mk'
  (id_map := fun x => by cases x <;> rfl)
  (pure_bind := fun x f => rfl)
  (bind_assoc := fun x f g => by cases x <;> rfl)

theorem bind_ok {α β : Type} {x : R α} {f : α → R β} {b : β} (h : (x >>= f) = R.ok b) :
    ∃ a, x = R.ok a ∧ f a = R.ok b := by
  cases x with
  | ok a => exact ⟨a, rfl, h⟩
  | err e => exact absurd h (by intro h; cases h)
  | panic w => exact absurd h (by intro h; cases h)
  | badChoice w => exact absurd h (by intro h; cases h)

@[simp] theorem ok_bind {α β : Type} (a : α) (f : α → R β) : (R.ok a >>= f) = f a := rfl

@[simp] theorem pure_eq_ok {α : Type} (a : α) : (pure a : R α) = R.ok a := rfl

theorem range'_glue {a b c : Nat} (h1 : a ≤ b) (h2 : b ≤ c) :
    List.range' a (b - a) ++ List.range' b (c - b) = List.range' a (c - a) := by
  obtain ⟨m, rfl⟩ := Nat.exists_eq_add_of_le h1
  obtain ⟨n, rfl⟩ := Nat.exists_eq_add_of_le h2
  have e1 : a + m - a = m := by omega
  have e2 : a + m + n - (a + m) = n := by omega
  have e3 : a + m + n - a = m + n := by omega
  rw [e1, e2, e3, List.range'_append_1]

theorem pure_ok {α : Type} {a b : α} (h : (pure a : R α) = R.ok b) : a = b := by
  injection h

/-- induction principle for the fuel loop `iterate`: an invariant kept by `.cont` iterations and
a postcondition established by `.done` iterations -/
theorem iterate_ind {α : Type} (f : α → R (Iter α)) (Inv Post : α → Prop)
    (hcont : ∀ a a', Inv a → f a = R.ok (.cont a') → Inv a')
    (hdone : ∀ a a', Inv a → f a = R.ok (.done a') → Post a') :
    ∀ (fuel : Nat) (a a' : α), Inv a → iterate f fuel a = R.ok a' → Post a' := by
  intro fuel
  induction fuel with
  | zero => intro a a' _ h; simp [iterate] at h
  | succ n ih =>
    intro a a' hinv h
    unfold iterate at h
    split at h
    · rename_i a1 heq
      injection h with h; subst h
      exact hdone a _ hinv heq
    · rename_i a1 heq
      exact ih a1 a' (hcont a a1 hinv heq) h
    · cases h
    · cases h
    · cases h

/-! ## counting -/

theorem perm_of_count {l₁ l₂ : List Nat} (h : ∀ a, l₁.count a = l₂.count a) : l₁.Perm l₂ :=
  List.perm_iff_count.mpr h

theorem count_of_perm {l₁ l₂ : List Nat} (h : l₁.Perm l₂) (a : Nat) : l₁.count a = l₂.count a :=
  List.perm_iff_count.mp h a

theorem nodup_of_count {l : List Nat} (h : ∀ a, l.count a ≤ 1) : l.Nodup := List.nodup_iff_count.mpr h

theorem count_of_nodup {l : List Nat} (h : l.Nodup) (a : Nat) : l.count a ≤ 1 := List.nodup_iff_count.mp h a

/-! ## ranges -/

theorem slotsOf_single (r : Range) : slotsOf [r] = rangeSlots r := by simp [slotsOf]

theorem wf_nil : WFRanges [] := fun _ h => by cases h

theorem wf_append {a b : RangeList} : WFRanges (a ++ b) ↔ WFRanges a ∧ WFRanges b := by
  unfold WFRanges
  constructor
  · intro h; exact ⟨fun r hr => h r (List.mem_append_left _ hr), fun r hr => h r (List.mem_append_right _ hr)⟩
  · intro h r hr
    rcases List.mem_append.mp hr with h1 | h1
    · exact h.1 r h1
    · exact h.2 r h1

theorem wf_single {r : Range} : WFRanges [r] ↔ r.1 ≤ r.2 := by
  unfold WFRanges; simp

theorem wf_cons {r : Range} {l : RangeList} : WFRanges (r :: l) ↔ r.1 ≤ r.2 ∧ WFRanges l := by
  unfold WFRanges; simp

theorem start_mem_rangeSlots {r : Range} (h : r.1 ≤ r.2) : r.1 ∈ rangeSlots r :=
  (mem_rangeSlots r r.1).2 ⟨Nat.le_refl _, h⟩

/-- a non-empty list of well-formed ranges covers at least one slot -/
theorem slotsOf_ne_nil {l : RangeList} (hwf : WFRanges l) (hne : l ≠ []) : slotsOf l ≠ [] := by
  cases l with
  | nil => exact absurd rfl hne
  | cons r rs =>
    intro h
    have : r.1 ∈ slotsOf (r :: rs) := by
      rw [slotsOf_cons]; exact List.mem_append_left _ (start_mem_rangeSlots (hwf r (by simp)))
    rw [h] at this; cases this

theorem length_rangeSlots {r : Range} (h : r.1 ≤ r.2) : (rangeSlots r).length = rangeNum r := by
  unfold rangeSlots rangeNum; simp; omega

theorem slotsNum_nil : slotsNum [] = 0 := rfl
theorem slotsNum_cons (r : Range) (l : RangeList) : slotsNum (r :: l) = rangeNum r + slotsNum l := by
  simp [slotsNum]
theorem slotsNum_append (a b : RangeList) : slotsNum (a ++ b) = slotsNum a + slotsNum b := by
  simp [slotsNum, List.sum_append]
theorem slotsNum_single (r : Range) : slotsNum [r] = rangeNum r := by simp [slotsNum]

theorem rangeNum_pos (r : Range) : 0 < rangeNum r := by unfold rangeNum; omega

/-- on well-formed ranges the code's slot count is the number of covered slots -/
theorem slotsNum_eq_length {l : RangeList} (h : WFRanges l) : slotsNum l = (slotsOf l).length := by
  induction l with
  | nil => rfl
  | cons r rs ih =>
    rw [slotsNum_cons, slotsOf_cons, List.length_append, length_rangeSlots (wf_cons.mp h).1,
      ih (wf_cons.mp h).2]

theorem slotsNum_eq_zero {l : RangeList} (h : slotsNum l = 0) : l = [] := by
  cases l with
  | nil => rfl
  | cons r rs => rw [slotsNum_cons] at h; have := rangeNum_pos r; omega

/-- `l = l.dropLast ++ [last]` -/
theorem eq_dropLast_append {l : RangeList} {last : Range} (h : l.getLast? = some last) :
    l = l.dropLast ++ [last] := by
  induction l with
  | nil => simp at h
  | cons x xs ih =>
    cases xs with
    | nil => simp at h; simp [h]
    | cons y ys =>
      have h' : (y :: ys).getLast? = some last := by simpa [List.getLast?_cons_cons] using h
      have := ih h'
      simp only [List.dropLast_cons_cons, List.cons_append]
      rw [← this]

theorem normal_append_left : ∀ (a b : RangeList), NormalRanges (a ++ b) → NormalRanges a
  | [], _, _ => trivial
  | [r], b, h => by
    cases b with
    | nil => exact h
    | cons y ys => exact h.1
  | r :: r' :: rest, b, h => by
    have h' : NormalRanges (r :: r' :: (rest ++ b)) := h
    exact ⟨h'.1, h'.2.1, normal_append_left (r' :: rest) b h'.2.2⟩

/-- changing only the end of the last range (keeping it well-formed) keeps the normal form -/
theorem normal_change_last : ∀ (dl : RangeList) (r r' : Range), NormalRanges (dl ++ [r]) →
    r'.1 = r.1 → r'.1 ≤ r'.2 → NormalRanges (dl ++ [r'])
  | [], _, _, _, _, h2 => h2
  | [x], r, r', h, h1, h2 => by
    have h' : NormalRanges [x, r] := h
    exact ⟨h'.1, by rw [h1]; exact h'.2.1, h2⟩
  | x :: y :: rest, r, r', h, h1, h2 => by
    have h' : NormalRanges (x :: y :: (rest ++ [r])) := h
    exact ⟨h'.1, h'.2.1, normal_change_last (y :: rest) r r' h'.2.2 h1 h2⟩

/-- distinctness of range lists from disjointness of their slots -/
theorem nodup_of_slots_nodup : ∀ (L : List RangeList), (∀ l ∈ L, slotsOf l ≠ []) →
    (L.flatMap slotsOf).Nodup → L.Nodup
  | [], _, _ => List.nodup_nil
  | x :: xs, hne, hnd => by
    rw [List.flatMap_cons] at hnd
    have hnd' := List.nodup_append.mp hnd
    refine List.nodup_cons.mpr ⟨?_, nodup_of_slots_nodup xs (fun l hl => hne l (by simp [hl])) hnd'.2.1⟩
    intro hx
    have hx0 := hne x (by simp)
    obtain ⟨a, ha⟩ := List.exists_mem_of_ne_nil _ hx0
    exact hnd'.2.2 a ha a (List.mem_flatMap.mpr ⟨x, hx, ha⟩) rfl

/-! ## chunk lists -/

/-- slots of all stable range lists, in chunk order -/
def stableSlots (chunks : List Chunk) : List Nat := chunks.flatMap fun ch => ch.stables.flatMap slotsOf

def migsL (chunks : List Chunk) : List MigStore := chunks.flatMap Chunk.migs

/-- slots of all migrating-out entries -/
def migSlots (chunks : List Chunk) : List Nat :=
  ((migsL chunks).filter (·.isMigrating)).flatMap fun m => slotsOf m.ranges

/-- no chunk has a pending entry -/
def NoMig (chunks : List Chunk) : Prop := ∀ ch ∈ chunks, ch.mig0 = [] ∧ ch.mig1 = []

/-- all stored stable range lists are in normal form -/
def StableNormal (chunks : List Chunk) : Prop := ∀ ch ∈ chunks, ∀ rl ∈ ch.stables, NormalRanges rl

theorem noMig_nil : NoMig [] := fun _ h => by cases h
theorem stableNormal_nil : StableNormal [] := fun _ h => by cases h

theorem cluster_migs_eq (c : Cluster) : c.migs = migsL c.chunks := rfl

theorem stableSlots_nil : stableSlots [] = [] := rfl
theorem stableSlots_cons (ch : Chunk) (rest : List Chunk) :
    stableSlots (ch :: rest) = ch.stables.flatMap slotsOf ++ stableSlots rest := by
  simp [stableSlots]
theorem stableSlots_append (a b : List Chunk) : stableSlots (a ++ b) = stableSlots a ++ stableSlots b := by
  simp [stableSlots]

theorem migsL_cons (ch : Chunk) (rest : List Chunk) : migsL (ch :: rest) = ch.migs ++ migsL rest := by
  simp [migsL]
theorem migsL_append (a b : List Chunk) : migsL (a ++ b) = migsL a ++ migsL b := by
  simp [migsL]

theorem migsL_of_noMig {chunks : List Chunk} (h : NoMig chunks) : migsL chunks = [] := by
  induction chunks with
  | nil => rfl
  | cons ch rest ih =>
    have := h ch (by simp)
    rw [migsL_cons, ih (fun c hc => h c (by simp [hc]))]
    simp [Chunk.migs, this.1, this.2]

theorem stables_flatMap (ch : Chunk) :
    ch.stables.flatMap slotsOf = (ch.stable0.map slotsOf).getD [] ++ (ch.stable1.map slotsOf).getD [] := by
  unfold Chunk.stables
  cases ch.stable0 <;> cases ch.stable1 <;> simp

/-- owned slots = stable slots + migrating-out slots (as multisets) -/
theorem count_ownedSlots (c : Cluster) (x : Nat) :
    c.ownedSlots.count x = (stableSlots c.chunks).count x + (migSlots c.chunks).count x := by
  unfold Cluster.ownedSlots migSlots
  generalize c.chunks = chunks
  induction chunks with
  | nil => simp [stableSlots, migsL]
  | cons ch rest ih =>
    rw [List.flatMap_cons, stableSlots_cons, migsL_cons, List.filter_append, List.flatMap_append]
    simp only [List.count_append]
    rw [ih]
    omega

theorem not_isMigrating {c : Cluster} (h : c.isMigrating = false) : NoMig c.chunks := by
  intro ch hch
  unfold Cluster.isMigrating at h
  have := List.any_eq_false.mp h ch hch
  unfold Chunk.hasMig at this
  cases h0 : ch.mig0 <;> cases h1 : ch.mig1 <;> simp_all

/-- a cluster without pending entries trivially satisfies `PosInv` and `TwinInv` -/
theorem posInv_of_noMig {c : Cluster} (h : NoMig c.chunks) : PosInv c := by
  intro i ch hi
  have hm := h ch (List.mem_of_getElem? hi)
  refine ⟨?_, ?_, ?_⟩
  · intro m hm'; rw [hm.1] at hm'; cases hm'
  · intro m hm'; rw [hm.2] at hm'; cases hm'
  · intro m hm'; simp [Chunk.migs, hm.1, hm.2] at hm'

theorem twinInv_of_noMig {c : Cluster} (h : NoMig c.chunks) : TwinInv c := by
  unfold TwinInv
  rw [cluster_migs_eq, migsL_of_noMig h]
  simp

/-- the owned slots of a cluster without pending entries are its stable slots -/
theorem ownedSlots_perm_of_noMig {c : Cluster} (h : NoMig c.chunks) : c.ownedSlots.Perm (stableSlots c.chunks) := by
  apply perm_of_count
  intro x
  rw [count_ownedSlots]
  simp [migSlots, migsL_of_noMig h]

theorem slotInv_of_noMig {c : Cluster} (h : NoMig c.chunks) (hn : StableNormal c.chunks)
    (hs : (stableSlots c.chunks).Perm (List.range SLOT_NUM)) : SlotInv c := by
  refine ⟨?_, (ownedSlots_perm_of_noMig h).trans hs⟩
  intro ch hch
  refine ⟨hn ch hch, ?_⟩
  intro m hm
  have := h ch hch
  simp [Chunk.migs, this.1, this.2] at hm

/-- what `SlotInv` says about a cluster without pending entries -/
theorem stable_of_slotInv {c : Cluster} (h : NoMig c.chunks) (hs : SlotInv c) :
    StableNormal c.chunks ∧ (stableSlots c.chunks).Perm (List.range SLOT_NUM) :=
  ⟨fun ch hch => (hs.1 ch hch).1, (ownedSlots_perm_of_noMig h).symm.trans hs.2⟩

/-! ## store helpers -/

theorem mem_setCluster {s : Store} {cl c : Cluster} (h : c ∈ (s.setCluster cl).clusters) :
    c = cl ∨ c ∈ s.clusters := by
  unfold Store.setCluster at h
  simp only [List.mem_map] at h
  obtain ⟨x, hx, hxc⟩ := h
  split at hxc
  · exact Or.inl hxc.symm
  · exact Or.inr (hxc ▸ hx)

theorem findCluster_mem {s : Store} {n : String} {cl : Cluster} (h : s.findCluster n = some cl) :
    cl ∈ s.clusters := List.mem_of_find?_eq_some h

@[simp] theorem bump_clusters (s : Store) : s.bump.clusters = s.clusters := rfl
@[simp] theorem findCluster_bump (s : Store) (n : String) : s.bump.findCluster n = s.findCluster n := rfl
@[simp] theorem setProxyCluster_clusters (s : Store) (a : String) (v : Option String) :
    (s.setProxyCluster a v).clusters = s.clusters := rfl

theorem tagProxies_clusters : ∀ (addrs : List String) (s s' : Store) (name : String),
    tagProxies s addrs name = R.ok s' → s'.clusters = s.clusters := by
  intro addrs
  induction addrs with
  | nil =>
    intro s s' name h
    simp only [tagProxies, List.foldlM_nil] at h
    rw [← pure_ok h]
  | cons a rest ih =>
    intro s s' name h
    simp only [tagProxies, List.foldlM_cons] at h
    obtain ⟨s1, h1, h2⟩ := bind_ok h
    split at h1
    · have := pure_ok h1
      subst this
      have := ih _ _ name h2
      rw [this]; rfl
    · cases h1

end Um.Broker.Plan
